"""Run the real engine binary as a UCI process and observe it: lines with arrival times, exit
status, liveness."""
import os
import subprocess
import threading
import time

import common as C


class Engine:
    def __init__(self, env=None):
        e = dict(os.environ)
        if env:
            e.update(env)
        self.p = subprocess.Popen([C.ENGINE], stdin=subprocess.PIPE, stdout=subprocess.PIPE,
                                  stderr=subprocess.PIPE, text=True, bufsize=1, env=e, encoding="utf-8", errors="replace")
        self.out = []   # (t, line)
        self.err = []
        self.t0 = time.time()
        self.lock = threading.Lock()
        self.threads = [threading.Thread(target=self._rd, args=(self.p.stdout, self.out), daemon=True),
                        threading.Thread(target=self._rd, args=(self.p.stderr, self.err), daemon=True)]
        for t in self.threads:
            t.start()

    def _rd(self, f, sink):
        for line in f:
            with self.lock:
                sink.append((time.time() - self.t0, line.rstrip("\n")))

    def send(self, line):
        try:
            self.p.stdin.write(line + "\n")
            self.p.stdin.flush()
            return True
        except (BrokenPipeError, OSError):
            return False

    def send_bytes(self, raw):
        """one line given as BYTES (not necessarily valid UTF-8); the newline is added"""
        try:
            self.p.stdin.flush()
            self.p.stdin.buffer.write(raw + b"\n")
            self.p.stdin.buffer.flush()
            return True
        except (BrokenPipeError, OSError, ValueError):
            return False

    def lines(self):
        with self.lock:
            return [l for _, l in self.out]

    def err_lines(self):
        with self.lock:
            return [l for _, l in self.err]

    def wait_for(self, pred, timeout, start=0):
        """wait until some stdout line with index >= start satisfies pred; returns index or None"""
        deadline = time.time() + timeout
        while time.time() < deadline:
            with self.lock:
                for i in range(start, len(self.out)):
                    if pred(self.out[i][1]):
                        return i
            if self.p.poll() is not None:
                time.sleep(0.05)
                with self.lock:
                    for i in range(start, len(self.out)):
                        if pred(self.out[i][1]):
                            return i
                return None
            time.sleep(0.005)
        return None

    def count(self, prefix):
        return sum(1 for l in self.lines() if l.startswith(prefix))

    def alive(self):
        return self.p.poll() is None

    def close_stdin(self):
        try:
            self.p.stdin.close()
        except OSError:
            pass

    def finish(self, timeout=5.0):
        """send quit, wait for exit; returns (exit code or None, seconds)"""
        t = time.time()
        self.send("quit")
        try:
            rc = self.p.wait(timeout=timeout)
        except subprocess.TimeoutExpired:
            self.p.kill()
            self.p.wait()
            return None, time.time() - t
        for th in self.threads:
            th.join(timeout=1)
        return rc, time.time() - t

    def kill(self):
        try:
            self.p.kill()
            self.p.wait()
        except OSError:
            pass
