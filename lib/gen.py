"""Turn the engine's `verif consts` dump into coq/generated/Consts.v (content-compared before
overwriting so `make` re-checks exactly what changed)."""
import os


def nlist(vals):
    return "[" + "; ".join(str(v) for v in vals) + "]"


def parse_consts(text):
    d = {}
    rays = {}
    for line in text.splitlines():
        f = line.split()
        if not f:
            continue
        if f[0] == "RAYS":
            rays[int(f[1])] = [int(x) for x in f[2:]]
        else:
            d[f[0]] = [int(x) for x in f[1:]]
    d["RAYS"] = [rays[i] for i in range(64)]
    return d


def consts_v(d):
    out = []
    out.append("(* GENERATED on every run by lib/gen.py from `rust_chess_engine verif consts` (the engine")
    out.append("   built from /repo's current working tree).  Do not edit. *)")
    out.append("From Coq Require Import NArith List.")
    out.append("Import ListNotations.")
    out.append("Open Scope N_scope.")
    for name in ("ROOK", "BISHOP"):
        low = name.lower()
        out.append(f"Definition gen_{low}_masks : list N := {nlist(d[name + '_MASKS'])}.")
        out.append(f"Definition {low}_magics : list N := {nlist(d[name + '_MAGICS'])}.")
        out.append(f"Definition {low}_bits : list N := {nlist(d[name + '_BITS'])}.")
        out.append(f"Definition {low}_size : N := {d[name + '_SIZE'][0]}.")
    out.append("Definition gen_rays : list (list N) := [")
    out.append(";\n".join("  " + nlist(r) for r in d["RAYS"]))
    out.append("].")
    for name in ("KNIGHT", "KING", "WPAWN", "BPAWN"):
        out.append(f"Definition gen_{name.lower()} : list N := {nlist(d[name])}.")
    q, r, b, n, p = d["EVAL_QRBNP"]
    out.append(f"Definition val_queen : N := {q}.")
    out.append(f"Definition val_rook : N := {r}.")
    out.append(f"Definition val_bishop : N := {b}.")
    out.append(f"Definition val_knight : N := {n}.")
    out.append(f"Definition val_pawn : N := {p}.")
    return "\n".join(out) + "\n"


def ztable_v(d):
    z = d["ZTABLE"]
    out = []
    out.append("(* GENERATED on every run by lib/gen.py: the 781 Zobrist words of the live engine, in the")
    out.append("   order pieces[color][piece][square], castling[4], en_passant[8], white_turn. *)")
    out.append("From Coq Require Import NArith List.")
    out.append("Import ListNotations.")
    out.append("Open Scope N_scope.")
    out.append(f"Definition gen_ztable : list N := {nlist(z)}.")
    return "\n".join(out) + "\n"


def write_if_changed(path, content):
    try:
        with open(path) as f:
            if f.read() == content:
                return False
    except FileNotFoundError:
        pass
    os.makedirs(os.path.dirname(path), exist_ok=True)
    tmp = path + ".tmp%d" % os.getpid()
    with open(tmp, "w") as f:
        f.write(content)
    os.replace(tmp, path)
    return True
