"""C01 — see DESIGN.md section 5."""
from props import boardprop

FIELDS = ("legal.set","check.white","check.black","attacked.white","attacked.black","check.after","pseudo.count","move-accepted","spec.legal_set","spec.nodup","spec.check_white","spec.check_black","spec.flags","spec.wf")
PREFIXES = ()
HAS_PROOFS = True


def run(ctx):
    return boardprop.run(ctx, "C01", FIELDS, PREFIXES, "legal moves / check status differ from the model (which agrees with the rules spec)", has_proofs=HAS_PROOFS)


def replay(ctx, payload):
    return boardprop.replay(ctx, payload)
