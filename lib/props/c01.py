"""C01 — see DESIGN.md section 5."""
import json
import random
import common as C
import positions as P
from props import boardprop
FIELDS = ("legal.set","check.white","check.black","attacked.white","attacked.black","check.after","pseudo.count","move-accepted","spec.legal_set","spec.nodup","spec.check_white","spec.check_black","spec.flags","spec.wf")
PREFIXES = ()
HAS_PROOFS = True


def run(ctx):
    res = boardprop.run(ctx, "C01", FIELDS, PREFIXES, "legal moves / check status differ from the model (which agrees with the rules spec)", has_proofs=HAS_PROOFS)
    if res["coverage"].get("evaluations", 0) == 0:
        return res
    # ---- what the engine says about a position may not depend on which position it was asked about before (engine alone): every
    # question (check status, legal moves, number of pseudo-legal moves, attacked squares, evaluation, keys, a depth-2 search) about Y
    # on a fresh thread vs the same question about Y right after a question about X on the same thread.  X, Y: the committed
    # key-collision pairs in both orders (a memo keyed by the position key alone — seeded change r6C01 — answers for the wrong position
    # exactly there) and random pairs of corpus / bench positions.
    rng = random.Random(ctx["seed"] + 101)
    pool = P.corpus() + P.bench_fens()
    pairs = []
    for a, b in P.collision_pairs(near=True):
        pairs += [(a, b), (b, a)]
    for _ in range(60 if ctx["tier"] == "quick" else 1500):
        a, b = rng.choice(pool), rng.choice(pool)
        if a != b:
            pairs.append((a, b))
    rc, so, se = C.driver(["pairs"], "".join("%s | %s\n" % p for p in pairs), timeout=1800)
    lines = [l[6:] for l in so.splitlines() if l.startswith("PAIRS ")]
    if rc != 0 or len(lines) != len(pairs):
        rp = C.write_replay("C01", {"broken": "query-independence leg (driver `pairs`) did not complete", "stderr": (se or "")[-600:]})
        res["violations"].append({"replay": rp, "no_input": True})
    else:
        nb = 0
        for (x, y), l in zip(pairs, lines):
            try:
                bad = json.loads(l)
            except ValueError:
                bad = [{"q": "unparsable driver output", "raw": l[:200]}]
            if bad:
                nb += 1
                if nb <= 3:
                    rp = C.write_replay("C01", {"kind": "the engine's answer about a position depends on which position it was asked about before (one of the two answers is wrong)",
                                                "asked_first_about": x, "then_about": y, "differences": bad[:6],
                                                "replay_cmd": "printf '%s | %s\\n' | %s verif pairs | grep PAIRS" % (x, y, C.ENGINE)})
                    res["violations"].append({"replay": rp})
        res["coverage"]["query_independence_pairs"] = len(pairs)
        res["coverage"]["query_independence_failures"] = nb
    return res


def replay(ctx, payload):
    return boardprop.replay(ctx, payload)
