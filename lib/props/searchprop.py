"""Common body of the checks that share the search correspondence (C09, C11, C13, C14, C16)."""
import json
import common as C
import searchcorr as S


def fail_build(prop, what, log):
    rp = C.write_replay(prop, {"broken": what, "log": log})
    return {"violations": [{"replay": rp, "no_input": True}],
            "coverage": {"obligations": 1, "discharged": 0, "evaluations": 0, "distinct_nontrivial": 0,
                         "explanation": what}}


def prepare(prop, extra_targets=()):
    ok, blog, bt = C.build_engine()
    if not ok:
        return None, fail_build(prop, "engine+driver build from /repo working tree", blog)
    d, err = C.gen_consts()
    if d is None:
        return None, fail_build(prop, "consts dump", err)
    gate = C.proof_gate(prop, extra_targets=list(extra_targets) + S.MODEL_TARGETS)
    return gate, None


def corr(ctx, prop, groups, relevant, what, violations, cov, engine_checks=None, internal=None):
    """run the search correspondence; add violations for relevant divergences.
    internal(case, dv) -> True when the divergence is between the engine and the MODEL on an observable that the property does not fix by
    itself (node counts, which of several equally good moves, cache contents, the text of a line ...): the correspondence is broken,
    which is reported, but it is not an input on which the property fails — that is for the engine-level judges of the check to find;
    such a report carries `no-failing-input-found` and names the correspondence."""
    r = S.run(ctx["tier"], ctx["seed"], groups)
    if "error" in r:
        rp = C.write_replay(prop, {"broken": "search correspondence: " + r["error"], "log": r.get("log", "")})
        violations.append({"replay": rp, "no_input": True})
        cov.setdefault("evaluations", 0)
        cov.setdefault("distinct_nontrivial", 0)
        return None
    hits = [(i, dv) for i, dv in r["divergences"] if relevant(r["cases"][i], dv)]
    seen = set()
    for i, dv in hits:
        if dv["field"] in seen or len(seen) >= 5:
            continue
        seen.add(dv["field"])
        case = r["cases"][i]
        is_int = bool(internal and internal(case, dv))
        payload = {"kind": what, "divergence": dv, "case": case,
                   "replay_cmd": "printf '%s | %s | %s\\n' | %s verif search" % (
                       case["fen"], " ".join(case["moves"]), ";".join(case["specs"]), C.ENGINE)}
        if is_int:
            payload["broken"] = ("correspondence engine = model on `%s` (search correspondence, lib/searchcorr.py): the theorems of props/%s.v are "
                                 "about the model, which no longer describes the code on this case; the property itself is judged on the engine by the "
                                 "other legs of this check" % (dv["field"], prop))
        rp = C.write_replay(prop, payload)
        violations.append({"replay": rp, "no_input": is_int})
    if engine_checks:
        n = 0
        for i, (case, eng) in enumerate(zip(r["cases"], r["engine"])):
            for msg in engine_checks(case, eng):
                n += 1
                if n <= 3:
                    rp = C.write_replay(prop, {"kind": what + " (observed on the engine alone)", "problem": msg,
                                               "case": case,
                                               "replay_cmd": "printf '%s | %s | %s\\n' | %s verif search" % (
                                                   case["fen"], " ".join(case["moves"]), ";".join(case["specs"]),
                                                   C.ENGINE)})
                    violations.append({"replay": rp})
    st = r["stats"]
    cov["evaluations"] = cov.get("evaluations", 0) + st["searches"]
    cov["distinct_nontrivial"] = cov.get("distinct_nontrivial", 0) + len(
        set((c["fen"], tuple(c["moves"]), tuple(c["specs"])) for c in r["cases"]))
    cov["traces_validated_against_impl"] = st["searches"]
    cov["search_stats"] = st
    cov["divergences_relevant"] = len(hits)
    cov.setdefault("samples", []).append({"case": r["cases"][0], "engine_result": {k: v for k, v in r["engine"][0]["results"][0].items() if k != "writes"}})
    return r


def finish(prop, gate, violations, cov):
    cov["obligations"] = gate["obligations"]
    cov["discharged"] = gate["discharged"]
    cov["theorems"] = gate["theorems"]
    if not gate["ok"]:
        payload = {"broken": gate["failures"], "log": gate["log"][-3000:]}
        found = [v for v in violations if not v.get("no_input")]
        if found:
            payload["witnesses"] = [v["replay"] for v in found]
            C.write_replay(prop, payload)
        else:
            rp = C.write_replay(prop, payload)
            violations.append({"replay": rp, "no_input": True})
    return {"violations": violations, "coverage": cov,
            "assumptions": ["clock and stop flag are oracles of the model; in-process runs use node budgets and depth bounds (deterministic)",
                            "positions are persistent values in the model; that the mutable board + unmake computes the same is C02"]}


def replay(ctx, payload):
    C.build_engine()
    case = payload.get("case")
    if case:
        rc, so, se = C.driver(["search"], "%s | %s | %s\n" % (case["fen"], " ".join(case["moves"]), ";".join(case["specs"])))
        print(so[:6000])
    print(json.dumps(payload.get("divergence") or payload.get("problem"), indent=1))
    return 1
