"""C07 — loading a FEN yields exactly the position the FEN describes."""
import json
import random
import common as C
import boardcorr as B
import positions as P
from props import searchprop as SP

HEADER = ("From Coq Require Import NArith List String.\nImport ListNotations.\n"
          "From RCE Require Import lib.Bits model.Board model.Movegen model.Fen model.Abs model.CasesBoard model.CasesSpec spec.Rules spec.SpecFen.\n"
          "Open Scope string_scope.\n")
FILES = "abcdefgh"


def gen_fen(rng):
    """a structurally valid FEN: random placement with one king each, rights consistent with king/rook
    placement, optional en-passant square consistent with a just-pushed pawn, clocks over the asked ranges"""
    g = {}
    turn = rng.choice("wb")
    style = rng.random()
    if style < 0.35:
        # castling-rich: kings and some rooks at home
        g[(0, 4)] = "K"
        g[(7, 4)] = "k"
        for sq, c in (((0, 0), "R"), ((0, 7), "R"), ((7, 0), "r"), ((7, 7), "r")):
            if rng.random() < 0.7:
                g[sq] = c
    else:
        while True:
            wk = (rng.randrange(8), rng.randrange(8))
            bk = (rng.randrange(8), rng.randrange(8))
            if abs(wk[0] - bk[0]) > 1 or abs(wk[1] - bk[1]) > 1:
                break
        g[wk] = "K"
        g[bk] = "k"
    n = rng.choice([0, 2, 6, 12, 20, 28])
    for _ in range(n):
        sq = (rng.randrange(8), rng.randrange(8))
        if sq in g:
            continue
        c = rng.choice("PPPPNBRQppppnbrq")
        if c in "Pp" and sq[0] in (0, 7):
            continue
        g[sq] = c
    rights = ""
    if g.get((0, 4)) == "K":
        if g.get((0, 7)) == "R" and rng.random() < 0.8:
            rights += "K"
        if g.get((0, 0)) == "R" and rng.random() < 0.8:
            rights += "Q"
    if g.get((7, 4)) == "k":
        if g.get((7, 7)) == "r" and rng.random() < 0.8:
            rights += "k"
        if g.get((7, 0)) == "r" and rng.random() < 0.8:
            rights += "q"
    if len(rights) > 1 and rng.random() < 0.35:
        # the castling letters in any order (qkQK, kK, ...): the independent reader accepts every order without repeats, and so
        # does the pinned engine (seeded change r9C07: a one-pass K-Q-k-q reader that panics on any other spelling)
        rl = list(rights)
        rng.shuffle(rl)
        rights = "".join(rl)
    ep = None
    if rng.random() < 0.4:
        f = rng.randrange(8)
        if turn == "w":      # black just pushed f7-f5
            if all((r, f) not in g for r in (4, 5, 6)):
                g[(4, f)] = "p"
                ep = FILES[f] + "6"
        else:
            if all((r, f) not in g for r in (1, 2, 3)):
                g[(3, f)] = "P"
                ep = FILES[f] + "3"
    hm = 0 if ep else rng.choice([0, 1, 7, 49, 99, 100, 150, rng.randrange(151)])
    fm = rng.choice([1, 2, 40, 5999, 6000, rng.randrange(1, 6001)])
    fen = P.board_to_fen(g, turn, rights, ep, hm, fm)
    if rng.random() < 0.2:
        fen = " ".join(fen.split()[:4])            # 4-field form
    if rng.random() < 0.1:
        fen = fen.replace(" ", "  ", 1)            # doubled separator
    return fen


def extreme_fens():
    """the longest and shortest strings a FEN can be: placements of 71 characters (32 men, no two adjacent empty squares), 8 x "8"
    ranks with two kings, every field at its longest (KQkq, an en-passant square, 5-digit counters), both 4- and 6-field"""
    out = []
    dense = ["r1b1k1n1/1p1p1p1p/1n1q1b1r/p1p1p1p1/P1P1P1P1/1N1Q1B1R/1P1P1P1P/R1B1K1N1",
             "1r1n1b1k/p1p1p1p1/1p1p1p1p/q1b1n1r1/1R1N1B1Q/P1P1P1P1/1P1P1P1P/K1B1N1R1",
             "r1b1k1n1/1p1p1p1p/1n1q1b1r/p1p1p1p1/P1P1P1P1/1N1Q1B1R/1P1P1P1P/R1B1K2N"]
    for pl in dense:
        for rest in ("w - - 3 20", "b - - 0 1", "w Qq - 65 6000", "w - -", "b - - 149 65535"):
            if "Qq" in rest and not (pl.endswith("R1B1K1N1") and pl.startswith("r1b1k")):
                continue
            out.append(pl + " " + rest)
    out.append("rnbqkbnr/pppp1ppp/8/4p3/4P3/8/PPPP1PPP/RNBQKBNR w KQkq e6 149 65535")
    out.append("rnbqkbnr/pppp1ppp/8/4p3/4P3/8/PPPP1PPP/RNBQKBNR b KQkq e3 0 60000")
    out.append("k7/8/8/8/8/8/8/7K w - - 0 1")
    out.append("7k/8/8/8/8/8/8/K7 b - -")
    return out


def run(ctx):
    prop = "C07"
    gate, err = SP.prepare(prop, extra_targets=B.MODEL_TARGETS)
    if err:
        return err
    violations, cov = [], {"samples": []}
    rng = random.Random(ctx["seed"] + 7)
    n = 1200 if ctx["tier"] == "quick" else 100000
    fens = list(dict.fromkeys(P.corpus() + P.bench_fens() + extreme_fens() + [gen_fen(rng) for _ in range(n)]))
    rc, so, se = C.driver(["fen"], "\n".join(fens) + "\n", timeout=900)
    eng = [json.loads(l) for l in so.splitlines()]
    items = ["match fen_case %s, SpecFen.parse %s with Some st, Some p => Some (st, match from_fen %s with Some b => pos_eqb (abs b) p | None => false end) | _, _ => None end"
             % (B.coq_str(f), B.coq_str(f), B.coq_str(f)) for f in fens]
    vals, lg = C.coq_eval_items("c07f", HEADER, items, lambda l: l, nshards=C.NPROC * 2, timeout=2400)
    accepted = 0
    if vals is None or len(eng) != len(fens):
        rp = C.write_replay(prop, {"broken": "FEN correspondence", "log": lg[-2000:], "stderr": se[-300:]})
        violations.append({"replay": rp, "no_input": True})
    else:
        nb = 0
        nbi = 0
        feats = {"ep": 0, "rights": 0, "four_field": 0, "black_to_move": 0}
        for f, e, v in zip(fens, eng, vals):
            v = B.norm(v)
            if v is None:
                continue       # not accepted by the independent reader: outside the property
            accepted += 1
            fs = f.split()
            feats["ep"] += fs[3] != "-"
            feats["rights"] += fs[2] != "-"
            feats["four_field"] += len(fs) == 4
            feats["black_to_move"] += fs[1] == "b"
            st, agrees = v[1][0:3], v[1][3]
            problem = None
            if isinstance(e, dict):
                problem = "the engine's reader panics on a valid FEN"
            else:
                names = (["turn", "fullmove", "ep"] + ["bb%d" % i for i in range(15)] + ["zkey", "scratch_key"])
                internal_only = None
                for nm, a, b in zip(names, e[0], st[0]):
                    if a != b:
                        if nm in ("zkey", "scratch_key"):
                            # the numeric key is not fixed by the FEN (C04 judges that it is the key of the same position reached by play)
                            internal_only = internal_only or "key differs from the model key: engine %s model %s" % (a, b)
                            continue
                        problem = "loaded position differs from the model in %s: engine %s model %s" % (nm, a, b)
                        break
                if problem is None and e[1] != st[1]:
                    pe = [[r_[5] & 4] + r_[6:8] for r_ in e[1]]
                    pm = [[r_[5] & 4] + r_[6:8] for r_ in st[1]]
                    if pe != pm:
                        problem = "undo record (clock / rights / double-push flag) differs: engine %s model %s" % (e[1], st[1])
                    else:
                        internal_only = internal_only or "the synthetic undo record differs in fields that carry no content of the FEN: engine %s model %s" % (e[1], st[1])
                if problem is None and internal_only and agrees == 1:
                    nbi += 1
                    if nbi <= 2:
                        rp = C.write_replay(prop, {"kind": "FEN load", "fen": f, "problem": internal_only,
                                                   "broken": "correspondence engine reader = model/Fen.v on an observable the FEN does not fix; pieces, side, rights, "
                                                             "en-passant file and counters agree with the independent reader",
                                                   "replay_cmd": "printf '%s\\n' | %s verif fen" % (f, C.ENGINE)})
                        violations.append({"replay": rp, "no_input": True})
                if problem is None and e[2] != []:
                    problem = "a freshly loaded position remembers earlier positions"
            if problem is None and agrees != 1:
                problem = "model board differs from what the independent reader SpecFen.parse describes"
            if problem:
                nb += 1
                if nb <= 4:
                    rp = C.write_replay(prop, {"kind": "FEN load", "fen": f, "problem": problem,
                                               "replay_cmd": "printf '%s\\n' | %s verif fen" % (f, C.ENGINE)})
                    violations.append({"replay": rp})
        cov["fens"] = len(fens)
        cov["fens_accepted_by_spec_reader"] = accepted
        cov["input_distribution"] = feats
    # "behaves like the same position reached by play": walk positions, their FEN, reload, compare
    nw = 80 if ctx["tier"] == "quick" else 3000
    pool = P.corpus() + P.bench_fens()
    starts = [pool[0] if i % 2 == 0 else pool[rng.randrange(len(pool))] for i in range(nw)]
    rc, so, se = C.driver(["randwalk", str(ctx["seed"] + 77), "40"], "\n".join(starts) + "\n")
    games = [l for l in so.splitlines() if "PANIC" not in l]
    rc, so2, se = C.driver(["tofen"], "\n".join(games) + "\n")
    refens = so2.splitlines()
    rc, wa, se = C.driver(["walk"], "\n".join(games) + "\n", timeout=900)
    rc, wb, se = C.driver(["walk"], "\n".join(refens) + "\n", timeout=900)
    cmpn = 0
    for g, rf, la, lb in zip(games, refens, wa.splitlines(), wb.splitlines()):
        a, b = json.loads(la), json.loads(lb)
        if a.get("panic") or b.get("panic") or rf == "PANIC":
            rp = C.write_replay(prop, {"kind": "reload of a played position", "game": g, "fen": rf, "problem": "panic"})
            violations.append({"replay": rp})
            continue
        na, nbn = a["nodes"][-1], b["nodes"][0]
        cmpn += 1
        problem = None
        if na[0][0] != nbn[0][0]:
            problem = "state after play differs from the reloaded FEN (bitboards / side / ep / counters / keys)"
        elif [m[0] for m in na[1]] != [m[0] for m in nbn[1]]:
            problem = "legal moves differ between the played and the reloaded position"
        elif [m[1] for m in na[1]] != [m[1] for m in nbn[1]]:
            problem = "a successor position differs between the played and the reloaded position"
        elif [na[0][1][-1][5] & 4] + na[0][1][-1][6:] != [nbn[0][1][-1][5] & 4] + nbn[0][1][-1][6:]:
            # only the double-push flag (which carries the en-passant file), the clock and the rights are
            # content; castling / en-passant-capture flags of the last PLAYED move are not part of a position
            problem = "double-push flag / clock / rights of the last undo record differ"
        if problem:
            rp = C.write_replay(prop, {"kind": "reload of a played position", "game": g, "fen": rf, "problem": problem})
            violations.append({"replay": rp})
            break
    cov["played_positions_reloaded"] = cmpn
    cov["evaluations"] = len(fens) + cmpn
    cov["distinct_nontrivial"] = accepted
    cov["rule"] = ("generated structurally valid FENs (random placements with one king each; castling-rich family; every consistent "
                   "rights subset; en-passant squares for both sides behind a just-pushed pawn; half-move clocks 0..150, move numbers "
                   "1..6000; 4-field and 6-field forms; doubled separators) + corpus + bench: full loaded state engine vs model, model vs "
                   "the independent reader; positions reached by random legal play, written as FEN and reloaded: state, legal moves and "
                   "all successors compared with the played board; non-trivial = accepted by the independent reader")
    cov["samples"].append({"fen": fens[-1]})
    return SP.finish(prop, gate, violations, cov)


def replay(ctx, payload):
    C.build_engine()
    if "fen" in payload:
        rc, so, se = C.driver(["fen"], payload["fen"] + "\n")
        print(so)
    print(payload)
    return 1
