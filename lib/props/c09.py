"""C09 — every go is answered by exactly one legal bestmove, whatever the limits."""
import itertools
import random
import time
import common as C
import boardcorr as B
import searchcorr as S
import uciproc
from props import searchprop as SP

POSITIONS = [
    ("startpos", []),
    ("startpos", ["e2e4", "e7e5", "g1f3", "b8c6"]),
    ("fen r3k2r/p1ppqpb1/bn2pnp1/3PN3/1p2P3/2N2Q1p/PPPBBPPP/R3K2R w KQkq - 0 1", []),
    ("fen 8/8/8/8/8/5k2/6q1/7K b - - 0 1", []),
    ("fen 7k/5Q2/6K1/8/8/8/8/8 w - - 0 1", []),
    ("fen 8/P7/8/8/8/8/8/k1K5 w - - 0 1", []),
    ("fen k7/8/1K6/8/8/8/8/7R w - - 98 80", []),
    ("fen 4k3/8/8/8/8/8/4P3/4K3 w - - 0 1", ["e1d1", "e8d8", "d1e1", "d8e8"]),
]


def legal_sets():
    """legal moves (notation) of every test position according to the Coq model"""
    items = []
    for pos, ms in POSITIONS:
        fen = "rnbqkbnr/pppppppp/8/8/8/8/PPPPPPPP/RNBQKBNR w KQkq - 0 1" if pos == "startpos" else pos[4:]
        items.append("match from_fen %s with Some b0 => match play b0 [%s] with Some b => map to_notation (get_legal_moves b) | None => [] end | None => [] end"
                     % (B.coq_str(fen), "; ".join(B.coq_str(m) for m in ms)))
    vals, lg = C.coq_eval_items("c09l", B.HEADER, items, lambda l: l, nshards=4, timeout=600)
    return vals, lg


def limit_grid(tier, rng):
    g = []
    for d in (1, 2, 3, 4):
        g.append(("depth %d" % d, 20.0))
    for n in (1, 2, 3, 5, 20, 100, 1000, 20000):
        g.append(("nodes %d" % n, 20.0))
    for t in (0, 1, 10, 60):
        g.append(("movetime %d" % t, t / 1000.0))
    for (w, b, wi, bi) in ((0, 0, 0, 0), (1, 1, 0, 0), (40, 40, 0, 0), (1000, 1000, 10, 10), (0, 1000, 0, 0), (1000, 0, 100, 0)):
        g.append(("wtime %d btime %d winc %d binc %d" % (w, b, wi, bi), max(w, b) / 20000.0 + max(wi, bi) / 2000.0))
    # own clock decides, not the opponent's: budget depends on the side to move (None = computed per position)
    g.append(("wtime 60000 btime 200 winc 20000 binc 0", None))
    g.append(("wtime 200 btime 60000 winc 0 binc 20000", None))
    g.append(("wtime 30", 0.01))
    g.append(("binc 20 btime 5", 0.02))
    g.append(("depth 2 nodes 7", 5.0))
    g.append(("movetime 20 depth 30", 0.02))
    g.append(("nodes 50 wtime 100000 btime 100000", 5.0))
    if tier == "quick":
        return g
    return g + [("depth %d nodes %d movetime %d" % (rng.randrange(1, 6), rng.randrange(1, 5000), rng.randrange(0, 80)), 0.1)
                for _ in range(60)]


def run(ctx):
    prop = "C09"
    gate, err = SP.prepare(prop, extra_targets=B.MODEL_TARGETS + ["model/Go.vo"])
    if err:
        return err
    violations, cov = [], {"samples": []}
    rng = random.Random(ctx["seed"] + 9)

    def relevant(case, dv):
        return dv["field"] in ("engine-panic", "bestmove-count", "bestmove-illegal", "bestmove-line", "best_move", "model-setup", "engine-setup-panic")

    def internal(case, dv):
        # WHICH legal move is announced is not fixed by the property: only that there is exactly one and that it is legal
        return dv["field"] in ("bestmove-line", "best_move", "model-setup")
    r = SP.corr(ctx, prop, ("value", "budget", "timer", "cut"), relevant,
                "search answer (panic / number of bestmove lines / legality of the announced move; the chosen move vs the model)", violations, cov,
                internal=internal)
    # the time-management budget: engine vs the model's formula (model/Go.v), both colours
    if r is not None:
        tc = [(c, e) for c, e in zip(r["cases"], r["engine"]) if c["group"] == "timer"]
        items = ["time_budget %s (mkGo None None None (Some %d) (Some %d) (Some %d) (Some %d))" % (
            "Black" if c["black"] else "White", c["clocks"][0], c["clocks"][1], c["clocks"][2], c["clocks"][3]) for c, _ in tc]
        vals, lg = C.coq_eval_items("c09t", "From Coq Require Import NArith List.\nImport ListNotations.\nFrom RCE Require Import model.Board model.Uci model.Go.\nOpen Scope N_scope.\n",
                                    items, lambda l: l, nshards=2, timeout=300)
        if vals is None:
            rp = C.write_replay(prop, {"broken": "time budget evaluation", "log": lg[-1500:]})
            violations.append({"replay": rp, "no_input": True})
        else:
            for (c, e), mv in zip(tc, vals):
                got = e["results"][0].get("timer")
                if got != mv:
                    rp = C.write_replay(prop, {"kind": "time-management budget differs from own clock/20 + own increment/2",
                                               "side_to_move": "black" if c["black"] else "white", "wtime,btime,winc,binc": c["clocks"],
                                               "engine_budget_ms": got, "model_budget_ms": mv, "case": c})
                    violations.append({"replay": rp})
                    break
            cov["time_budgets_compared"] = len(tc)

    # ---- the real binary over the pipe: limit grid x positions x consecutive go's ----
    legal, lg = legal_sets()
    if legal is None:
        rp = C.write_replay(prop, {"broken": "legal move sets from the model", "log": lg[-2000:]})
        violations.append({"replay": rp, "no_input": True})
        legal = [None] * len(POSITIONS)
    grid = limit_grid(ctx["tier"], rng)
    sessions = 0
    gos = 0
    worst_over = 0.0
    t_start = time.time()
    for pi, (pos, ms) in enumerate(POSITIONS):
        if legal[pi] is not None and len(legal[pi]) == 0:
            continue      # the property is about positions with a legal move
        eng = uciproc.Engine()
        sessions += 1
        poscmd = "position " + pos + (" moves " + " ".join(ms) if ms else "")
        eng.send(poscmd)
        try:
            fen_side = "w" if pos == "startpos" else pos.split()[2]
            side = fen_side if len(ms) % 2 == 0 else ("b" if fen_side == "w" else "w")
            for gi, (limits, budget_s) in enumerate(grid):
                if budget_s is None:
                    f = dict(zip(limits.split()[0::2], [int(x) for x in limits.split()[1::2]]))
                    own = (f["wtime"] / 20 + f["winc"] / 2) if side == "w" else (f["btime"] / 20 + f["binc"] / 2)
                    if own > 500:
                        continue          # legitimately long think: not for this tier
                    budget_s = own / 1000.0
                elif ctx["tier"] == "quick" and (gi + pi) % 2 == 1 and gi > 8:
                    continue
                before = len(eng.lines())
                t0 = time.time()
                eng.send("go " + limits)
                allowance = budget_s * 10 + 3.0
                idx = eng.wait_for(lambda l: l.startswith("bestmove"), allowance + 30, start=before)
                dt = time.time() - t0
                gos += 1
                problem = None
                if idx is None:
                    problem = "no bestmove within %.1fs" % (allowance + 30)
                else:
                    mv = eng.lines()[idx].split()[1] if len(eng.lines()[idx].split()) > 1 else ""
                    if legal[pi] is not None and mv not in legal[pi]:
                        problem = "bestmove %s is not a legal move" % mv
                    worst_over = max(worst_over, dt - budget_s)
                    # readyok afterwards and no second bestmove
                    b2 = len(eng.lines())
                    eng.send("isready")
                    if eng.wait_for(lambda l: l == "readyok", 5, start=b2) is None:
                        problem = "no readyok after the search"
                    time.sleep(0.02)
                    nbm = sum(1 for l in eng.lines()[before:] if l.startswith("bestmove"))
                    if nbm != 1 and problem is None:
                        problem = "%d bestmove lines for one go" % nbm
                    if dt > allowance and problem is None:
                        # timing: only a violation if it repeats (3 of 3)
                        slow = 1
                        for _ in range(2):
                            b3 = len(eng.lines())
                            t1 = time.time()
                            eng.send("go " + limits)
                            eng.wait_for(lambda l: l.startswith("bestmove"), allowance + 30, start=b3)
                            if time.time() - t1 > allowance:
                                slow += 1
                        if slow == 3:
                            problem = "answer took %.2fs, limits allow %.3fs (3 of 3 runs over the allowance)" % (dt, budget_s)
                if problem:
                    rp = C.write_replay(prop, {"kind": "go over the pipe", "position": poscmd, "go": "go " + limits,
                                               "problem": problem, "stderr": eng.err_lines()[-5:],
                                               "replay_cmd": "printf '%s\\ngo %s\\n' | (cat; sleep 3) | %s" % (poscmd, limits, C.ENGINE)})
                    violations.append({"replay": rp})
                    if idx is None:
                        break
        finally:
            rc, t = eng.finish()
            if rc is None:
                eng.kill()
        if len([v for v in violations if not v.get("no_input")]) >= 5:
            break
    # ---- games in ONE process (the cache is kept): a full search, then a go with a budget too small to finish an iteration on
    # the positions one and two plies further on — where the cache already holds entries written for INTERIOR nodes — must still
    # name a legal move.  First a committed regression scenario, then self-play from tactical positions.
    tiny = ["nodes 1", "movetime 0", "wtime 15 btime 15"]
    game_starts = [("7r/2p3k1/1p1p1qp1/1P1Bp3/p1P2r1P/P7/4R3/Q4RK1 w - - 0 36", [["c4c5", "f4f1"]]),
                   ("r3k2r/p1ppqpb1/bn2pnp1/3PN3/1p2P3/2N2Q1p/PPPBBPPP/R3K2R w KQkq - 0 1", []),
                   ("6k1/1R3p2/6p1/2Bp3p/3P2q1/P7/1P2rQ1K/5R2 b - - 4 44", []),
                   ("r1bqkb1r/pppp1ppp/2n2n2/4p2Q/2B1P3/8/PPPP1PPP/RNB1K1NR w KQkq - 4 4", [])]
    replay_items, replay_meta = [], []
    tiny_gos = 0
    for fen, scripted in game_starts:
        eng = uciproc.Engine()
        try:
            played = []

            def ask(moves, limits):
                poscmd2 = "position fen " + fen + (" moves " + " ".join(moves) if moves else "")
                eng.send(poscmd2)
                b0 = len(eng.lines())
                eng.send("go " + limits)
                i2 = eng.wait_for(lambda l: l.startswith("bestmove"), 60, start=b0)
                if i2 is None:
                    return poscmd2, None, []
                out2 = eng.lines()[b0:i2 + 1]
                pv = []
                for l in out2:
                    if l.startswith("info") and " pv " in l:
                        pv = l.split(" pv ")[1].split()
                return poscmd2, out2[-1].split()[1] if len(out2[-1].split()) > 1 else None, pv

            for ply in range(10 if ctx["tier"] == "quick" else 40):
                poscmd2, bm, pv = ask(played, "depth 3")
                if bm is None or bm == "a1a1":
                    break
                probes = [played + pv[:1], played + pv[:2]] + ([played + sc for sc in scripted] if ply == 0 else [])
                for pm in probes:
                    if len(pm) <= len(played):
                        continue
                    for lim2 in tiny:
                        pc, tb, _ = ask(pm, lim2)
                        tiny_gos += 1
                        if tb is None:
                            rp = C.write_replay(prop, {"kind": "tiny budget after a full search in the same process", "position": pc,
                                                       "go": "go " + lim2, "problem": "no bestmove"})
                            violations.append({"replay": rp})
                        elif tb != "a1a1":
                            replay_items.append("match from_fen %s with Some b0 => match play b0 [%s] with Some _ => true | None => false end | None => false end"
                                                % (B.coq_str(fen), "; ".join(B.coq_str(x) for x in pm + [tb])))
                            replay_meta.append((fen, played, pm, lim2, tb))
                played = played + [bm]
        finally:
            rc, t = eng.finish()
            if rc is None:
                eng.kill()
    if replay_items:
        rv, lg3 = C.coq_eval_items("c09g", B.HEADER, replay_items, lambda l: l, nshards=C.NPROC, timeout=900)
        if rv is None:
            rp = C.write_replay(prop, {"broken": "legality of tiny-budget answers (model evaluation)", "log": lg3[-1500:]})
            violations.append({"replay": rp, "no_input": True})
        else:
            nb3 = 0
            for ok3, (fen, played, pm, lim2, tb) in zip(rv, replay_meta):
                if ok3 is not True:
                    nb3 += 1
                    if nb3 <= 3:
                        pc = "position fen " + fen + " moves " + " ".join(pm)
                        rp = C.write_replay(prop, {"kind": "tiny budget after a full search in the same process: the bestmove is not a legal move",
                                                   "session": ["position fen " + fen + (" moves " + " ".join(played) if played else ""), "go depth 3", pc, "go " + lim2],
                                                   "bestmove": tb,
                                                   "replay_cmd": "printf 'position fen %s%s\\ngo depth 3\\n%s\\ngo %s\\n' | (cat; sleep 2) | %s | grep bestmove" % (
                                                       fen, (" moves " + " ".join(played)) if played else "", pc, lim2, C.ENGINE)})
                        violations.append({"replay": rp})
    # ---- every option the engine ADVERTISES (`uci` -> `option name X type spin ... min A max B`), set to its extremes and to small
    # values, before go's with clocks and movetimes smaller than any such value: whatever an option means, a go must still be answered
    # by exactly one legal bestmove in time (seeded change r7C09: a "Move Overhead" subtracted from an unsigned clock wraps around)
    opt_gos = 0
    e0 = uciproc.Engine()
    try:
        e0.send("uci")
        e0.wait_for(lambda l: l == "uciok", 10)
        opt_lines = [l for l in e0.lines() if l.startswith("option name ")]
    finally:
        rc0, _ = e0.finish()
        if rc0 is None:
            e0.kill()
    settings = []
    for l in opt_lines:
        name = l[len("option name "):].split(" type ")[0]
        f = l.split()
        if " type spin" in l and "min" in f and "max" in f:
            lo, hi = int(f[f.index("min") + 1]), int(f[f.index("max") + 1])
            vals = sorted(set(v for v in (lo, hi, 1, 50, 100, 1000) if lo <= v <= hi))
            settings += [(name, v) for v in vals]
        elif " type check" in l:
            settings += [(name, "true"), (name, "false")]
        elif " type button" in l:
            settings.append((name, None))
    small_gos = [("wtime 60 btime 60", 0.003), ("movetime 20", 0.02), ("wtime 1 btime 1 winc 0 binc 0", 0.001), ("movetime 0", 0.0), ("depth 2", 5.0)]
    start_legal = legal[0] if legal and legal[0] else None
    for name, val in settings:
        eng = uciproc.Engine()
        try:
            eng.send("setoption name %s%s" % (name, "" if val is None else " value %s" % val))
            eng.send("position startpos")
            for limits, budget_s in small_gos:
                before = len(eng.lines())
                eng.send("go " + limits)
                idx = eng.wait_for(lambda l: l.startswith("bestmove"), budget_s * 10 + 8.0, start=before)
                opt_gos += 1
                problem = None
                if idx is None:
                    problem = "no bestmove within %.1fs" % (budget_s * 10 + 8.0)
                else:
                    mv = (eng.lines()[idx].split() + [""])[1]
                    if start_legal is not None and mv not in start_legal:
                        problem = "bestmove %s is not a legal move" % mv
                if problem:
                    rp = C.write_replay(prop, {"kind": "go after setoption", "session": ["setoption name %s%s" % (name, "" if val is None else " value %s" % val),
                                                                                            "position startpos", "go " + limits],
                                               "problem": problem, "stderr": eng.err_lines()[-3:],
                                               "replay_cmd": "printf 'setoption name %s%s\\nposition startpos\\ngo %s\\n' | (cat; sleep 3) | %s | grep bestmove" % (
                                                   name, "" if val is None else " value %s" % val, limits, C.ENGINE)})
                    violations.append({"replay": rp})
                    break
        finally:
            rc, t = eng.finish()
            if rc is None:
                eng.kill()
    # ---- BACKWARD analysis in one cache (driver `backward`): a position, some of its successors and some of theirs are searched
    # successors FIRST, so that the cache holds ROOT entries (exact mate scores among them) of positions that are children of the next
    # root — the order in which a GUI steps back through a game.  Every answer must be a legal move of the position searched.
    # (Seeded change r8C09: a root window starting at -32767 instead of -32768: a forced move into a position already searched as a
    # mate-in-one root scores exactly -32767, "does not improve", and the first PSEUDO-legal move is announced.)
    import json as _json
    import positions as PP
    from concurrent.futures import ThreadPoolExecutor as _TPE
    bfens = ["5R2/1k6/8/8/8/8/6PP/4q2K w - - 0 1", "8/1k6/8/8/8/8/6PP/4qR1K b - - 1 1"]
    bfens += [l.strip() for l in open(C.os.path.join(C.VERIF, "corpus", "mate_fens.txt")) if l.strip() and not l.startswith("#")]
    bfens += PP.mate_hunt_positions(ctx["seed"] + 1, 2500 if ctx["tier"] == "quick" else 60000)
    bchunks = [bfens[i::C.NPROC] for i in range(C.NPROC)]

    def _bw(chunk):
        p_ = C.subprocess.run([C.ENGINE, "verif", "backward"], input="".join(f + "\n" for f in chunk), capture_output=True, text=True, timeout=3000)
        res_ = [_json.loads(l) for l in p_.stdout.splitlines() if l.startswith("{")]
        return list(zip(chunk, res_)) if len(res_) == len(chunk) else None
    with _TPE(max_workers=C.NPROC) as ex:
        bparts = list(ex.map(_bw, bchunks))
    nbs = nbad = 0
    if any(x is None for x in bparts):
        rp = C.write_replay(prop, {"broken": "backward-analysis leg (driver `backward`) did not complete"})
        violations.append({"replay": rp, "no_input": True})
    else:
        for f, r_ in (x for part in bparts for x in part):
            nbs += r_.get("searches", 0)
            for b_ in ([{"moves": "", "best": "panic"}] if r_.get("panic") else r_.get("bad", [])):
                nbad += 1
                if nbad <= 3:
                    rp = C.write_replay(prop, {"kind": "backward analysis in one cache: the move announced after a completed depth-2 search is not a legal move of the position searched",
                                               "root": f, "position_searched": "root + " + (b_["moves"] or "(nothing)"), "announced": b_["best"],
                                               "replay_cmd": "printf '%s\\n' | %s verif backward | grep searches" % (f, C.ENGINE)})
                    violations.append({"replay": rp})
    cov["backward_analysis_searches"] = nbs
    cov["gos_after_setoption"] = opt_gos
    cov["advertised_options"] = [l[len("option name "):] for l in opt_lines]
    cov["tiny_budget_gos_after_full_search"] = tiny_gos
    cov["pipe_sessions"] = sessions
    cov["pipe_go_commands"] = gos
    cov["pipe_worst_seconds_over_budget"] = round(worst_over, 3)
    cov["evaluations"] = cov.get("evaluations", 0) + gos
    cov["distinct_nontrivial"] = cov.get("distinct_nontrivial", 0) + gos
    cov["rule"] = ("in-process: every node budget 1..size of the full search and fixed depths, and stop / game-clock / movetime interruptions forced at "
                   "the K-th leaf with the oracle index fed to the model, engine answer vs model; "
                   "over the pipe: 8 positions (incl. game history, near-stalemate, promotion, fifty-move edge) x a grid of "
                   "depth/nodes/movetime/clock limits down to 0, consecutive go's in one session: exactly one bestmove per go, "
                   "legal per the Coq model's move generator, readyok afterwards; games in one process: after each full search, a go with a budget too small "
                   "to finish an iteration on the positions one and two plies on (cache warm with interior entries) must name a legal move; latency measured with a 10x+3s allowance, "
                   "3-of-3 rule (runtime evidence)")
    cov["samples"].append({"position": POSITIONS[1], "go": grid[5][0]})
    return SP.finish(prop, gate, violations, cov)


replay = SP.replay
