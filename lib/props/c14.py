"""C14 — search progress reports are truthful and well-formed."""
import re
import time
import common as C
import boardcorr as B
import uciproc
import positions as P
import ucigrammar as UG
from props import searchprop as SP
from props.c09 import POSITIONS

INFO_RE = re.compile(r"^info depth (\d+)(?: seldepth (\d+))? nodes (\d+) (?:time (\d+))? (?:nps (\d+))? "
                     r"(?:score (cp -?\d+|mate -?\d+))? pv((?: [a-h][1-8][a-h][1-8][qrbn]?)*)$")


def run(ctx):
    prop = "C14"
    gate, err = SP.prepare(prop, extra_targets=B.MODEL_TARGETS + ["props/ChessInstances.vo", "model/InfoLine.vo"])
    if err:
        return err
    violations, cov = [], {"samples": []}

    def relevant(case, dv):
        return dv["field"] in ("info-count", "info-line", "info-order", "info-invalid", "bestmove-line", "engine-panic", "model-setup",
                               "engine-setup-panic", "seldepth", "nodes")

    def internal(case, dv):
        # fixed by the property and judged on the engine alone: valid UCI, iteration reports 1, 2, 3, ... in order (info-invalid,
        # info-order), legal PVs (replayed below); the counters and the exact fields of the model's trace are a correspondence
        return dv["field"] in ("info-count", "info-line", "bestmove-line", "model-setup", "seldepth", "nodes")
    SP.corr(ctx, prop, ("value", "budget", "seq"), relevant,
            "info lines (depth order, score, pv, counters) differ from the model's output trace", violations, cov, internal=internal)

    # ---- the real binary: `go depth N` reports every depth 1..N; every line is valid UCI; every
    # PV replays as legal moves on the Coq model ----
    lines_checked = 0
    pv_items = []
    pv_meta = []
    maxn = 4 if ctx["tier"] == "quick" else 6
    for pi, (pos, ms) in enumerate(POSITIONS):
        fen = "rnbqkbnr/pppppppp/8/8/8/8/PPPPPPPP/RNBQKBNR w KQkq - 0 1" if pos == "startpos" else pos[4:]
        eng = uciproc.Engine()
        poscmd = "position " + pos + (" moves " + " ".join(ms) if ms else "")
        eng.send(poscmd)
        try:
            for n in range(1, maxn + 1):
                before = len(eng.lines())
                eng.send("go depth %d" % n)
                idx = eng.wait_for(lambda l: l.startswith("bestmove"), 60, start=before)
                if idx is None:
                    rp = C.write_replay(prop, {"kind": "go depth N", "position": poscmd, "N": n, "problem": "no bestmove"})
                    violations.append({"replay": rp})
                    break
                out = eng.lines()[before:idx + 1]
                infos = [l for l in out if l.startswith("info")]
                depths = []
                problem = None
                for l in infos:
                    lines_checked += 1
                    di = UG.parse_info(l)
                    if di is None:
                        problem = "info line is not valid UCI: %r" % l
                        break
                    if not UG.iteration_report(di):
                        continue          # `info string ...`, `info currmove ...`: valid, not an iteration report
                    depths.append(di["depth"])
                    if "score" not in di or "pv" not in di:
                        problem = "iteration report without a score or without a pv: %r" % l
                        break
                    pv = di["pv"]
                    pv_items.append("match from_fen %s with Some b0 => match play b0 [%s] with Some _ => true | None => false end | None => false end"
                                    % (B.coq_str(fen), "; ".join(B.coq_str(x) for x in ms + pv)))
                    pv_meta.append((poscmd, n, l))
                has_legal = True
                if problem is None and depths != list(range(1, n + 1)):
                    # a position without any legal move reports nothing useful; skip those
                    problem = "go depth %d reported depths %s" % (n, depths)
                if problem:
                    rp = C.write_replay(prop, {"kind": "go depth N over the pipe", "position": poscmd, "N": n,
                                               "problem": problem, "output": out[-8:],
                                               "replay_cmd": "printf '%s\\ngo depth %d\\n' | (cat; sleep 3) | %s" % (poscmd, n, C.ENGINE)})
                    violations.append({"replay": rp})
                    break
        finally:
            rc, t = eng.finish()
            if rc is None:
                eng.kill()
    # `go depth N` for LARGE N on tiny positions (iterations are instant; long pawn-move lines reach the ply cap of 255 inside
    # the tree): every depth 1..N must still be reported (C14_depth_only / C14_chess_depth_only hold for every N <= 255)
    # (bare kings: the cached moves cycle, so the PV of iteration N is N moves long — seeded change r7C14: a PV cut at 128 entries
    # whose tail was not taken back leaves the board the next PV is read from displaced)
    deep_positions = ["fen 8/1R6/2N2P2/2kP4/2P4P/3P4/8/6K1 w - - 1 94 moves f6f7 c5d6", "fen 7k/5Q2/6K1/8/8/8/8/8 w - - 0 1",
                      "fen 6k1/5ppp/8/8/8/8/8/R3K3 w - - 0 1", "fen k7/p1K5/P7/8/8/8/8/1R6 w - - 0 1",
                      "fen 8/8/8/4k3/8/8/4K3/8 w - - 0 1", "fen 8/8/8/4k3/8/8/4K3/7n b - - 0 1"]
    deep_pv_lines = []
    deep_ns = [255, 254, 128] if ctx["tier"] == "quick" else [255, 254, 253, 200, 128, 64]
    # pawn endings to depth 10 / 12: the score JUMPS between deep iterations when a promotion enters the horizon (seeded change r9C14:
    # aspiration windows from iteration 7 on; an iteration that fails outside its window is skipped instead of redone: a gap in the depths)
    pawn_runs = [("fen " + f, n) for f in ("8/8/8/8/4P3/8/k7/4K3 w - - 0 1", "7k/8/8/8/8/P7/8/7K w - - 0 1", "8/5k2/8/8/8/8/1P6/1K6 w - - 0 1",
                                             "k7/7p/8/8/8/8/8/K7 b - - 0 1", "8/2k5/8/8/8/8/5P1P/6K1 w - - 0 1", "6k1/8/8/8/8/8/P6p/K7 w - - 0 1")
                 for n in ((10, 12) if ctx["tier"] == "quick" else (8, 10, 12, 14))]
    deep_runs = 0
    for pos, n in [(p_, n_) for p_ in deep_positions for n_ in deep_ns] + pawn_runs:
        if True:
            eng = uciproc.Engine()
            try:
                eng.send("position " + pos)
                before = len(eng.lines())
                eng.send("go depth %d" % n)
                idx = eng.wait_for(lambda l: l.startswith("bestmove"), 25, start=before)
                if idx is None:
                    eng.send("stop")          # too big a tree for this position: not judged
                    eng.wait_for(lambda l: l.startswith("bestmove"), 10, start=before)
                    continue
                deep_runs += 1
                out = eng.lines()[before:idx + 1]
                parsed = [(l, UG.parse_info(l)) for l in out if l.startswith("info")]
                depths = [di["depth"] for l, di in parsed if UG.iteration_report(di)]
                base_fen, _, base_ms = pos[4:].partition(" moves ")
                for l, di in parsed:
                    if di is not None and di.get("pv"):
                        deep_pv_lines.append((base_fen, base_ms.split(), di["pv"], "position " + pos, n, l))
                bad = [l for l, di in parsed if di is None]
                if bad or depths != list(range(1, n + 1)):
                    missing = sorted(set(range(1, n + 1)) - set(depths))[:10]
                    rp = C.write_replay(prop, {"kind": "go depth N over the pipe, large N", "position": "position " + pos, "N": n,
                                               "problem": ("info line is not valid UCI: %r" % bad[0]) if bad else
                                               "go depth %d did not report every depth 1..%d (missing %s, %d lines)" % (n, n, missing, len(depths)),
                                               "output_tail": out[-4:],
                                               "replay_cmd": "printf 'position %s\ngo depth %d\n' | (cat; sleep 20) | %s | tail -3" % (pos, n, C.ENGINE)})
                    violations.append({"replay": rp})
                    break
            finally:
                rc, t = eng.finish()
                if rc is None:
                    eng.kill()
    cov["deep_depth_only_runs"] = deep_runs
    # every PV of those long runs is played through the engine's own legal-move generator (driver `playable`; that generator is C01's)
    if deep_pv_lines:
        rc, so, se = C.driver(["playable"], "".join("%s | %s\n" % (f, " ".join(ms + pv)) for f, ms, pv, _, _, _ in deep_pv_lines), timeout=900)
        res = so.split()
        if rc != 0 or len(res) != len(deep_pv_lines):
            rp = C.write_replay(prop, {"broken": "PV replay of the long runs (driver `playable`)", "stderr": (se or "")[-500:]})
            violations.append({"replay": rp, "no_input": True})
        else:
            for (f, ms, pv, poscmd, n, l), r_ in zip(deep_pv_lines, res):
                if r_ != "-1":
                    rp = C.write_replay(prop, {"kind": "reported PV is not a sequence of legal moves (long run)", "position": poscmd, "N": n,
                                               "first_illegal_move_index": r_, "line": l[:400],
                                               "replay_cmd": "printf '%s\\ngo depth %d\\n' | (cat; sleep 20) | %s | grep 'depth %s '" % (poscmd, n, C.ENGINE, l.split()[2])})
                    violations.append({"replay": rp})
                    break
        cov["deep_run_pvs_replayed"] = len(deep_pv_lines)
    # game-like sequences in ONE process (the cache is kept between moves): play the engine's own best move, search again
    games = [("fen 6k1/1R3p2/6p1/2Bp3p/3P2q1/P7/1P2rQ1K/5R2 b - - 4 44", []), ("startpos", ["e2e4", "e7e5", "g1f3"]),
             ("fen r3k2r/p1ppqpb1/bn2pnp1/3PN3/1p2P3/2N2Q1p/PPPBBPPP/R3K2R w KQkq - 0 1", []),
             ("fen 8/2p5/3p4/KP5r/1R3p1k/8/4P1P1/8 w - - 0 1", [])]
    games += [("fen " + f, []) for f in P.bench_fens()[3:60:9]]
    plies = 30 if ctx["tier"] == "quick" else 80
    scripted = [("fen 6k1/1R3p2/6p1/2Bp3p/3P2q1/P7/1P2rQ1K/5R2 b - - 4 44", [([], 5), (["g4f4", "h2g2"], 2), (["g4f4", "h2g2"], 3)])]
    for pos, steps in scripted:
        fen = pos[4:]
        eng = uciproc.Engine()
        try:
            for ms, d in steps:
                poscmd = "position " + pos + (" moves " + " ".join(ms) if ms else "")
                eng.send(poscmd)
                before = len(eng.lines())
                eng.send("go depth %d" % d)
                idx = eng.wait_for(lambda l: l.startswith("bestmove"), 120, start=before)
                if idx is None:
                    break
                for l in eng.lines()[before:idx + 1]:
                    di = UG.parse_info(l) if l.startswith("info") else None
                    if di is not None and "pv" in di:
                        lines_checked += 1
                        pv = di["pv"]
                        pv_items.append("match from_fen %s with Some b0 => match play b0 [%s] with Some _ => true | None => false end | None => false end"
                                        % (B.coq_str(fen), "; ".join(B.coq_str(x) for x in ms + pv)))
                        pv_meta.append((poscmd, d, l))
        finally:
            rc, t = eng.finish()
            if rc is None:
                eng.kill()
    for pos, ms0 in games:
        fen = "rnbqkbnr/pppppppp/8/8/8/8/PPPPPPPP/RNBQKBNR w KQkq - 0 1" if pos == "startpos" else pos[4:]
        eng = uciproc.Engine()
        ms = list(ms0)
        try:
            for ply in range(plies):
                poscmd = "position " + pos + (" moves " + " ".join(ms) if ms else "")
                eng.send(poscmd)
                before = len(eng.lines())
                d = 2 + (ply % 3)
                eng.send("go depth %d" % d)
                idx = eng.wait_for(lambda l: l.startswith("bestmove"), 60, start=before)
                if idx is None:
                    break
                out = eng.lines()[before:idx + 1]
                bm0 = out[-1].split()
                if len(bm0) < 2 or bm0[1] in ("a1a1", "(none)"):
                    break      # the game is over (no legal move): outside the property
                for l in out:
                    if l.startswith("info"):
                        lines_checked += 1
                        di = UG.parse_info(l)
                        if di is None:
                            rp = C.write_replay(prop, {"kind": "self-play info line", "position": poscmd, "problem": "not valid UCI: %r" % l})
                            violations.append({"replay": rp})
                            continue
                        if "pv" not in di:
                            continue
                        pv = di["pv"]
                        pv_items.append("match from_fen %s with Some b0 => match play b0 [%s] with Some _ => true | None => false end | None => false end"
                                        % (B.coq_str(fen), "; ".join(B.coq_str(x) for x in ms + pv)))
                        pv_meta.append((poscmd, d, l))
                bm = out[-1].split()
                if len(bm) < 2 or bm[1] in ("a1a1", "(none)"):
                    break
                ms.append(bm[1])
        finally:
            rc, t = eng.finish()
            if rc is None:
                eng.kill()
    vals, lg = C.coq_eval_items("c14pv", B.HEADER, pv_items, lambda l: l, nshards=C.NPROC, timeout=900)
    if vals is None:
        rp = C.write_replay(prop, {"broken": "PV replay on the model", "log": lg[-2000:]})
        violations.append({"replay": rp, "no_input": True})
    else:
        for ok, meta in zip(vals, pv_meta):
            if ok is not True:
                rp = C.write_replay(prop, {"kind": "reported PV is not a sequence of legal moves", "position": meta[0],
                                           "N": meta[1], "line": meta[2]})
                violations.append({"replay": rp})
                break
    # exact text: the model of log_uci_info's formatting (model/InfoLine.v) must reproduce every real line character by character
    # (a correspondence: a line that is valid UCI but no longer has today's shape is reported as such, not as a failing input)
    raw = list(dict.fromkeys(meta[2] for meta in pv_meta))
    fitems = []
    fraw = []
    reshaped = []
    for l in raw:
        m = INFO_RE.match(l)
        if not m or m.group(6) is None:
            reshaped.append(l)
            continue
        d, sd, n, t = int(m.group(1)), int(m.group(2) or 0), int(m.group(3)), m.group(4)
        sc = m.group(6)
        pv = m.group(7).split()
        if sc.startswith("cp"):
            scq = "(Some (%s)%%Z)" % sc.split()[1]
        else:
            scq = "(Some (%s)%%Z)" % ("-32767" if sc.split()[1].startswith("-") else "32767")
        fitems.append("info_string %d %d %d%%N %s %s [%s]" % (d, sd, n, "(Some %s%%N)" % t if t else "None", scq,
                                                            "; ".join(B.coq_str(x) for x in pv)))
        fraw.append(l)
    fvals, flg = C.coq_eval_items("c14fmt", "From Coq Require Import NArith ZArith List String.\nImport ListNotations.\nFrom RCE Require Import model.InfoLine.\nOpen Scope string_scope.\n",
                                  fitems, lambda l: l, nshards=C.NPROC, timeout=900)
    if fvals is None:
        rp = C.write_replay(prop, {"broken": "info line text evaluation", "log": flg[-1500:]})
        violations.append({"replay": rp, "no_input": True})
    else:
        bad_txt = [(l, v) for l, v in zip(fraw, fvals) if v != l]
        if bad_txt or reshaped:
            rp = C.write_replay(prop, {"broken": "correspondence engine = model on the TEXT of info lines (model/InfoLine.v, for which C14_info_syntax proves "
                                                 "conformance to spec/UciSyntax.v): the real lines no longer have the modelled shape; they were still judged "
                                                 "against the UCI grammar (lib/ucigrammar.py), the depth order and PV legality by the other legs",
                                       "lines_not_of_the_modelled_shape": reshaped[:3],
                                       "lines_differing_from_the_model": [{"engine": l, "model": v} for l, v in bad_txt[:3]]})
            violations.append({"replay": rp, "no_input": True})
        cov["info_lines_text_compared"] = len(fraw)
    cov["pipe_info_lines_validated"] = lines_checked
    cov["pipe_pvs_replayed_on_model"] = len(pv_items)
    cov["evaluations"] = cov.get("evaluations", 0) + lines_checked
    cov["distinct_nontrivial"] = cov.get("distinct_nontrivial", 0) + lines_checked
    cov["rule"] = ("in-process: the structured output trace (depth sequence, seldepth, nodes, score kind/value, PV) of every "
                   "search of the correspondence vs the model's; over the pipe: `go depth N` for N=1..%d on 8 positions: every "
                   "info line matches the UCI grammar, depths are exactly 1..N, every PV replays as legal moves on the Coq model" % maxn)
    if pv_meta:
        cov["samples"].append({"line": pv_meta[-1][2]})
    return SP.finish(prop, gate, violations, cov)


replay = SP.replay
