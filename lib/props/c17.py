"""C17 — evaluation is colour-symmetric."""
import random
import common as C
import boardcorr as B
import positions as P

HEADER = B.HEADER


def mirror_fen(fen):
    f = fen.split()
    rows = f[0].split("/")
    rows = [r.swapcase() for r in reversed(rows)]
    turn = "b" if f[1] == "w" else "w"
    rights = "".join(sorted(f[2].swapcase(), key=lambda c: "KQkq-".index(c))) if f[2] != "-" else "-"
    ep = f[3]
    if ep != "-":
        ep = ep[0] + {"3": "6", "6": "3"}.get(ep[1], ep[1])
    return " ".join(["/".join(rows), turn, rights, ep] + f[4:])


def swap_fen(fen):
    f = fen.split()
    f[1] = "b" if f[1] == "w" else "w"
    f[3] = "-"          # an en passant square would no longer match the side to move
    return " ".join(f)


def random_material_fen(rng):
    """arbitrary placements, including absurd material (many queens): exercises the i16 wrap and
    saturation of the evaluator; kings optional on purpose"""
    cells = [None] * 64
    n = rng.choice([2, 5, 12, 24, 40, 64])
    heavy = rng.random() < 0.5
    for _ in range(n):
        sq = rng.randrange(64)
        pool = "QQQQRqqqqr" if heavy else "PNBRQKpnbrqk"
        cells[sq] = rng.choice(pool)
    rows = []
    for r in range(7, -1, -1):
        row, e = "", 0
        for fl in range(8):
            c = cells[r * 8 + fl]
            if c is None:
                e += 1
            else:
                if e:
                    row += str(e)
                    e = 0
                row += c
        if e:
            row += str(e)
        rows.append(row)
    return "%s %s - - 0 1" % ("/".join(rows), rng.choice("wb"))


def dec(p):
    return -p[1] if p[0] == 1 else p[1]


def run(ctx):
    tier, seed = ctx["tier"], ctx["seed"]
    rng = random.Random(seed + 170)
    prop = "C17"
    violations = []
    ok, blog, bt = C.build_engine()
    if not ok:
        rp = C.write_replay(prop, {"broken": "engine+driver build", "log": blog})
        return {"violations": [{"replay": rp, "no_input": True}],
                "coverage": {"obligations": 1, "discharged": 0, "evaluations": 0, "distinct_nontrivial": 0}}
    C.gen_consts()
    gate = C.proof_gate(prop, extra_targets=["model/CasesBoard.vo"])
    cov = {"obligations": gate["obligations"], "discharged": gate["discharged"], "theorems": gate["theorems"],
           "samples": []}
    base = P.corpus() + P.bench_fens() + [f for _, f in P.probe_families()[::7]]
    # every small material signature (nothing / N / B / R / Q / P and pairs, either side, both sides to move)
    base += [f for _, f in P.material_families(ctx["seed"] % 3, 2 if ctx["tier"] == "quick" else 8)]
    n_walk = 400 if tier == "quick" else 20000
    starts = [base[rng.randrange(len(base))] for _ in range(n_walk)]
    rc, so, se = C.driver(["randfens", str(seed), "50"], "\n".join(starts) + "\n")
    walk_fens = [l for l in so.splitlines() if l and l != "PANIC"]
    n_mat = 300 if tier == "quick" else 10000
    mat = [random_material_fen(rng) for _ in range(n_mat)]
    # key-collision and near-collision pairs first, one after the other in the one driver process: an evaluation cache keyed by
    # (part of) the position key answers the second with the first one's score, and its mirror — a different key — correctly
    pair_fens = [x for pr in P.collision_pairs(near=True) for x in pr]
    fens = list(dict.fromkeys(pair_fens + base + walk_fens + mat))
    # engine: eval(fen), eval(mirror), eval(swapped), bitboards of the mirror position
    allf = []
    for f in fens:
        allf += [f, mirror_fen(f), swap_fen(f)]
    rc, so, se = C.driver(["eval"], "\n".join(allf) + "\n")
    ev = so.splitlines()
    rc2, so2, se2 = C.driver(["fen"], "\n".join(mirror_fen(f) for f in fens) + "\n")
    import json
    mst = [json.loads(l) for l in so2.splitlines()]
    vals, lg = C.coq_eval_items("c17", HEADER, ["eval_case %s" % B.coq_str(f) for f in fens], lambda l: l,
                                nshards=C.NPROC, timeout=1500)
    if vals is None or len(ev) != len(allf) or len(mst) != len(fens):
        rp = C.write_replay(prop, {"broken": "evaluation correspondence", "log": lg[-3000:], "stderr": se[-500:]})
        violations.append({"replay": rp, "no_input": True})
        cov.update({"evaluations": 0, "distinct_nontrivial": 0})
    else:
        bad = 0
        bad_int = 0
        bounded = 0
        nontrivial = 0
        for i, f in enumerate(fens):
            v = B.norm(vals[i])
            if v is None:
                continue
            # Coq prints the nested pairs flattened: each score is a pair (sign, magnitude)
            t = v[1]
            m_eval, m_mir, m_swap, m_bounded, m_lt64, m_mbbs = (t[0], t[1]), t[2], t[3], t[4], t[5], t[6]
            e_eval, e_mir, e_swap = ev[3 * i], ev[3 * i + 1], ev[3 * i + 2]
            probs = []
            if e_eval == "PANIC" or int(e_eval) != dec(m_eval):
                probs.append(("engine eval != model evaluate", e_eval, dec(m_eval)))
            if e_mir == "PANIC" or int(e_mir) != dec(m_mir):
                probs.append(("engine eval(mirror FEN) != model evaluate(mirror_board)", e_mir, dec(m_mir)))
            if e_swap == "PANIC" or int(e_swap) != dec(m_swap):
                probs.append(("engine eval(other side to move) != model evaluate(swap_turn)", e_swap, dec(m_swap)))
            if isinstance(mst[i], list) and mst[i][0][3:18] != m_mbbs:
                probs.append(("bitboards of the mirror FEN != model mirror_bbs", mst[i][0][3:18], m_mbbs))
            # the property itself on the engine
            if e_eval != "PANIC" and e_mir != "PANIC" and int(e_eval) != int(e_mir):
                probs.append(("PROPERTY: eval(mirror) != eval", e_eval, e_mir))
            if m_bounded == 1:
                bounded += 1
                if e_eval != "PANIC" and e_swap != "PANIC" and int(e_swap) != -int(e_eval):
                    probs.append(("PROPERTY: eval(other side) != -eval", e_eval, e_swap))
            if e_eval not in ("0", "PANIC"):
                nontrivial += 1
            if probs:
                # the VALUE of the evaluation is not fixed by the property, only its two symmetries (judged on the engine alone: the
                # entries marked PROPERTY); engine = model on the value is the correspondence behind C17_mirror / C17_antisym
                is_prop = any(p_[0].startswith("PROPERTY") for p_ in probs)
                if is_prop:
                    bad += 1
                else:
                    bad_int += 1
                if (is_prop and bad <= 4) or (not is_prop and bad_int <= 2):
                    payload = {"kind": "evaluation", "fen": f, "mirror_fen": mirror_fen(f),
                               "swapped_fen": swap_fen(f), "problems": probs,
                               "replay_cmd": "printf '%s\\n' | %s verif eval" % (f, C.ENGINE)}
                    if not is_prop:
                        payload["broken"] = ("correspondence engine evaluation = model/Eval.v (the theorems of props/C17.v are about the model); both "
                                             "symmetries hold on the engine for this position")
                    rp = C.write_replay(prop, payload)
                    violations.append({"replay": rp, "no_input": not is_prop})
        cov["evaluations"] = len(allf)
        cov["distinct_nontrivial"] = nontrivial
        cov["positions"] = len(fens)
        cov["positions_with_bounded_material"] = bounded
        cov["input_distribution"] = {"corpus+bench+probes": len(base), "walk_positions": len(walk_fens),
                                     "random_material_incl_overflowing": len(mat)}
        cov["samples"].append({"fen": fens[-1], "engine": ev[-3:], "model": B.norm(vals[-1])[1][:6]})
    if not gate["ok"]:
        payload = {"broken": gate["failures"], "log": gate["log"][-3000:]}
        found = [v for v in violations if not v.get("no_input")]
        rp = C.write_replay(prop, payload)
        if not found:
            violations.append({"replay": rp, "no_input": True})
    cov["rule"] = ("corpus, bench and probe positions, positions after random legal walks, and random placements "
                   "with absurd material (up to 64 queens: i16 wrap/saturation paths); each is evaluated by the engine "
                   "as given, colour-mirrored and with the other side to move, and by the Coq model; non-trivial = "
                   "evaluation not 0")
    return {"violations": violations, "coverage": cov,
            "assumptions": ["release build: i16 multiplication wraps (the model writes the wrap)"]}


def replay(ctx, payload):
    C.build_engine()
    if "fen" in payload:
        fs = [payload["fen"], payload["mirror_fen"], payload["swapped_fen"]]
        rc, so, se = C.driver(["eval"], "\n".join(fs) + "\n")
        print(so)
    print(payload.get("problems"))
    return 1
