"""C15 — no input line can kill or wedge the engine; quit and end of input end it."""
import itertools
import random
import time
import common as C
import ucicorr as U
import uciproc
from props import searchprop as SP


def grammar_line(rng):
    """a valid command with arguments dropped, duplicated, reordered or replaced by junk"""
    nums = ["0", "1", "7", "300", "65536", "18446744073709551616", "-5", "+9", "1e3", "", "x"]
    base = rng.choice([
        ["go", "wtime", "1000", "btime", "1000", "winc", "10", "binc", "10", "movestogo", "40"],
        ["go", "depth", "3"], ["go", "nodes", "100", "depth", "2"], ["go", "movetime", "20"], ["go", "infinite"],
        ["go", "ponder", "searchmoves", "e2e4", "mate", "3"],
        ["position", "startpos", "moves", "e2e4", "e7e5"],
        ["position", "fen", "rnbqkbnr/pppppppp/8/8/8/8/PPPPPPPP/RNBQKBNR", "w", "KQkq", "-", "0", "1", "moves", "e2e4"],
        ["position", "fen", "8/8/8/8/8/8/8/K6k", "w", "-", "-"],
        ["setoption", "name", "Hash", "value", "16"], ["setoption", "name", "Move", "Overhead", "value", "10"],
        ["setoption", "name", "Threads"], ["isready"], ["uci"], ["ucinewgame"], ["stop"]])
    t = list(base)
    for _ in range(rng.randrange(0, 3)):
        op = rng.randrange(5)
        if not t:
            break
        i = rng.randrange(len(t))
        if op == 0:
            del t[i]
        elif op == 1:
            t.insert(i, t[i])
        elif op == 2:
            j = rng.randrange(len(t))
            t[i], t[j] = t[j], t[i]
        elif op == 3:
            t[i] = rng.choice(nums + U.VOCAB)
        else:
            t = t[:i]
    return " ".join(x for x in t if x != "")


def run(ctx):
    prop = "C15"
    gate, err = SP.prepare(prop, extra_targets=U.TARGETS)
    if err:
        return err
    violations, cov = [], {"samples": []}
    rng = random.Random(ctx["seed"] + 15)
    # ---- bounded-exhaustive token sequences (every sequence of length <= 3 over the vocabulary;
    # quick: length 3 restricted to the parsing commands as first token) + grammar stream
    lines = [""] + list(U.VOCAB)
    lines += [" ".join(p) for p in itertools.product(U.VOCAB, repeat=2)]
    heads = ["setoption", "position", "go"] if ctx["tier"] == "quick" else U.VOCAB
    lines += [" ".join((h,) + p) for h in heads for p in itertools.product(U.VOCAB, repeat=2)]
    exhaustive_n = len(lines)
    ngram = 3000 if ctx["tier"] == "quick" else 60000
    gl = [grammar_line(rng) for _ in range(ngram)]
    lines += gl
    lines += ["   go   depth\t2  ", "\tisready", "position fen 8/8/8/8/8/8/8/K6k w - - 0 1 moves", "go depth 3 depth",
              "setoption name value", "setoption value x name y", "setoption name a value", "go wtime"]
    lines = list(dict.fromkeys(lines))
    # FEN arguments are assumed valid by the property: keep only lines whose fen tokens are one of ours
    eng, mod, errmsg = U.parse_both(lines, "c15p")
    classes = {"ok": 0, "err": 0, "panic": 0}
    if eng is None:
        rp = C.write_replay(prop, {"broken": "parser correspondence", "log": errmsg[-2000:]})
        violations.append({"replay": rp, "no_input": True})
    else:
        nbad = 0
        divergent_lines = []
        for l, e, m in zip(lines, eng, mod):
            classes["panic" if e[0] == 1 else "err" if e[0] == 0 else "ok"] += 1
            if e[0] == 1:
                nbad += 1
                if nbad <= 3:
                    rp = C.write_replay(prop, {"kind": "the parser panics on this line (main thread dies)", "line": l,
                                               "replay_cmd": "printf '%s\\nisready\\n' | %s" % (l, C.ENGINE)})
                    violations.append({"replay": rp})
            elif e != m:
                nbad += 1
                if nbad <= 3:
                    # WHICH lines are accepted is not fixed by the property (a parser that learns a new command still satisfies it):
                    # a correspondence; liveness on this very line is judged over the pipe below
                    rp = C.write_replay(prop, {"kind": "parser result differs from the model", "line": l, "engine": e, "model": m,
                                               "broken": "correspondence engine parser = model/Uci.v parser (C15_parse_total and C15_step_total are about the "
                                                         "model); the engine did not panic on the line; liveness is judged on the real process by the session legs"})
                    violations.append({"replay": rp, "no_input": True})
                    divergent_lines.append(l)
        cov["parse_lines"] = len(lines)
        cov["parse_exhaustive_short_sequences"] = exhaustive_n
        cov["parse_classes"] = classes
    # ---- process level: random sessions; isready answered; quit and EOF end the process promptly
    nsess = 12 if ctx["tier"] == "quick" else 150
    sess_done = 0
    pool = [l for l in lines if "infinite" not in l and not l.startswith("quit") and " quit" not in l and l != "quit"]
    for k in range(nsess):
        n = rng.randrange(3, 40)
        script = [rng.choice(pool) for _ in range(n)]
        # keep FEN arguments valid: drop position-fen lines that are not the two known-good ones
        script = [l for l in script if not l.startswith("position fen") or l in (
            "position fen 8/8/8/8/8/8/8/K6k w - - 0 1 moves",)]
        mode = ["quit", "eof", "eof-mid"][k % 3]
        eng_p = uciproc.Engine()
        problem = None
        try:
            for l in script:
                eng_p.send(l)
            before = len(eng_p.lines())
            eng_p.send("stop")
            eng_p.send("isready")
            if eng_p.wait_for(lambda x: x == "readyok", 10, start=0 if before == 0 else before) is None:
                problem = "no readyok after the session (alive=%s)" % eng_p.alive()
            t0 = time.time()
            if mode == "quit":
                rc, dt = eng_p.finish(timeout=5)
                if rc is None:
                    problem = problem or "did not exit within 5 s after quit"
                elif rc != 0:
                    problem = problem or "exit status %s after quit" % rc
            else:
                eng_p.close_stdin()
                try:
                    rc = eng_p.p.wait(timeout=5)
                    if rc != 0:
                        problem = problem or "exit status %s after end of input" % rc
                except Exception:
                    problem = problem or "did not exit within 5 s after end of input"
                    eng_p.kill()
            panics = [x for x in eng_p.err_lines() if "panicked" in x]
            if panics:
                problem = problem or "panic on stderr: %s" % panics[0]
        finally:
            eng_p.kill()
        sess_done += 1
        if problem:
            rp = C.write_replay(prop, {"kind": "session over the pipe", "lines": script, "end": mode, "problem": problem})
            violations.append({"replay": rp})
            break
    # deterministic scenarios: end of input / quit while a search is running
    for script, end in ((["position startpos", "go infinite"], "eof"), (["position startpos", "go infinite"], "quit"),
                        (["position startpos", "go depth 40"], "eof"), (["go infinite", "stop"], "eof"),
                        (["go movetime 3000"], "eof")):
        eng_p = uciproc.Engine()
        problem = None
        try:
            for l in script:
                eng_p.send(l)
            time.sleep(0.3)
            if end == "quit":
                rc, dt = eng_p.finish(timeout=5)
                if rc is None:
                    problem = "did not exit within 5 s after quit during a search"
            else:
                eng_p.close_stdin()
                try:
                    rc = eng_p.p.wait(timeout=5)
                except Exception:
                    problem = "did not exit within 5 s after end of input during a search"
        finally:
            eng_p.kill()
        sess_done += 1
        if problem:
            rp = C.write_replay(prop, {"kind": "session over the pipe", "lines": script, "end": end, "problem": problem})
            violations.append({"replay": rp})
    # sessions that keep a search RUNNING while more commands arrive (go during a search is refused, stop ends it,
    # the next go waits for the old thread): whatever the order, the engine must still answer isready and obey quit
    busy_words = ["go infinite", "go depth 1", "go nodes 50", "go", "stop", "isready", "position startpos", "ucinewgame",
                  "position startpos moves e2e4", "go movetime 5", "xyzzy", "go depth", "setoption name Hash value 1"]
    fixed_busy = [["position startpos", "go infinite", "go depth 1", "go depth 1"],
                  ["go infinite", "go infinite", "stop", "go depth 1"],
                  ["go", "go", "go", "stop", "stop", "go nodes 50"],
                  ["go infinite", "position startpos moves e2e4", "go depth 1", "stop", "go depth 1", "go depth 1"]]
    nbusy = 10 if ctx["tier"] == "quick" else 120
    scripts = fixed_busy + [[rng.choice(busy_words) for _ in range(rng.randrange(3, 12))] for _ in range(nbusy)]
    for script in scripts:
        eng_p = uciproc.Engine()
        problem = None
        try:
            for l in script:
                eng_p.send(l)
            before = len(eng_p.lines())
            eng_p.send("isready")
            if eng_p.wait_for(lambda x: x == "readyok", 10, start=before) is None:
                problem = "no readyok within 10 s while/after searching (alive=%s)" % eng_p.alive()
            else:
                eng_p.send("stop")
                b2 = len(eng_p.lines())
                eng_p.send("isready")
                if eng_p.wait_for(lambda x: x == "readyok", 10, start=b2) is None:
                    problem = "no readyok within 10 s after stop (alive=%s)" % eng_p.alive()
            rc, dt = eng_p.finish(timeout=5)
            if rc is None:
                problem = problem or "did not exit within 5 s after quit"
            elif rc != 0:
                problem = problem or "exit status %s after quit" % rc
            panics = [x for x in eng_p.err_lines() if "panicked" in x]
            if panics:
                problem = problem or "panic on stderr: %s" % panics[0]
        finally:
            eng_p.kill()
        sess_done += 1
        if problem:
            rp = C.write_replay(prop, {"kind": "session over the pipe with a search kept running", "lines": script + ["isready", "stop", "isready"],
                                       "end": "quit", "problem": problem})
            violations.append({"replay": rp})
            break
    cov["busy_sessions"] = len(scripts)
    # ---- lines as BYTES: not valid UTF-8 (stray continuation bytes, truncated and overlong sequences, Latin-1 text, NUL bytes), and valid
    # multi-byte UTF-8 in long tokens at every alignment (a diagnostic that slices a token at a fixed byte offset cuts a character in two:
    # seeded change r7C15) — as a command, as a move, as a FEN-less position argument, as a number, as an option name.  After every line:
    # readyok; at the end: quit, exit status 0.
    byte_lines = [b"\xff\xfe junk", b"go depth \xc3", b"\x80\x80\x80", b"position startpos moves e2e4 \xe2\x99", b"caf\xe9", b"isready\xff",
                  b"\xc0\xaf", b"\xf8\x88\x80\x80\x80", b"go\x00depth\x001", b"\x00", b"setoption name \xfe value \xff", b"\xed\xa0\x80"]
    for pre in range(0, 4):
        for ch in ("\u00e9", "\u265e", "\U0001d11e"):
            for cnt in (39, 40, 61, 200):
                tok = ("x" * pre + ch * cnt).encode("utf-8")
                byte_lines += [tok, b"position startpos moves " + tok, b"position " + tok, b"go depth " + tok, b"setoption name " + tok + b" value " + tok]
    if ctx["tier"] == "quick":
        byte_lines = byte_lines[:12] + byte_lines[12 + ctx["seed"] % 3::3]
    eng_b = uciproc.Engine()
    culprit = None
    try:
        for raw in byte_lines:
            eng_b.send_bytes(raw)
            b0 = len(eng_b.lines())
            eng_b.send("isready")
            if eng_b.wait_for(lambda x: x == "readyok", 5, start=b0) is None:
                culprit = raw
                break
        if culprit is None:
            rc_b, _ = eng_b.finish(timeout=5)
            if rc_b != 0:
                culprit = b"(exit status %s after quit)" % str(rc_b).encode()
    finally:
        eng_b.kill()
    cov["byte_level_lines"] = len(byte_lines)
    if culprit is not None:
        shown = "".join(chr(c) if 32 <= c < 127 and c != 92 else "\\x%02x" % c for c in culprit)
        rp = C.write_replay(prop, {"kind": "a line of bytes kills or wedges the engine (no readyok afterwards)", "line_bytes_escaped": shown[:400],
                                   "panic": [x for x in eng_b.err_lines() if "panicked" in x][:1],
                                   "replay_cmd": "printf '%s\\nisready\\n' | (cat; sleep 1) | %s" % (shown[:400], C.ENGINE)})
        violations.append({"replay": rp})
    # ---- every kind of move token after `position fen F moves`: all 4096 from-to strings, the suffixed and mis-suffixed
    # promotion strings, truncated / over-long / decorated forms, on positions where a promotion, a castle, an en-passant
    # capture or a check evasion is available: the engine must survive every one of them (readyok after each block)
    mv_positions = ["8/P6k/8/8/8/8/8/K7 w - - 0 1", "1n5k/P7/8/8/8/8/8/K7 w - - 0 1", "k7/8/8/8/8/8/p6K/1N6 b - - 0 1",
                    "r3k2r/8/8/8/8/8/8/R3K2R w KQkq - 0 1", "4k3/8/8/3pP3/8/8/8/4K3 w - d6 0 2", "4k3/8/8/8/8/8/4r3/4K3 w - - 0 1"]
    sqs = [f + r for r in "12345678" for f in "abcdefgh"]
    toks = [a + b for a in sqs for b in sqs]
    promo = [a + b for a in sqs if a[1] in "27" for b in sqs if b[1] in "18" and abs(ord(a[0]) - ord(b[0])) <= 1]
    toks += [t + x for t in promo for x in "qrbnkpQx1"]
    toks += ["", "a", "a7", "a7a", "a7a8qq", "a7a8=Q", "a7-a8", "O-O", "0-0", "0000", "e1g1k", "e1h1", "A7A8", "a7a8 q", "a9a8", "i7a8", "a7a8\x00"]
    if ctx["tier"] == "quick":
        toks = [t for i, t in enumerate(toks) if len(t) != 4 or i % 4 == ctx["seed"] % 4 or t in promo]
    token_lines = 0
    for fen in mv_positions:
        eng_p = uciproc.Engine()
        culprit = None
        try:
            block = 400
            for i in range(0, len(toks), block):
                chunk = toks[i:i + block]
                for t in chunk:
                    eng_p.send("position fen %s moves %s" % (fen, t))
                token_lines += len(chunk)
                b0 = len(eng_p.lines())
                eng_p.send("isready")
                if eng_p.wait_for(lambda x: x == "readyok", 20, start=b0) is None:
                    # find the token: replay the block one token per fresh process
                    for t in chunk:
                        e2 = uciproc.Engine()
                        try:
                            e2.send("position fen %s moves %s" % (fen, t))
                            e2.send("isready")
                            if e2.wait_for(lambda x: x == "readyok", 5) is None:
                                culprit = t
                                break
                        finally:
                            e2.kill()
                    culprit = culprit or "(one of %d tokens in a block; not reproduced singly)" % len(chunk)
                    break
        finally:
            eng_p.kill()
        if culprit is not None:
            rp = C.write_replay(prop, {"kind": "a move token after `position fen ... moves` kills or wedges the engine", "fen": fen, "token": culprit,
                                       "replay_cmd": "printf 'position fen %s moves %s\\nisready\\n' | (cat; sleep 1) | %s" % (fen, culprit, C.ENGINE)})
            violations.append({"replay": rp})
            break
    cov["move_token_lines"] = token_lines
    cov["pipe_sessions"] = sess_done
    cov["evaluations"] = len(lines) + sess_done
    cov["distinct_nontrivial"] = len(lines) - 1
    cov["rule"] = ("every token sequence of length <= 2 over a 33-word UCI vocabulary (incl. junk, out-of-range and signed "
                   "numbers) and every length-3 sequence starting with a parsing command (quick) / any word (thorough), plus a "
                   "grammar stream (valid commands with arguments dropped, duplicated, swapped, replaced): engine parser result vs "
                   "model, no panic; random sessions over the pipe ended by quit / closed stdin: readyok, exit status 0, exit within 5 s; "
                   "sessions that keep a search running while go / stop / position / junk keep arriving: readyok during and after, quit obeyed; "
                   "every from-to string and every (mis)suffixed promotion string as the move of a `position` command on promotion / castling / "
                   "en-passant / in-check positions: readyok after every block")
    cov["samples"].append({"line": lines[-3], "engine": eng[-3] if eng else None})
    return SP.finish(prop, gate, violations, cov)


def replay(ctx, payload):
    C.build_engine()
    if "line" in payload:
        rc, so, se = C.driver(["parse"], payload["line"] + "\n")
        print(so)
    print(payload)
    return 1
