"""C08 — the UCI position command sets up exactly the described game, or nothing."""
import json
import os
import random
import common as C
import boardcorr as B
import ucicorr as U
import positions as P
import uciproc
from props import searchprop as SP
from props import boardprop

START = "rnbqkbnr/pppppppp/8/8/8/8/PPPPPPPP/RNBQKBNR w KQkq - 0 1"


def corrupt(ms, rng):
    ms = list(ms)
    if not ms:
        return ms + ["e2e5"]
    i = rng.randrange(len(ms))
    kind = rng.randrange(6)
    m = ms[i]
    if kind == 0:
        ms[i] = m[2:4] + m[0:2]                 # reversed
    elif kind == 1:
        ms[i] = m[:4] + ("q" if len(m) == 4 else "")   # promotion suffix added / dropped
    elif kind == 2:
        ms[i] = rng.choice("abcdefgh") + rng.choice("12345678") + rng.choice("abcdefgh") + rng.choice("12345678")
    elif kind == 3:
        ms[i] = m.upper()
    elif kind == 4:
        ms[i] = m[:4] + "k"
    else:
        ms[i] = "0000"
    return ms


def run(ctx):
    prop = "C08"
    gate, err = SP.prepare(prop, extra_targets=U.TARGETS)
    if err:
        return err
    violations, cov = [], {"samples": []}
    rng = random.Random(ctx["seed"] + 8)
    # games chosen by the engine's own generator from varied starts
    n = 60 if ctx["tier"] == "quick" else 2000
    pool = [START] * 3 + P.corpus()[:17] + P.bench_fens()[:10]
    starts = [pool[rng.randrange(len(pool))] for _ in range(n)]
    rc, so, se = C.driver(["randwalk", str(ctx["seed"] + 8), "30"], "\n".join(starts) + "\n")
    games = []
    for line in so.splitlines():
        fen, _, ms = line.partition("|")
        if ms.strip() != "PANIC":
            games.append((fen.strip(), ms.split()))
    # the committed regression games (repetitions, all special moves, a king capturing a home rook and walking away, ...)
    reg = []
    for line in open(os.path.join(C.VERIF, "corpus", "games.txt")):
        line = line.strip()
        if line and not line.startswith("#"):
            f, _, m = line.partition("|")
            reg.append((f.strip(), m.split()))
    games = reg + games
    sessions = []
    for gi, (fen, ms) in enumerate(games):
        use_startpos = (fen == START and rng.random() < 0.7)

        def poscmd(f, moves, use_startpos=use_startpos):
            head = "position startpos" if (f == START and use_startpos) else "position fen " + f
            return head + (" moves " + " ".join(moves) if moves else "")
        lines = []
        kind = gi % 9 if gi >= len(reg) else 0
        k = max(1, len(ms) // 2)
        if kind == 0:
            lines = [poscmd(fen, ms)]
        elif kind == 1:      # a refused command must leave the previous position in force
            other = games[(gi + 1) % len(games)]
            lines = [poscmd(other[0], other[1], other[0] == START), poscmd(fen, corrupt(ms, rng))]
        elif kind == 2:      # independence of earlier commands
            other = games[(gi + 7) % len(games)]
            lines = [poscmd(other[0], other[1], other[0] == START), "ucinewgame", poscmd(fen, ms[:k]), poscmd(fen, ms)]
        elif kind == 3:
            lines = [poscmd(fen, corrupt(ms, rng)), "isready", poscmd(fen, ms), poscmd(fen, corrupt(ms, rng))]
        elif kind == 4:      # the same game extended after ucinewgame (as a GUI replaying a game does)
            lines = [poscmd(fen, ms[:k]), "ucinewgame", poscmd(fen, ms)]
        elif kind == 5:      # extended move by move, then a new game from the same start
            lines = [poscmd(fen, ms[:k]), poscmd(fen, ms), "ucinewgame", poscmd(fen, ms[:1]), poscmd(fen, ms[:k] + ms[k:k + 1])]
        elif kind == 6:      # an EXTENSION of the game on the board that goes wrong after some legal new moves is refused as a whole; the
            # right extension sent afterwards must be accepted from the position that stayed in force (seeded change r6C08: an
            # incremental `position` that rolls the board back but keeps its own record of the moves played)
            bad = rng.choice(["0000", ms[k][2:4] + ms[k][0:2] if k < len(ms) else "a1a1", "a1a1"])
            lines = [poscmd(fen, ms[:k]), poscmd(fen, ms[:k + 2] + [bad]), poscmd(fen, ms[:k + 2])]
        elif kind == 8:      # the same placement / side / rights / en-passant square given with OTHER counters, and the same moves
            # extended: everything written in the second FEN counts (seeded change r7C07: an incremental `position` that recognises "the
            # same game" by the position key, which does not cover the counters)
            ff = fen.split()
            f1 = " ".join(ff[:4] + ["1", "5"])
            f2 = " ".join(ff[:4] + [rng.choice(["37", "99", "0"]), rng.choice(["60", "1", "200"])])
            # (the session ENDS on the other counters: only the final state is dumped)
            lines = [poscmd(f1, ms[:k], False), poscmd(f2, ms[:k + 1], False)] + ([poscmd(f2, ms[:k + 2], False)] if rng.random() < 0.5 else [])
        else:                # the same, then the game shrinks again and is extended differently
            bad = rng.choice(["0000", "h9h8", "e1e9"])
            lines = [poscmd(fen, ms[:k]), poscmd(fen, ms[:k + 1] + [bad] + ms[k + 1:k + 2]), poscmd(fen, ms[:k + 3]), poscmd(fen, ms[:k + 1]),
                     poscmd(fen, ms[:k + 1] + ms[k + 1:k + 2] + [bad]), poscmd(fen, ms)]
        sessions.append(lines)
    # every proper prefix of a session that ends in a position command is a session too: the state after EVERY command is compared,
    # not only the last one (a wrong intermediate state can be repaired by the next command)
    seen_s = set(tuple(x) for x in sessions)
    for lines in list(sessions):
        for i in range(1, len(lines)):
            pre = lines[:i]
            if pre[-1].startswith("position") and tuple(pre) not in seen_s:
                seen_s.add(tuple(pre))
                sessions.append(pre)
    # engine over the pipe
    eng_states = []
    for lines in sessions:
        e = uciproc.Engine()
        try:
            for l in lines:
                e.send(l)
            e.send("verifdump")
            idx = e.wait_for(lambda x: x.startswith("verifdump "), 20)
            eng_states.append(json.loads(e.lines()[idx][10:]) if idx is not None else None)
        finally:
            rc2, t = e.finish()
            if rc2 is None:
                e.kill()
    items = ["session_case [%s]" % "; ".join(B.coq_str(l) for l in lines) for lines in sessions]
    vals, lg = C.coq_eval_items("c08s", U.HEADER, items, lambda l: l, nshards=C.NPROC * 2, timeout=2400)
    accepted = refused = 0
    if vals is None:
        rp = C.write_replay(prop, {"broken": "session correspondence (model evaluation)", "log": lg[-2000:]})
        violations.append({"replay": rp, "no_input": True})
    else:
        nbad = 0
        nint = 0
        for lines, es, mv in zip(sessions, eng_states, vals):
            mv = B.norm(mv)
            end, mstate, nready = mv[0], mv[1], mv[2]
            if es is None:
                problem = "engine did not answer verifdump (crashed?)"
            else:
                problem, internal_only = boardprop.state_diff(es, mstate)
                if problem is None and internal_only:
                    nint += 1
                    if nint <= 2:
                        rp = C.write_replay(prop, {"kind": "position command", "session": lines, "problem": internal_only,
                                                   "broken": "correspondence engine session state = model of the command loop on an observable the rules do not fix "
                                                             "(the position itself — placement, side, rights, en-passant file, counters, earlier positions — agrees)"})
                        violations.append({"replay": rp, "no_input": True})
            if problem:
                nbad += 1
                if nbad <= 3:
                    rp = C.write_replay(prop, {"kind": "position command", "session": lines, "problem": problem,
                                               "replay_cmd": "printf '%s\\nverifdump\\n' | (cat; sleep 1) | %s" % ("\\n".join(lines), C.ENGINE)})
                    violations.append({"replay": rp})
        cov["sessions"] = len(sessions)
    # ---- every coordinate string: accepted exactly when it is the notation of a legal move ----
    acc_fens = (P.corpus() + P.bench_fens())[:40 if ctx["tier"] == "quick" else 200]
    acc_fens = acc_fens + [f for f, _ in reg]
    sq = [f + r for r in "12345678" for f in "abcdefgh"]
    strings = [a + b for a in sq for b in sq] + [a + b + x for a in sq if a[1] in "27" for b in sq if b[1] in "18" and abs(ord(a[0]) - ord(b[0])) <= 1 for x in "qrbnk"]
    rc, so, se = C.driver(["accepts"], "".join("%s | %s\n" % (f, " ".join(strings)) for f in acc_fens), timeout=900)
    eng_acc = [set(l.split()) for l in so.splitlines()]
    vals2, lg2 = C.coq_eval_items("c08a", U.HEADER, ["match from_fen %s with Some b => map to_notation (get_legal_moves b) | None => [] end" % B.coq_str(f) for f in acc_fens],
                                  lambda l: l, nshards=C.NPROC, timeout=1500)
    if vals2 is None or len(eng_acc) != len(acc_fens):
        rp = C.write_replay(prop, {"broken": "move-string acceptance", "log": lg2[-1500:], "stderr": se[-300:]})
        violations.append({"replay": rp, "no_input": True})
    else:
        nb2 = 0
        for f, ea, mv in zip(acc_fens, eng_acc, vals2):
            ma = set(mv) & set(strings)
            ea = ea - {"-"}
            if ea != ma:
                nb2 += 1
                if nb2 <= 3:
                    rp = C.write_replay(prop, {"kind": "move strings accepted by find_move differ from the legal moves", "fen": f,
                                               "accepted_but_not_legal": sorted(ea - ma)[:10], "legal_but_refused": sorted(ma - ea)[:10]})
                    violations.append({"replay": rp})
        cov["acceptance_positions"] = len(acc_fens)
        cov["acceptance_strings_per_position"] = len(strings)
    cov["evaluations"] = len(sessions) + len(acc_fens) * len(strings)
    cov["distinct_nontrivial"] = len(set(tuple(s) for s in sessions))
    cov["games"] = len(games)
    cov["rule"] = ("legal games chosen by the engine's generator from the start position, corpus and bench positions, given as "
                   "`position startpos|fen ... moves ...`; single-move corruptions (reversed, suffix added/dropped, random squares, "
                   "upper case, bad suffix, null move); sessions mixing accepted and refused commands and ucinewgame; the engine's "
                   "final session position (guarded verifdump command, full state) vs the Coq model of the command loop; the committed regression "
                   "games (repetitions, every special move, a king capturing a home-corner rook and walking away) are played as sessions too")
    cov["samples"].append({"session": sessions[1] if len(sessions) > 1 else None})
    return SP.finish(prop, gate, violations, cov)


def replay(ctx, payload):
    print(json.dumps(payload, indent=1)[:3000])
    return 1
