"""C06 — attack tables exact for every square and every occupancy."""
import random
import time
import common as C

HEADER = ("From Coq Require Import NArith ZArith List.\nImport ListNotations.\n"
          "From RCE Require Import lib.Bits lib.Geometry generated.Consts model.Tables "
          "proofs.TablesProofs model.CasesTables.\nOpen Scope N_scope.\n")


def opt(a):
    return "None" if a is None else "Some %d" % a


def run(ctx):
    tier, seed = ctx["tier"], ctx["seed"]
    rng = random.Random(seed)
    violations = []
    cov = {"samples": []}
    ok, blog, bt = C.build_engine()
    if not ok:
        rp = C.write_replay("C06", {"broken": "engine+driver build from /repo working tree",
                                    "log": blog})
        return {"violations": [{"replay": rp, "no_input": True}],
                "coverage": {"obligations": 1, "discharged": 0, "evaluations": 0,
                             "distinct_nontrivial": 0, "explanation": "engine does not build"}}
    d, err = C.gen_consts()
    if d is None:
        rp = C.write_replay("C06", {"broken": "consts dump", "log": err})
        return {"violations": [{"replay": rp, "no_input": True}],
                "coverage": {"obligations": 1, "discharged": 0, "evaluations": 0,
                             "distinct_nontrivial": 0, "explanation": err}}
    gate = C.proof_gate("C06", extra_targets=["model/CasesTables.vo"])
    cov["obligations"] = gate["obligations"]
    cov["discharged"] = gate["discharged"]
    cov["theorems"] = gate["theorems"]
    cov["proof_gate_s"] = round(gate.get("wall_s", 0), 1)

    # --- exhaustive correspondence: every (square, subset of mask) lookup of the real engine
    evaluations = 0
    nontrivial = 0
    rc, so, se = C.driver(["sliders"], timeout=600)
    lookups = {"R": [], "B": []}
    if rc != 0:
        rp = C.write_replay("C06", {"broken": "driver sliders", "rc": rc, "stderr": se[-2000:]})
        violations.append({"replay": rp, "no_input": True})
    for line in so.splitlines():
        f = line.split()
        a = None if f[3] == "PANIC" else int(f[3])
        lookups[f[0]].append((int(f[1]), int(f[2]), a))
    bad_inputs = []
    exhaustive = False
    # the model must exist for the comparison; if CasesTables did not build the gate failed
    have_model = gate["ok"] or "model/CasesTables.v" not in " ".join(gate.get("failed_files", []))
    for piece, dirs in (("R", "rook_dirs"), ("B", "bishop_dirs")):
        items = ["(%d%%nat, %d, %s)" % (s, o, opt(a)) for (s, o, a) in lookups[piece]]
        evaluations += len(items)
        nontrivial += sum(1 for (_, o, _) in lookups[piece] if o != 0)
        nsh = 16
        shards = [items[i::nsh] for i in range(nsh)]
        terms = ["bad_lookups %s [%s]" % (dirs, ";\n".join(sh)) for sh in shards if sh]
        vals, lg = C.coq_eval_terms("c06_" + piece, HEADER, terms, timeout=1500)
        if vals is None:
            rp = C.write_replay("C06", {"broken": "exhaustive lookup correspondence (Coq evaluation)",
                                        "log": lg[-3000:]})
            violations.append({"replay": rp, "no_input": True})
        else:
            for v in vals:
                for (s, o) in v:
                    bad_inputs.append((piece, s, o))
    expected = 102400 + 5248
    exhaustive = (len(lookups["R"]) + len(lookups["B"]) == expected)
    cov["exhaustive_lookups"] = len(lookups["R"]) + len(lookups["B"])
    if not exhaustive:
        # the relevance masks changed size: the enumeration is still complete for the dumped masks,
        # but record it
        cov["note_masks"] = "number of (square, subset) pairs differs from 107648"
    for (piece, s, o) in bad_inputs[:5]:
        got = [a for (s2, o2, a) in lookups[piece] if s2 == s and o2 == o][0]
        rp = C.write_replay("C06", {"kind": "slider lookup differs from the sliding-ray attack set",
                                    "piece": piece, "square": s, "occupancy": o, "engine": got,
                                    "replay_cmd": "printf '%d %d\\n' | %s verif occ" % (s, o, C.ENGINE)})
        violations.append({"replay": rp})

    # --- dumped leaper / ray / mask tables against the geometric spec
    vals, lg = C.coq_eval_terms("c06_tb", HEADER, ["tables_bad"], timeout=600)
    if vals is None:
        rp = C.write_replay("C06", {"broken": "table agreement evaluation", "log": lg[-3000:]})
        violations.append({"replay": rp, "no_input": True})
    else:
        names = {1: "knight", 2: "king", 3: "white pawn", 4: "black pawn", 5: "rook mask",
                 6: "bishop mask"}
        for (tag, s) in vals[0][:5]:
            nm = names.get(tag, "ray dir %d" % (tag - 10))
            rp = C.write_replay("C06", {"kind": "table entry differs from geometry", "table": nm,
                                        "square": s})
            # masks and rays are internal (every lookup built from them was compared with the sliding spec above): a correspondence;
            # a wrong leaper entry is directly a wrong attack set
            violations.append({"replay": rp, "no_input": tag >= 5})
        evaluations += 64 * 14

    # --- random full-board occupancies (structure: only blockers & mask matters) + slow routine
    n_occ = 3000 if tier == "quick" else 200000
    cases = []
    for i in range(n_occ):
        s = rng.randrange(64)
        dens = rng.choice([0.05, 0.15, 0.3, 0.5, 0.8])
        occ = 0
        for b in range(64):
            if rng.random() < dens:
                occ |= 1 << b
        cases.append((s, occ))
    rc, so, se = C.driver(["occ"], "".join("%d %d\n" % c for c in cases), timeout=600)
    impl = [l.split() for l in so.splitlines()]
    items = ["(%d%%nat, %d)" % c for c in cases]
    vals, lg = C.coq_eval_items("c06_occ", HEADER, items, lambda l: "map occ_case %s" % l,
                                timeout=1500)
    if vals is None or len(impl) != len(cases):
        rp = C.write_replay("C06", {"broken": "random occupancy correspondence", "log": lg[-3000:]})
        violations.append({"replay": rp, "no_input": True})
    else:
        nbad = 0
        for (s, occ), im, mv in zip(cases, impl, vals):
            evaluations += 1
            nontrivial += 1
            if im[2] == "PANIC" or [int(x) for x in im[2:7]] != mv:
                nbad += 1
                if nbad <= 3:
                    which = "lookup" if im[2] == "PANIC" or [int(x) for x in im[2:5]] != mv[:3] else "get_attacks_slow"
                    rp = C.write_replay("C06", {"kind": "random occupancy: engine differs from model",
                                                "part": which, "square": s, "occupancy": occ,
                                                "engine": im[2:], "model": mv})
                    # get_attacks_slow only feeds the table; its drift alone is not a violation
                    if which == "lookup":
                        violations.append({"replay": rp})
                    else:
                        cov.setdefault("model_drift", []).append(rp)
        cov["samples"].append({"square": cases[0][0], "occupancy": cases[0][1], "engine": impl[0][2:],
                               "model": vals[0]})
    # --- a few lookups through the mirrored magic table itself
    mc = cases[:32]
    vals, lg = C.coq_eval_items("c06_mag", HEADER, ["(%d%%nat, %d)" % c for c in mc],
                                lambda l: "map magic_case %s" % l, timeout=900)
    if vals is not None and len(impl) == len(cases):
        for (s, occ), im, mv in zip(mc, impl, vals):
            evaluations += 1
            want = [("Some", int(x)) for x in im[2:5]] if im[2] != "PANIC" else None
            if want != mv:
                rp = C.write_replay("C06", {"kind": "mirrored magic lookup differs from engine",
                                            "square": s, "occupancy": occ, "engine": im[2:5],
                                            "model": str(mv),
                                            "broken": "correspondence engine lookup = the model's magic-table lookup (model/Tables.v); the engine's answer itself "
                                                      "was compared with the sliding-ray attack set by the legs above"})
                violations.append({"replay": rp, "no_input": True})

    # --- the proof gate itself
    if not gate["ok"]:
        found = [v for v in violations if not v.get("no_input")]
        payload = {"broken": gate["failures"], "log": gate["log"][-3000:]}
        if not found:
            # look for a witness in the model's own sweep
            vals, lg = C.coq_eval_terms("c06_fb", HEADER, ["(first_bad_rook, first_bad_bishop)"],
                                        timeout=900)
            payload["model_first_bad"] = str(vals)
            rp = C.write_replay("C06", payload)
            violations.append({"replay": rp, "no_input": True})
        else:
            payload["witnesses"] = [v["replay"] for v in found]
            C.write_replay("C06", payload)
    cov["evaluations"] = evaluations
    cov["distinct_nontrivial"] = nontrivial
    cov["exhaustive"] = exhaustive
    cov["rule"] = ("every (square, subset of relevance mask) lookup of the real engine (107648, complete) "
                   "compared with the sliding-ray attack set evaluated in Coq; dumped leaper/ray/mask tables "
                   "(64 x 14) against geometry; random full-board occupancies (5 densities) for lookup, queen "
                   "and get_attacks_slow; non-trivial = occupancy not empty")
    cov["samples"].append({"exhaustive_entry": list(lookups["R"][12345]) if len(lookups["R"]) > 12345 else None})
    cov["samples"].append({"theorem": "C06_rook: forall s<64, forall occ:N, rook_get_attacks s occ = Some (set_of (slider_attacks rook_dirs s (tb occ)))"})
    return {"violations": violations, "coverage": cov,
            "assumptions": ["occupancy and squares are u64/0..63 as in the Rust types",
                            "OnceLock lazily-built tables are modelled as eagerly built values"]}


def replay(ctx, payload):
    ok, blog, bt = C.build_engine()
    if "square" in payload and "occupancy" in payload:
        rc, so, se = C.driver(["occ"], "%d %d\n" % (payload["square"], payload["occupancy"]))
        print("engine:", so.strip())
        vals, lg = C.coq_eval_items("c06_rp", HEADER, ["(%d%%nat, %d)" % (payload["square"], payload["occupancy"])],
                                    lambda l: "map occ_case %s" % l)
        print("model :", vals)
        return 0 if vals and so.split()[2:7] == [str(x) for x in vals[0]] else 1
    print(payload)
    return 1
