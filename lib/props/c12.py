"""C12 — with caching on, short forced mates are found and avoidable ones avoided (PARTIAL)."""
import os
import common as C
import boardcorr as B
import searchcorr as S
from props import searchprop as SP

SEQS = [["d3"], ["d4", "d3"], ["d2", "d4", "d3"], ["d3", "d3"], ["d1", "d2", "d4", "d3"], ["d4"]]


def run(ctx):
    prop = "C12"
    gate, err = SP.prepare(prop)
    if err:
        return err
    violations, cov = [], {"samples": []}
    fens = [l.strip() for l in open(os.path.join(C.VERIF, "corpus", "mate_fens.txt")) if l.strip() and not l.startswith("#")]
    def npieces(f):
        return sum(ch.isalpha() for ch in f.split()[0])
    cases = []
    for f in fens:
        if ctx["tier"] == "quick":
            two_heavy = sum(ch in "QRqr" for ch in f.split()[0]) >= 2      # the Coq evaluation of depth 4 is too slow there
            seqs = [["d3"], ["d2", "d3"], ["d3", "d3"]] + ([["d4", "d3"]] if npieces(f) <= 4 and not two_heavy else [])
            if two_heavy and npieces(f) <= 4:
                seqs = [["d3"]]
        else:
            seqs = SEQS if npieces(f) <= 6 else SEQS[:4]
        for sq in seqs:
            cases.append({"group": "mate", "fen": f, "moves": [], "specs": sq})
    seqs = SEQS
    import time as _t
    _t0 = _t.time()
    timing = {}
    eng = S.run_engine(cases)
    mod, lg = S.run_model(cases, timeout=2400)
    timing["model_on_corpus_s"] = round(_t.time() - _t0, 1); _t0 = _t.time()
    if mod is None:
        rp = C.write_replay(prop, {"broken": "search correspondence on mate positions (model evaluation)", "log": lg[-2000:]})
        violations.append({"replay": rp, "no_input": True})
    else:
        nb = 0
        for c, e, m in zip(cases, eng, mod):
            for dv in S.compare_case(c, e, m):
                if dv["field"] in ("best_move", "score", "engine-panic", "bestmove-line", "writes", "nodes"):
                    nb += 1
                    if nb <= 3:
                        # a correspondence (the theorems are about the model); whether the property fails is for the mate oracle below
                        rp = C.write_replay(prop, {"kind": "cache-on search on a mate position differs from the model", "divergence": dv, "case": c,
                                                   "broken": "correspondence engine = model on `%s` for cache-on searches of mate positions; the three mate "
                                                             "clauses are judged on the engine by the mate oracle legs of this check" % dv["field"]})
                        violations.append({"replay": rp, "no_input": dv["field"] != "engine-panic"})
    # mate oracle evaluated on the model
    items = ["mate_facts %s []" % B.coq_str(f) for f in fens]
    vals, lg = C.coq_eval_items("c12o", S.HEADER, items, lambda l: l, nshards=C.NPROC, timeout=1500)
    timing["mate_facts_coq_s"] = round(_t.time() - _t0, 1); _t0 = _t.time()
    stats = {"mate_in_one_positions": 0, "mate_in_two_positions": 0, "avoidable_threat_positions": 0, "searches_judged": 0,
             "keeps_mate_queries": 0}
    if vals is None:
        rp = C.write_replay(prop, {"broken": "mate oracle evaluation", "log": lg[-2000:]})
        violations.append({"replay": rp, "no_input": True})
    else:
        facts = {}
        for f, v in zip(fens, vals):
            v = B.norm(v)
            if v is None:
                continue
            mating, win2, per = v[1]
            facts[f] = (set(mating), win2 == 1, {p[0]: (p[1] == 1) for p in per})
            stats["mate_in_one_positions"] += bool(mating)
            stats["mate_in_two_positions"] += (win2 == 1 and not mating)
            stats["avoidable_threat_positions"] += (any(facts[f][2].values()) and not all(facts[f][2].values()))
        # clause 2 is judged only for the moves the engine actually chose
        need = sorted(set((c["fen"], S.notation(r["best"])) for c, e in zip(cases, eng) for spec, r in zip(c["specs"], e["results"])
                          if c["fen"] in facts and facts[c["fen"]][1] and not facts[c["fen"]][0]
                          and not r.get("panic") and r.get("best") is not None and S.parse_spec(spec)[0] >= 3))
        kv, lg2 = C.coq_eval_items("c12k", S.HEADER, ["keeps_mate_case %s [] %s 2%%nat" % (B.coq_str(f), B.coq_str(m)) for f, m in need],
                                   lambda l: l, nshards=C.NPROC, timeout=1500)
        keeps = {}
        if kv is None:
            rp = C.write_replay(prop, {"broken": "keeps-mate oracle evaluation", "log": lg2[-2000:]})
            violations.append({"replay": rp, "no_input": True})
        else:
            for (f, m), v in zip(need, kv):
                keeps[(f, m)] = (v is not None and v[1] is True)
            stats["keeps_mate_queries"] = len(need)
        for c, e in zip(cases, eng):
            if c["fen"] not in facts:
                continue
            mating, win2, per = facts[c["fen"]]
            for spec, r in zip(c["specs"], e["results"]):
                if r.get("panic") or r.get("best") is None:
                    continue
                d = S.parse_spec(spec)[0]
                mv = S.notation(r["best"])
                stats["searches_judged"] += 1
                problem = None
                if mating and mv not in mating:
                    problem = "a mate in one exists (%s) but the engine chose %s after a completed depth-%d search" % (sorted(mating), mv, d)
                elif d >= 3 and win2 and not mating and keeps.get((c["fen"], mv)) is False:
                    problem = "a mate in two exists but the chosen move %s does not keep a forced mate within three moves (depth %d)" % (mv, d)
                elif d >= 3 and per.get(mv) and not all(per.values()):
                    problem = "the chosen move %s allows a mate in one although some move avoids it (depth %d)" % (mv, d)
                if problem:
                    rp = C.write_replay(prop, {"kind": "mate-level property on the engine", "fen": c["fen"], "searches": c["specs"],
                                               "at": spec, "problem": problem,
                                               "replay_cmd": "printf '%s |  | %s\\n' | %s verif search" % (c["fen"], ";".join(c["specs"]), C.ENGINE)})
                    violations.append({"replay": rp})
                    break
    timing["keeps_and_judging_s"] = round(_t.time() - _t0, 1); _t0 = _t.time()
    # ---- hunt (engine alone, cache ON): random sparse positions searched in sequences sharing the cache; every chosen move judged by a
    # mate oracle written in the driver over the engine's board API; that oracle is itself compared with the Coq oracle (mate_facts) on
    # the corpus and on a sample of the hunted positions each run
    import json
    import positions as P
    from concurrent.futures import ThreadPoolExecutor
    nh = 9000 if ctx["tier"] == "quick" else 150000
    hfens = P.mate_hunt_positions(ctx["seed"], nh)
    # (the Coq oracle is slow: a queen and a rook on the board cost minutes; quick: only king + one man v king beyond the corpus)
    small = [f for f in hfens if sum(ch.isalpha() for ch in f.split()[0]) <= (3 if ctx["tier"] == "quick" else 4)]
    sample = fens + small[:24 if ctx["tier"] == "quick" else 300]
    rc, so, se = C.driver(["matefacts"], "".join(f + "\n" for f in sample), timeout=600)
    dfacts = [json.loads(l) for l in so.splitlines() if l.startswith("{")]
    # (the Coq facts of the corpus positions were evaluated above: only the extra positions are evaluated here)
    extra_s = sample[len(fens):]
    cv2, lg3 = C.coq_eval_items("c12h", S.HEADER, ["mate_facts %s []" % B.coq_str(f) for f in extra_s], lambda l: l, nshards=C.NPROC, timeout=1500)
    cvals = None if (vals is None or cv2 is None) else list(vals) + list(cv2)
    nval = 0
    if rc != 0 or len(dfacts) != len(sample) or cvals is None:
        rp = C.write_replay(prop, {"broken": "validation of the driver's mate oracle against the Coq oracle could not be evaluated", "log": (se or "")[-800:] + (lg3 or "")[-1200:]})
        violations.append({"replay": rp, "no_input": True})
    else:
        for f, dv, cv in zip(sample, dfacts, cvals):
            cv = B.norm(cv)
            if cv is None or dv.get("panic"):
                continue
            mating, win2, per = cv[1]
            nval += 1
            if (sorted(mating) != sorted(dv["mating"]) or int(win2) != dv["win2"]
                    or sorted((p_[0], int(p_[1])) for p_ in per) != sorted((a[0], a[1]) for a in dv["allows"])):
                rp = C.write_replay(prop, {"broken": "the driver's mate oracle disagrees with the Coq mate oracle (model/ChessSearch.v mate_facts)", "fen": f,
                                           "coq": [sorted(mating), win2], "driver": [sorted(dv["mating"]), dv["win2"]]})
                violations.append({"replay": rp, "no_input": True})
                break
    # (d<N>n<budget>: a deep search of the same position cut by a node budget comes first — seeded change r6C12a needs a root entry of
    # depth >= 8 left by an INTERRUPTED search)
    timing["oracle_validation_s"] = round(_t.time() - _t0, 1); _t0 = _t.time()
    hseqs = "d3;d4;d4,d3;d2,d4,d3;d3,d3;d1,d2,d4,d3;d3,d4;d5,d3;d14n25000,d3;d14n70000,d3,d4" + (";d6,d3;d5,d4,d3;d16n300000,d3" if ctx["tier"] == "thorough" else "")
    # the committed mate corpus additionally with a SWEEP of the budget of the earlier, interrupted search (a geometric grid of 50 node
    # budgets from 1 000 to 300 000, then depth 3): what an interrupted deep search leaves in the cache depends on where it was cut
    grid = sorted(set(int(1000 * 1.12 ** i) for i in range(51)))
    sweep = ";".join("d20n%d,d3" % b_ for b_ in grid)
    # ... and cut EXACTLY at the iteration boundaries (budget = node count at the end of iteration k, +-1: the children carry the
    # results of iteration k while the root entry is still that of iteration k-1 — seeded change r6C12a manifests only there)
    small_corpus = [f for f in fens if sum(ch.isalpha() for ch in f.split()[0]) <= 12]
    probe = S.run_engine([{"group": "probe", "fen": f, "moves": [], "specs": ["d14n400000q"]} for f in small_corpus])
    bjobs = []
    for f, e in zip(small_corpus, probe):
        ends = []
        for l in (e["results"][0].get("lines", []) if e["results"] else []):
            di = S.parse_info(l)
            if di and "depth" in di and "nodes" in di:
                ends.append(di["nodes"])
        bs_ = sorted(set(b_ for n_ in ends[2:] for b_ in (n_ - 1, n_, n_ + 1) if b_ > 0))
        if bs_:
            bjobs.append((f, ";".join("d20n%d,d3" % b_ for b_ in bs_) + ";" + ";".join("d20n%d,d4,d3" % b_ for b_ in bs_[1::3])))
    dense = [l.strip() for l in open(os.path.join(C.VERIF, "corpus", "mate_dense.txt")) if l.strip() and not l.startswith("#")]
    dense += [f for _, f in P.ep_discovered_check_families()][ctx["seed"] % 4::4]
    jobs = [(f, hseqs) for f in hfens] + [(f, sweep) for f in small_corpus] + bjobs + [(f, "d3;d4,d3;d2,d3;d3,d3;d5,d3") for f in dense]
    hstats_boundary = sum(sq_.count(";") + 1 for _, sq_ in bjobs)
    chunks = [jobs[i::C.NPROC] for i in range(C.NPROC)]

    def hunt(chunk):
        p_ = C.subprocess.run([C.ENGINE, "verif", "matehunt"], input="".join("%s | %s\n" % (f, sq_) for f, sq_ in chunk), capture_output=True, text=True, timeout=7000)
        chunk = [f for f, _ in chunk]
        res = [json.loads(l) for l in p_.stdout.splitlines() if l.startswith("{")]
        return list(zip(chunk, res)) if len(res) == len(chunk) else None
    with ThreadPoolExecutor(max_workers=C.NPROC) as ex:
        parts = list(ex.map(hunt, chunks))
    hstats = {"positions": 0, "mate_in_one": 0, "mate_in_two": 0, "avoidable_threat": 0, "panics": 0,
              "mate_in_two_kept_as_a_longer_mate": 0, "mate_scores_confirmed_by_the_solver": 0, "mate_scores_undecided": 0,
              "oracle_validated_against_coq": nval, "sequences": hseqs}
    if any(x is None for x in parts):
        rp = C.write_replay(prop, {"broken": "mate hunt on the engine did not complete"})
        violations.append({"replay": rp, "no_input": True})
    else:
        nv = 0
        for f, r_ in (x for part in parts for x in part):
            hstats["positions"] += 1
            if r_.get("panic"):
                hstats["panics"] += 1
                continue
            if r_.get("facts"):
                for k_, nm in enumerate(("mate_in_one", "mate_in_two", "avoidable_threat")):
                    hstats[nm] += r_["facts"][k_]
            hstats["mate_scores_confirmed_by_the_solver"] += r_.get("mate_scores", 0)
            for v in r_.get("violations", []):
                if v["clause"] == 44:
                    # the solver's work budget ran out before the claimed distance (+3) was searched: not judged
                    hstats["mate_scores_undecided"] += 1
                    hstats["mate_scores_confirmed_by_the_solver"] -= 1
                    continue
                if v["clause"] in (4, 5):
                    hstats["mate_scores_confirmed_by_the_solver"] -= 1
                if v["clause"] in (20, 30, 40):
                    # the mate in two was not kept as a mate in two but as a forced mate within 3 / 4 / 5 moves: "keeps a forced mate" holds
                    hstats["mate_in_two_kept_as_a_longer_mate"] += 1
                    continue
                nv += 1
                if nv <= 3:
                    what = {1: "a mate in one exists but the chosen move does not mate", 2: "a mate in two exists but after the chosen move no forced mate within five moves remains",
                            3: "the chosen move allows a mate in one although some legal move avoids it",
                            4: "the search left a mate score (>= 32000) but the chosen move does not force mate within the claimed distance + 3 moves "
                               "(C12_mate_scores_sound: a mate score is never a lie; exhaustive memoised solver)",
                            5: "the search left a mated score (<= -32000) but the position is not lost within the claimed distance + 3 moves "
                               "(C12_mate_scores_sound; exhaustive memoised solver)"}[v["clause"]]
                    rp = C.write_replay(prop, {"kind": "mate-level property on the engine (cache on, hunt)", "fen": f, "searches_sharing_the_cache": v["seq"],
                                               "search_index": v["k"], "chosen": v["move"], "problem": what,
                                               "replay_cmd": "printf '%s | %s\\n' | %s verif matehunt" % (f, v["seq"], C.ENGINE)})
                    violations.append({"replay": rp})
    hstats["iteration_boundary_cut_sequences"] = hstats_boundary
    timing["hunt_s"] = round(_t.time() - _t0, 1)
    stats["timing"] = timing
    stats["hunt"] = hstats
    cov.update(stats)
    cov["evaluations"] = sum(len(c["specs"]) for c in cases) + hstats["positions"]
    cov["distinct_nontrivial"] = len(cases)
    cov["rule"] = ("15 sparse positions with a mate in one, a mate in two or an avoidable mate-in-one threat x sequences of searches sharing "
                   "the cache ((3), (4,3), (2,4,3), (3,3), ...): engine vs model (move, score), and the three clauses judged on the engine's "
                   "choices by a mate oracle evaluated in Coq on the model (mating moves; forced mate within 2-3 moves; replies that mate); "
                   "hunt: 9 000 (quick) / 150 000 (thorough) random sparse positions on the engine alone with the cache ON, each searched in 8-10 sequences "
                   "sharing the cache, every chosen move judged by a mate oracle over the engine's board API which is compared with the Coq oracle each run; "
                   "every mate SCORE (|score| >= 32000) of every one of these searches confirmed by an exhaustive memoised mate solver (the tie of C12_mate_scores_sound)")
    cov["samples"].append({"fen": fens[0], "sequences": seqs})
    return SP.finish(prop, gate, violations, cov)


replay = SP.replay
