"""C05 — different positions get different keys."""
import json
import random
import common as C
import boardcorr as B
import positions as P
from props import boardprop

FIELDS = ("state.zkey", "state.scratch_key", "make.digest")
FILES = "abcdefgh"


def fen_grid(fen):
    f = fen.split()
    rows = f[0].split("/")
    g = {}
    for ri, row in enumerate(rows):
        r = 7 - ri
        c = 0
        for ch in row:
            if ch.isdigit():
                c += int(ch)
            else:
                g[(r, c)] = ch
                c += 1
    return g, f


def perturbations(fen, rng, npieces):
    g, f = fen_grid(fen)
    out = []
    turn = f[1]
    # side to move (drop the ep square: it would not match the side)
    out.append(("side", P.board_to_fen(g, "b" if turn == "w" else "w", f[2] if f[2] != "-" else None, None, 0, 1)))
    base = P.board_to_fen(g, turn, f[2] if f[2] != "-" else None, f[3] if f[3] != "-" else None, 0, 1)
    rights = set(f[2]) - {"-"}
    for r in "KQkq":
        nr = rights ^ {r}
        out.append(("right " + r, P.board_to_fen(g, turn, "".join(x for x in "KQkq" if x in nr), f[3] if f[3] != "-" else None, 0, 1)))
    cur_ep = f[3][0] if f[3] != "-" else None
    for fl in FILES:
        if fl != cur_ep:
            out.append(("ep " + fl, P.board_to_fen(g, turn, f[2] if f[2] != "-" else None, fl + ("6" if turn == "w" else "3"), 0, 1)))
    if cur_ep:
        out.append(("ep cleared", P.board_to_fen(g, turn, f[2] if f[2] != "-" else None, None, 0, 1)))
    for _ in range(npieces):
        sq = (rng.randrange(8), rng.randrange(8))
        g2 = dict(g)
        choices = [c for c in "PNBRQKpnbrqk" if c != g.get(sq)] + ([None] if sq in g else [])
        c = rng.choice(choices)
        if c is None:
            del g2[sq]
        else:
            g2[sq] = c
        out.append(("piece %s%d->%s" % (FILES[sq[1]], sq[0] + 1, c), P.board_to_fen(g2, turn, f[2] if f[2] != "-" else None, f[3] if f[3] != "-" else None, 0, 1)))
    return base, out


def run(ctx):
    prop = "C05"
    res = boardprop.run(ctx, prop, FIELDS, (), "position key differs from the model key (which hashes every component)",
                        has_proofs=True, extra_targets=["model/Atoms.vo"])
    violations, cov = res["violations"], res["coverage"]
    if any(v.get("no_input") for v in violations) and cov.get("evaluations", 0) == 0:
        return res
    rng = random.Random(ctx["seed"] + 5)
    base = P.corpus() + P.bench_fens()
    nwalk = 150 if ctx["tier"] == "quick" else 5000
    starts = [base[rng.randrange(len(base))] for _ in range(nwalk)]
    rc, so, se = C.driver(["randfens", str(ctx["seed"] + 5), "40"], "\n".join(starts) + "\n")
    fens = list(dict.fromkeys(base + [l for l in so.splitlines() if l and l != "PANIC"]))

    allf, owner, label = [], [], []
    for i, fen in enumerate(fens):
        b, ps = perturbations(fen, rng, 24 if ctx["tier"] == "quick" else 200)
        allf.append(b)
        owner.append(i)
        label.append("base")
        for lab, pf in ps:
            allf.append(pf)
            owner.append(i)
            label.append(lab)
    # the committed collision pairs (corpus/collisions.txt) are part of what is explored — as they are, not perturbed (the same
    # perturbation applied to both members collides again: the same finding, not a new one)
    for a_, b_ in P.collision_pairs():
        for x in (a_, b_):
            allf.append(x)
            owner.append(len(fens) + len(allf))
            label.append("base")
    rc, so, se = C.driver(["fen"], "\n".join(allf) + "\n", timeout=900)
    keys = []
    for l in so.splitlines():
        st = json.loads(l)
        keys.append(None if isinstance(st, dict) else st[0][18])
    if len(keys) != len(allf):
        rp = C.write_replay(prop, {"broken": "fen key sweep", "stderr": se[-500:]})
        violations.append({"replay": rp, "no_input": True})
        return res
    basekey = {}
    for k, o, lab in zip(keys, owner, label):
        if lab == "base":
            basekey[o] = k
    same = 0
    for f, k, o, lab in zip(allf, keys, owner, label):
        if lab != "base" and k is not None and k == basekey[o]:
            same += 1
            if same <= 3:
                rp = C.write_replay(prop, {"kind": "a single-component change does not change the key", "position": allf[[i for i, (oo, ll) in enumerate(zip(owner, label)) if oo == o and ll == "base"][0]],
                                           "changed": lab, "perturbed_fen": f, "key": k,
                                           "replay_cmd": "printf '%s\\n' | %s verif fen" % (f, C.ENGINE)})
                violations.append({"replay": rp})
    # model key for a sample of the perturbed positions (the model hashes every component)
    sample = rng.sample(range(len(allf)), min(len(allf), 1500 if ctx["tier"] == "quick" else 30000))
    vals, lg = C.coq_eval_items("c05k", B.HEADER, ["match from_fen %s with Some b => Some (zkey b) | None => None end" % B.coq_str(allf[i]) for i in sample],
                                lambda l: l, nshards=C.NPROC, timeout=1500)
    if vals is None:
        rp = C.write_replay(prop, {"broken": "model keys of perturbed positions", "log": lg[-2000:]})
        violations.append({"replay": rp, "no_input": True})
    else:
        nb = 0
        for i, v in zip(sample, vals):
            mk = None if v is None else v[1]
            if mk != keys[i]:
                nb += 1
                if nb <= 3:
                    rp = C.write_replay(prop, {"kind": "engine key differs from the model key (a component is hashed differently or not at all)",
                                               "fen": allf[i], "engine_key": keys[i], "model_key": mk,
                                               "replay_cmd": "printf '%s\\n' | %s verif fen" % (allf[i], C.ENGINE),
                                               "broken": "correspondence engine key = model key (XOR over the atoms present, model/Atoms.v; C05_small_diff is about "
                                                         "that function); whether two different positions share a key is judged on the engine's own keys by the "
                                                         "perturbation sweep and the collision search of this check"})
                    violations.append({"replay": rp, "no_input": True})
    # exploration (supports, is not an obligation): distinct identities vs distinct keys
    ident = {}
    coll = 0
    known = res.setdefault("known", [])
    for f, k in zip(allf, keys):
        idf = " ".join(f.split()[:4])
        idf = idf if idf.split()[3] == "-" else idf[:-1]    # the key only hashes the ep FILE
        if k is None:
            continue
        if k in ident and ident[k] != idf:
            # a listed finding (known_findings.json, matched by the specific pair) is printed as KNOWN-FINDING; any other is a violation
            kf = [x for x in C.known_findings() if x.get("property") == prop and
                  {" ".join(x["a"].split()[:4]), " ".join(x["b"].split()[:4])} == {ident[k], idf}]
            if kf:
                if kf[0]["text"] not in known:
                    known.append(kf[0]["text"])
                continue
            coll += 1
            if coll <= 2:
                rp = C.write_replay(prop, {"kind": "two different explored positions share a key", "a": ident[k], "b": idf, "key": k})
                violations.append({"replay": rp})
        ident.setdefault(k, idf)
    cov["perturbed_positions"] = len(allf)
    cov["distinct_identities_explored"] = len(set(ident.values()))
    cov["key_collisions_among_explored"] = coll
    cov["known_collision_pairs_still_colliding"] = len(known)
    cov["model_keys_compared"] = len(sample)
    cov["evaluations"] = cov.get("evaluations", 0) + len(allf)
    cov["rule"] = (cov.get("rule", "") + " | perturbation sweep: positions (corpus, bench, walk positions) x {side to move, each castling "
                   "right toggled, en-passant file set to every file / cleared, random piece added / removed / replaced}: engine key must "
                   "change; engine key = model key on a sample; all explored identities pairwise distinct keys (exploration)")
    return res


def replay(ctx, payload):
    return boardprop.replay(ctx, payload)
