"""Common body of the checks that share the board correspondence (C01-C04)."""
import json
import common as C
import boardcorr as B

COMMON_FIELDS = ("panic", "from_fen", "engine.panic")
# engine = model on observables that the rules of chess / the property do not fix by themselves: the set of attacked squares as an
# intermediate result, the number of pseudo-legal moves, the shape of an undo record, the numeric value of the key (any function of
# the position will do for C04; that it IS one is judged on the engine: key = from-scratch key, equal positions have equal keys).
# A divergence there is a broken correspondence (reported, `no-failing-input-found`), not an input on which the property fails.
INTERNAL_FIELDS = ("attacked.white", "attacked.black", "pseudo.count", "state.history", "state.zkey", "state.scratch_key", "legal.order")
CORE_NAMES = ["turn", "fullmove", "ep"] + ["bb%d" % i for i in range(15)] + ["zkey"]
REC_NAMES = ["start", "dest", "piece", "captured", "promoted", "flags", "halfmove_clock", "castling_rights"]
REC_PROPERTY = ("halfmove_clock", "castling_rights")


def state_diff(es, ms):
    """engine state vs model state ([core+keys], undo stack, earlier positions) -> (property-level difference | None, internal-only
    difference | None): placement, side, en-passant file, counters, the CURRENT rights and clock and the remembered positions are
    fixed by the rules; the numeric key and the rest of the undo records are not"""
    names = (["turn", "fullmove", "ep"] + ["bb%d" % i for i in range(15)] + ["zkey", "scratch_key"])
    internal = None
    for nm, a, b in zip(names, es[0], ms[0]):
        if a != b:
            if nm in ("zkey", "scratch_key"):
                internal = internal or "key differs from the model key (%s): engine %s, model %s" % (nm, a, b)
                continue
            return "position differs in %s: engine %s, model %s" % (nm, a, b), None
    if es[1] != ms[1]:
        te = es[1][-1][6:8] if es[1] else None
        tm = ms[1][-1][6:8] if ms[1] else None
        if te != tm or len(es[1]) != len(ms[1]):
            return "castling rights / half-move clock (top of the undo stack) or the number of moves made differ: engine %s, model %s" % (es[1][-2:], ms[1][-2:]), None
        internal = internal or "undo records differ in fields the rules do not fix: engine %s, model %s" % (es[1][-2:], ms[1][-2:])
    if internal is None and sorted(es[2]) != sorted(ms[2]):
        return "record of earlier positions differs", None
    return None, internal


def digest_detail(case, node, move):
    """make.digest differs for one successor: get the undigested successor state from both sides and say which components differ.
    -> (list of component names, property_level: bool) or None when it cannot be evaluated"""
    ms = case["moves"][:max(node, 0)]
    rc, so, se = C.driver(["walk", "full"], "%s | %s\n" % (case["fen"], " ".join(ms)), timeout=120)
    try:
        en = json.loads(so.splitlines()[0])["nodes"][-1][1]
    except Exception:
        return None
    item = ("match from_fen %s with Some b0 => match play b0 [%s] with Some b => map (probe_move_full b) (get_legal_moves b) | None => [] end | None => [] end"
            % (B.coq_str(case["fen"]), "; ".join(B.coq_str(m) for m in ms)))
    vals, lg = C.coq_eval_items("bfull", B.HEADER, [item], lambda l: l, nshards=1, timeout=300)
    if vals is None or vals[0] is None:
        return None
    mo = B.norm(vals[0])
    e = [x for x in en if list(x[0]) == list(move)]
    m = [x for x in mo if list(x[0]) == list(move)]
    if not e or not m:
        return None
    ecore, elast = e[0][1], e[0][2]
    mcore, mlast = m[0][1], m[0][2]
    diff = [n for n, a, b in zip(CORE_NAMES, ecore, mcore) if a != b] + [n for n, a, b in zip(REC_NAMES, elast, mlast) if a != b]
    prop_level = any(n in REC_PROPERTY or (n in CORE_NAMES and n != "zkey") for n in diff)
    return diff, prop_level


def shrink_case(case, node):
    return {"fen": case["fen"], "moves": case["moves"][:max(node, 0)], "kind": case["kind"]}


def run(ctx, prop, fields, prefixes, what, has_proofs=True, extra_targets=()):
    tier, seed = ctx["tier"], ctx["seed"]
    violations = []
    ok, blog, bt = C.build_engine()
    if not ok:
        rp = C.write_replay(prop, {"broken": "engine+driver build from /repo working tree", "log": blog})
        return {"violations": [{"replay": rp, "no_input": True}],
                "coverage": {"obligations": 1, "discharged": 0, "evaluations": 0, "distinct_nontrivial": 0,
                             "explanation": "engine does not build"}}
    d, err = C.gen_consts()
    if d is None:
        rp = C.write_replay(prop, {"broken": "consts dump", "log": err})
        return {"violations": [{"replay": rp, "no_input": True}],
                "coverage": {"obligations": 1, "discharged": 0, "evaluations": 0, "distinct_nontrivial": 0,
                             "explanation": err}}
    cov = {"samples": []}
    if has_proofs:
        gate = C.proof_gate(prop, extra_targets=list(extra_targets) + B.MODEL_TARGETS)
        cov["obligations"] = gate["obligations"]
        cov["discharged"] = gate["discharged"]
        cov["theorems"] = gate["theorems"]
        cov["proof_gate_s"] = round(gate.get("wall_s", 0), 1)
    else:
        gate = {"ok": True}
    r = B.run(tier, seed)
    if "error" in r:
        rp = C.write_replay(prop, {"broken": "board correspondence: " + r["error"], "log": r.get("log", "")})
        violations.append({"replay": rp, "no_input": True})
        cov.update({"evaluations": 0, "distinct_nontrivial": 0})
        if not gate["ok"]:
            C.write_replay(prop, {"broken": gate["failures"], "log": gate["log"][-3000:]})
        return {"violations": violations, "coverage": cov}

    def relevant(f):
        return f in fields or f in COMMON_FIELDS or any(f.startswith(p) for p in prefixes)

    hits = [(i, dv) for i, dv in r["divergences"] if relevant(dv["field"])]
    hits += [(i, dv) for i, dv in r["self"] if relevant(dv["field"])]
    seen = set()
    for i, dv in hits:
        key = (dv["field"],)
        if key in seen or len(seen) >= 6:
            continue
        seen.add(key)
        case = r["cases"][i]
        is_int = dv["field"] in INTERNAL_FIELDS or dv["field"].startswith("spec.")
        payload = {"kind": what, "divergence": dv, "case": shrink_case(case, dv.get("node", 0)),
                   "full_case": case,
                   "replay_cmd": "printf '%%s | %%s\\n' '%s' '%s' | %s verif walk full" % (
                       case["fen"], " ".join(case["moves"][:max(dv.get("node", 0), 0)]), C.ENGINE)}
        if dv["field"] == "make.digest":
            det = digest_detail(case, dv.get("node", 0), dv.get("engine") or [])
            if det is not None:
                payload["successor_components_that_differ"] = det[0]
                is_int = not det[1] and not (prop == "C04" and False)
        if is_int:
            payload["broken"] = ("correspondence engine = model on `%s` (board correspondence, lib/boardcorr.py)%s: the theorems of props/%s.v are about "
                                 "the model, which no longer describes the code at this node; the property itself is judged at every node on the "
                                 "observables the rules fix and on the engine alone (unmake restores, key = from-scratch key, ...)"
                                 % (dv["field"], " — the model disagrees with spec/Rules.v" if dv["field"].startswith("spec.") else "", prop))
        rp = C.write_replay(prop, payload)
        violations.append({"replay": rp, "no_input": is_int})
    if not gate["ok"]:
        payload = {"broken": gate["failures"], "log": gate["log"][-3000:]}
        if [v for v in violations if not v.get("no_input")]:
            payload["witnesses"] = [v["replay"] for v in violations]
            C.write_replay(prop, payload)
        else:
            rp = C.write_replay(prop, payload)
            violations.append({"replay": rp, "no_input": True})
    st = r["stats"]
    cov["evaluations"] = st["nodes"] + st["moves_probed"]
    cov["distinct_nontrivial"] = st["distinct_positions"]
    cov["traces_validated_against_impl"] = st["cases"]
    cov["input_distribution"] = st["features"]
    cov["case_kinds"] = st["case_kinds"]
    cov["nodes"] = st["nodes"]
    cov["moves_probed"] = st["moves_probed"]
    cov["spec_nodes"] = st.get("spec_nodes")
    cov["divergences_relevant"] = len(hits)
    cov["rule"] = ("corpus + the engine's 62 bench positions + 1251 deterministic clause-boundary probe positions "
                   "+ random legal walks chosen by the engine (biased to captures, castling, double pushes, "
                   "promotions, en passant, piece shuffles that repeat positions); every position is a node at which "
                   "engine and Coq model are compared on: full state, legal move list, every successor (digest of full "
                   "state), unmake restoring the board, check status, attacked squares; the model is compared with "
                   "spec/Rules.v at every node; distinct = distinct position keys")
    cov["samples"].append(r.get("sample"))
    return {"violations": violations, "coverage": cov,
            "assumptions": ["positions are those reachable in the explored walks plus the listed families",
                            "Vec/HashMap semantics of the Rust standard library"]}


def replay(ctx, payload):
    C.build_engine()
    case = payload.get("case")
    if not case:
        print(json.dumps(payload, indent=1)[:3000])
        return 1
    rc, so, se = C.driver(["walk", "full"], "%s | %s\n" % (case["fen"], " ".join(case["moves"])))
    print(so[:4000])
    print(json.dumps(payload.get("divergence"), indent=1))
    return 1
