"""Common body of the checks that share the board correspondence (C01-C04)."""
import json
import common as C
import boardcorr as B

COMMON_FIELDS = ("panic", "from_fen", "engine.panic")


def shrink_case(case, node):
    return {"fen": case["fen"], "moves": case["moves"][:max(node, 0)], "kind": case["kind"]}


def run(ctx, prop, fields, prefixes, what, has_proofs=True, extra_targets=()):
    tier, seed = ctx["tier"], ctx["seed"]
    violations = []
    ok, blog, bt = C.build_engine()
    if not ok:
        rp = C.write_replay(prop, {"broken": "engine+driver build from /repo working tree", "log": blog})
        return {"violations": [{"replay": rp, "no_input": True}],
                "coverage": {"obligations": 1, "discharged": 0, "evaluations": 0, "distinct_nontrivial": 0,
                             "explanation": "engine does not build"}}
    d, err = C.gen_consts()
    if d is None:
        rp = C.write_replay(prop, {"broken": "consts dump", "log": err})
        return {"violations": [{"replay": rp, "no_input": True}],
                "coverage": {"obligations": 1, "discharged": 0, "evaluations": 0, "distinct_nontrivial": 0,
                             "explanation": err}}
    cov = {"samples": []}
    if has_proofs:
        gate = C.proof_gate(prop, extra_targets=list(extra_targets) + B.MODEL_TARGETS)
        cov["obligations"] = gate["obligations"]
        cov["discharged"] = gate["discharged"]
        cov["theorems"] = gate["theorems"]
        cov["proof_gate_s"] = round(gate.get("wall_s", 0), 1)
    else:
        gate = {"ok": True}
    r = B.run(tier, seed)
    if "error" in r:
        rp = C.write_replay(prop, {"broken": "board correspondence: " + r["error"], "log": r.get("log", "")})
        violations.append({"replay": rp, "no_input": True})
        cov.update({"evaluations": 0, "distinct_nontrivial": 0})
        if not gate["ok"]:
            C.write_replay(prop, {"broken": gate["failures"], "log": gate["log"][-3000:]})
        return {"violations": violations, "coverage": cov}

    def relevant(f):
        return f in fields or f in COMMON_FIELDS or any(f.startswith(p) for p in prefixes)

    hits = [(i, dv) for i, dv in r["divergences"] if relevant(dv["field"])]
    hits += [(i, dv) for i, dv in r["self"] if relevant(dv["field"])]
    seen = set()
    for i, dv in hits:
        key = (dv["field"],)
        if key in seen or len(seen) >= 6:
            continue
        seen.add(key)
        case = r["cases"][i]
        rp = C.write_replay(prop, {"kind": what, "divergence": dv, "case": shrink_case(case, dv.get("node", 0)),
                                   "full_case": case,
                                   "replay_cmd": "printf '%%s | %%s\\n' '%s' '%s' | %s verif walk full" % (
                                       case["fen"], " ".join(case["moves"][:max(dv.get("node", 0), 0)]), C.ENGINE)})
        violations.append({"replay": rp})
    if not gate["ok"]:
        payload = {"broken": gate["failures"], "log": gate["log"][-3000:]}
        if violations:
            payload["witnesses"] = [v["replay"] for v in violations]
            C.write_replay(prop, payload)
        else:
            rp = C.write_replay(prop, payload)
            violations.append({"replay": rp, "no_input": True})
    st = r["stats"]
    cov["evaluations"] = st["nodes"] + st["moves_probed"]
    cov["distinct_nontrivial"] = st["distinct_positions"]
    cov["traces_validated_against_impl"] = st["cases"]
    cov["input_distribution"] = st["features"]
    cov["case_kinds"] = st["case_kinds"]
    cov["nodes"] = st["nodes"]
    cov["moves_probed"] = st["moves_probed"]
    cov["spec_nodes"] = st.get("spec_nodes")
    cov["divergences_relevant"] = len(hits)
    cov["rule"] = ("corpus + the engine's 62 bench positions + 1251 deterministic clause-boundary probe positions "
                   "+ random legal walks chosen by the engine (biased to captures, castling, double pushes, "
                   "promotions, en passant, piece shuffles that repeat positions); every position is a node at which "
                   "engine and Coq model are compared on: full state, legal move list, every successor (digest of full "
                   "state), unmake restoring the board, check status, attacked squares; the model is compared with "
                   "spec/Rules.v at every node; distinct = distinct position keys")
    cov["samples"].append(r.get("sample"))
    return {"violations": violations, "coverage": cov,
            "assumptions": ["positions are those reachable in the explored walks plus the listed families",
                            "Vec/HashMap semantics of the Rust standard library"]}


def replay(ctx, payload):
    C.build_engine()
    case = payload.get("case")
    if not case:
        print(json.dumps(payload, indent=1)[:3000])
        return 1
    rc, so, se = C.driver(["walk", "full"], "%s | %s\n" % (case["fen"], " ".join(case["moves"])))
    print(so[:4000])
    print(json.dumps(payload.get("divergence"), indent=1))
    return 1
