"""C03 — see DESIGN.md section 5."""
from props import boardprop

FIELDS = ("make.digest","move-accepted","spec.apply","spec.flags","spec.wf","state.turn","state.fullmove","state.ep","state.history","state.rights_clock","state.position_history")
PREFIXES = ("state.bb",)
HAS_PROOFS = True


def run(ctx):
    return boardprop.run(ctx, "C03", FIELDS, PREFIXES, "position bookkeeping differs from the model (which agrees with the rules spec)", has_proofs=HAS_PROOFS)


def replay(ctx, payload):
    return boardprop.replay(ctx, payload)
