"""C16 — fixed-depth search from a fresh cache is deterministic."""
import os
import subprocess
import common as C
import searchcorr as S
from props import searchprop as SP


def run(ctx):
    prop = "C16"
    gate, err = SP.prepare(prop, extra_targets=["props/ChessInstances.vo"])
    if err:
        return err
    violations, cov = [], {"samples": []}
    # ---- a FROZEN process (runs in the background of this check): the same `go depth 8` in two processes, one of them stopped with
    # SIGSTOP for two minutes (five in thorough) right after its first info line: wall-clock time passes, nothing else
    # changes, so every info line (depth, nodes, score, pv) and the bestmove must be identical.  (Seeded changes r2C16, r9C16: behaviour
    # keyed on elapsed wall time — a default move time, a cache trim after 120 s — read from clocks no hook intercepts.)
    import signal
    import threading
    import time as _time
    import uciproc
    import ucigrammar as UG
    frozen = {}

    def freeze_leg():
        T = 125 if ctx["tier"] == "quick" else 305
        engs = [uciproc.Engine(), uciproc.Engine()]
        try:
            for e in engs:
                e.send("position startpos")
                e.send("go depth 8")
            if engs[1].wait_for(lambda l: l.startswith("info depth 1 "), 20) is not None:
                C.os.kill(engs[1].p.pid, signal.SIGSTOP)
                _time.sleep(T)
                C.os.kill(engs[1].p.pid, signal.SIGCONT)
                frozen["frozen_s"] = T
            sigs = []
            for e in engs:
                i = e.wait_for(lambda l: l.startswith("bestmove"), 300)
                out = e.lines()[: (i + 1) if i is not None else None]
                sig = []
                for l in out:
                    d = UG.parse_info(l) if l.startswith("info") else None
                    if d and "depth" in d:
                        sig.append((d.get("depth"), d.get("nodes"), d.get("score_kind"), d.get("score"), tuple(d.get("pv", []))))
                    elif l.startswith("bestmove"):
                        sig.append(l)
                sigs.append(sig)
            frozen["sigs"] = sigs
        except Exception as ex:          # noqa: BLE001
            frozen["error"] = repr(ex)
        finally:
            for e in engs:
                try:
                    C.os.kill(e.p.pid, signal.SIGCONT)
                except Exception:        # noqa: BLE001
                    pass
                e.finish()
                e.kill()
    freeze_thread = threading.Thread(target=freeze_leg, daemon=True)
    freeze_thread.start()

    def relevant(case, dv):
        if case["group"] == "cut":
            # no time limit and the clock jumps by four months in mid-search (driver mode k): C16_clock_free
            return "k" in case["specs"][0]
        return case["group"] in ("value", "seq", "material") and not (dv.get("spec") or "").endswith("x")
    def internal(case, dv):
        # determinism is judged on the engine itself (repeated runs, second process, under load, with a jumping clock: below); that the
        # result equals the MODEL function is how the theorem C16_clock_free is tied to the code — a correspondence
        return dv["field"] != "engine-panic"
    r = SP.corr(ctx, prop, ("value", "seq", "cut", "material"), relevant,
                "fixed-depth search differs from the model function (best move / score / node count / cache writes)",
                violations, cov, internal=internal)
    # C16_clock_free on the engine alone: with NO time limit set, a clock that jumps by 10^10 ms in mid-search changes nothing —
    # the run must equal the plain run of the same search (best move, score, nodes, seldepth, complete cache-write trace)
    if r is not None:
        full = {}
        for c, e in zip(r["cases"], r["engine"]):
            if c["group"] == "cut-full" and e["results"] and not e["results"][0].get("panic"):
                full[(c["fen"], tuple(c["moves"]), c["depth"])] = e["results"][0]
        nk = nkbad = 0
        for c, e in zip(r["cases"], r["engine"]):
            if c["group"] != "cut" or "k" not in c["specs"][0] or not e["results"]:
                continue
            f = full.get((c["fen"], tuple(c["moves"]), c["depth"]))
            if f is None:
                continue
            nk += 1
            k = e["results"][0]
            same = (not k.get("panic")) and all(k.get(x) == f.get(x) for x in ("best", "score", "nodes", "seldepth")) and \
                [w[:6] for w in k.get("writes", [])] == [w[:6] for w in f.get("writes", [])]
            if not same:
                nkbad += 1
                if nkbad <= 2:
                    rp = C.write_replay(prop, {"kind": "a search WITHOUT any time limit gave a different result when the clock jumped in mid-search: the result depends on "
                                                       "wall time (observed on the engine alone)",
                                               "case": c, "plain": {x: f.get(x) for x in ("best", "score", "nodes", "seldepth")},
                                               "with_clock_jump": {x: k.get(x) for x in ("best", "score", "nodes", "seldepth", "panic")},
                                               "replay_cmd": "printf '%s | %s | %s\\n%s | %s | d%d\\n' | %s verif search | cut -c1-160" % (
                                                   c["fen"], " ".join(c["moves"]), c["specs"][0], c["fen"], " ".join(c["moves"]), c["depth"], C.ENGINE)})
                    violations.append({"replay": rp})
        cov["clock_jump_runs_compared_with_plain_runs"] = nk
    # runtime evidence (not proof): the same cases again in one process, in a second process and
    # under CPU load must give identical results
    if r is not None:
        cases = [c for c in r["cases"] if c["group"] == "value" and not c["specs"][0].endswith("x")]
        inp = "".join("%s | %s | %s\n" % (c["fen"], " ".join(c["moves"]), ";".join(c["specs"])) for c in cases)
        base = None
        runs = 0
        burners = []
        try:
            for mode in ("again", "again", "load"):
                if mode == "load":
                    burners = [subprocess.Popen(["sh", "-c", "while :; do :; done"]) for _ in range(C.NPROC)]
                rc, so, se = C.driver(["search"], inp + inp, timeout=1200)   # twice in one process
                res = [l for l in so.splitlines() if l.startswith("RESULT ")]
                sig = [(x.split('"best":')[1].split(',"writes"')[0]) for x in res]
                half = len(sig) // 2
                runs += 2
                if sig[:half] != sig[half:]:
                    k = [i for i in range(half) if sig[i] != sig[half + i]][0]
                    rp = C.write_replay(prop, {"kind": "same search twice in one process gave different results",
                                               "case": cases[k], "first": sig[k], "second": sig[half + k]})
                    violations.append({"replay": rp})
                if base is None:
                    base = sig[:half]
                elif base != sig[:half]:
                    k = [i for i in range(half) if sig[i] != base[i]][0]
                    rp = C.write_replay(prop, {"kind": "same search in another process%s gave a different result" % (" under CPU load" if mode == "load" else ""),
                                               "case": cases[k], "first": base[k], "second": sig[k]})
                    violations.append({"replay": rp})
        finally:
            for b in burners:
                b.kill()
        # deeper searches (engine only, no model at this depth): twice in one process and once more in a second process
        deep = ["8/8/1p4p1/p1p2k1p/P2npP1P/4K1P1/1P6/3R4 w - - 6 54 |  | d%d" % (10 if ctx["tier"] == "quick" else 11),
                "r3k2r/p1ppqpb1/bn2pnp1/3PN3/1p2P3/2N2Q1p/PPPBBPPP/R3K2R w KQkq - 0 1 |  | d%d" % (5 if ctx["tier"] == "quick" else 7)]
        # a search that caches several hundred thousand positions (the map grows through many reallocations; `clear` keeps the capacity)
        deep.append("8/2p5/3p4/KP5r/1R3p1k/8/4P1P1/8 w - - 0 1 |  | d%dq" % (11 if ctx["tier"] == "quick" else 13))
        dinp = "".join(x + "\n" for x in deep)
        sigs = []
        for _ in range(2):
            rc, so, se = C.driver(["search"], dinp + dinp, timeout=2400)
            res = [l for l in so.splitlines() if l.startswith("RESULT ")]
            sigs.append([(x.split('"best":')[1].split(',"writes"')[0]) for x in res])
        flat = sigs[0] + sigs[1]
        for k2 in range(len(deep)):
            vals2 = set(flat[k2::len(deep)])
            if len(vals2) != 1:
                rp = C.write_replay(prop, {"kind": "a deep fixed-depth search from an empty cache gave different results on repetition",
                                           "case": deep[k2], "results": sorted(vals2),
                                           "replay_cmd": "printf '%s\\n%s\\n' | %s verif search | grep RESULT | cut -c1-120" % (deep[k2], deep[k2], C.ENGINE)})
                violations.append({"replay": rp})
        # a search that stores MILLIONS of positions (seeded change r6C16: a cache bounded at 2^20 entries whose eviction order depends
        # on a randomly seeded std HashSet — only a search beyond that size differs, and only between runs): once in each of two
        # processes running at the same time
        big = "3br1k1/p1pn3p/1p3n2/5pNq/2P1p3/1PN3PP/P2Q1PB1/4R1K1 w - - 0 23 |  | d%dq" % (8 if ctx["tier"] == "quick" else 9)
        from concurrent.futures import ThreadPoolExecutor
        with ThreadPoolExecutor(max_workers=2) as ex:
            outs = list(ex.map(lambda _: C.driver(["search"], big + "\n", timeout=3000), range(2)))
        bsig = []
        for rc, so, se in outs:
            res = [l for l in so.splitlines() if l.startswith("RESULT ")]
            bsig.append(res[0].split('"best":')[1].split(',"writes"')[0] if res else None)
        cov["big_table_search"] = {"case": big, "results": bsig}
        if bsig[0] is None or bsig[0] != bsig[1]:
            rp = C.write_replay(prop, {"kind": "a fixed-depth search from an empty cache that stores millions of positions gave different results in two processes",
                                       "case": big, "results": bsig,
                                       "replay_cmd": "for i in 1 2; do printf '%s\\n' | %s verif search | grep RESULT | cut -c1-160; done" % (big, C.ENGINE)})
            violations.append({"replay": rp})
        cov["deep_repeat_searches"] = len(flat)
        cov["repeat_runs"] = runs
        # the built-in bench (the signature the property names): two processes at the same time (quick), plus two more one after
        # the other (thorough); the `nodes` line must be identical
        procs = [subprocess.Popen([C.ENGINE, "bench"], stdout=subprocess.PIPE, stderr=subprocess.DEVNULL, text=True)
                 for _ in range(2)]
        totals = []
        for p in procs:
            try:
                so, _ = p.communicate(timeout=1500)
            except subprocess.TimeoutExpired:
                p.kill()
                so = ""
            totals.append([l for l in so.splitlines() if l.endswith(" nodes")])
        if ctx["tier"] == "thorough":
            for _ in range(2):
                p = subprocess.run([C.ENGINE, "bench"], capture_output=True, text=True, timeout=3000)
                totals.append([l for l in p.stdout.splitlines() if l.endswith(" nodes")])
        cov["bench_node_totals"] = totals
        if any(t != totals[0] for t in totals) or not totals[0]:
            rp = C.write_replay(prop, {"kind": "bench node total differs between runs (or bench printed no node total)", "totals": totals,
                                       "replay_cmd": "%s bench | grep nodes; %s bench | grep nodes" % (C.ENGINE, C.ENGINE)})
            violations.append({"replay": rp})
    freeze_thread.join(timeout=600)
    if frozen.get("sigs") and len(frozen["sigs"]) == 2 and frozen["sigs"][0] and frozen["sigs"][1]:
        a_, b_ = frozen["sigs"]
        cov["frozen_process_run"] = {"frozen_s": frozen.get("frozen_s"), "info_lines": len(a_) - 1, "last": a_[-2:] and [str(x)[:80] for x in a_[-2:]]}
        if a_ != b_:
            k_ = next((i for i in range(min(len(a_), len(b_))) if a_[i] != b_[i]), min(len(a_), len(b_)))
            rp = C.write_replay(prop, {"kind": "`go depth 8` from the start position gives different results in a process that was frozen (SIGSTOP) for %s s in mid-search: the "
                                               "result depends on elapsed wall time" % frozen.get("frozen_s"),
                                       "undisturbed": [str(x)[:160] for x in a_[max(0, k_ - 1):k_ + 2]], "frozen": [str(x)[:160] for x in b_[max(0, k_ - 1):k_ + 2]],
                                       "replay_cmd": "(printf 'position startpos\\ngo depth 8\\n'; sleep 200) | %s & sleep 0.3; kill -STOP $!; sleep %s; kill -CONT $!   # compare the nodes of each depth with an undisturbed run" % (C.ENGINE, frozen.get("frozen_s"))})
            violations.append({"replay": rp})
    else:
        rp = C.write_replay(prop, {"broken": "frozen-process leg did not complete", "detail": str(frozen)[:500]})
        violations.append({"replay": rp, "no_input": True})
    cov["rule"] = ("fixed depth 1..3(4) from a fresh cache and sequences of searches sharing the cache: EXACT equality of "
                   "best move, score, node count, seldepth, info lines and the complete cache-write trace with the Coq model; "
                   "the same with NO time limit while the clock is made to jump by 10^10 ms in mid-search (guarded clock-skew hook): nothing may change; "
                   "plus repeated runs in one process, in separate processes and under 16-way CPU load (runtime evidence)")
    return SP.finish(prop, gate, violations, cov)


replay = SP.replay
