"""C04 — see DESIGN.md section 5."""
from props import boardprop

FIELDS = ("state.zkey","state.scratch_key","engine.key!=scratch","engine.successor_key!=scratch","make.digest")
PREFIXES = ()
HAS_PROOFS = True


def run(ctx):
    return boardprop.run(ctx, "C04", FIELDS, PREFIXES, "incremental key differs from the from-scratch key / from the model key", has_proofs=HAS_PROOFS)


def replay(ctx, payload):
    return boardprop.replay(ctx, payload)
