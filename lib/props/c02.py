"""C02 — see DESIGN.md section 5."""
from props import boardprop

FIELDS = ("unmake.restored","unmake.nested","engine.unmake_not_restored","engine.nested_not_restored","engine.query_not_pure","spec.wf")
PREFIXES = ()
HAS_PROOFS = True


def run(ctx):
    return boardprop.run(ctx, "C02", FIELDS, PREFIXES, "unmake does not restore the position", has_proofs=HAS_PROOFS)


def replay(ctx, payload):
    return boardprop.replay(ctx, payload)
