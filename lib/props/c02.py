"""C02 — see DESIGN.md section 5."""
import json
import common as C
import boardcorr as B
from props import boardprop
FIELDS = ("unmake.restored","unmake.nested","engine.unmake_not_restored","engine.nested_not_restored","engine.query_not_pure","spec.wf")
PREFIXES = ()
HAS_PROOFS = True
START = "rnbqkbnr/pppppppp/8/8/8/8/PPPPPPPP/RNBQKBNR w KQkq - 0 1"


def run(ctx):
    res = boardprop.run(ctx, "C02", FIELDS, PREFIXES, "unmake does not restore the position", has_proofs=HAS_PROOFS)
    if res["coverage"].get("evaluations", 0) == 0:
        return res
    # ---- very long games on the engine alone (no model evaluation needed: `Board == snapshot` after every make/unmake and after
    # every query is judged by the engine's own derived equality): positions that recur HUNDREDS of times — the count of a remembered
    # position crosses 255 / 256 (seeded change r7C02: an 8-bit count that saturates on make but is decremented on unmake)
    n = 275 if ctx["tier"] == "quick" else 700
    games = [(START, ["g1f3", "g8f6", "f3g1", "f6g8"] * n),
             ("4k3/8/8/8/8/8/8/R3K2R w KQ - 0 1", ["a1b1", "e8d8", "b1a1", "d8e8"] * n),
             ("7k/8/8/8/8/8/8/KR6 b - - 0 1", ["h8g8", "b1b2", "g8h8", "b2b1"] * (n // 2) + ["h8h7", "b1c1", "h7h8", "c1b1"] * (n // 2))]
    rc, so, se = C.driver(["walk"], "".join("%s | %s\n" % (f, " ".join(ms)) for f, ms in games), timeout=1800)
    lines = so.splitlines()
    if rc != 0 or len(lines) != len(games):
        rp = C.write_replay("C02", {"broken": "long-game leg (driver walk) did not complete", "stderr": (se or "")[-500:]})
        res["violations"].append({"replay": rp, "no_input": True})
        return res
    nodes = 0
    for (f, ms), l in zip(games, lines):
        eng = json.loads(l)
        case = {"kind": "long-game", "fen": f, "moves": ms, "deep": False}
        nodes += 0 if eng.get("panic") else len(eng["nodes"])
        bad = B.engine_self_checks(case, eng)
        if eng.get("stuck"):
            # a move of the committed shuffle was refused: nothing about unmake can be judged beyond that point (a defect of the game
            # list or of move acceptance, which is C08's matter): reported as a broken leg, not as a failing input of C02
            rp = C.write_replay("C02", {"broken": "long-game leg: the move %s of a committed shuffle game was refused" % eng["stuck"], "fen": f})
            res["violations"].append({"replay": rp, "no_input": True})
        if bad:
            d = bad[0]
            k = max(d.get("node", 0), 0)
            rp = C.write_replay("C02", {"kind": "long game on the engine alone: after a make/unmake (or a mere query) the board differs from its snapshot",
                                        "divergence": d, "after_plies": k, "position_recurred_about": k // 4,
                                        "case": {"fen": f, "moves": ms[:k], "kind": "long-game"},
                                        "replay_cmd": "printf '%s | %s\\n' | %s verif walk | python3 -c \"import sys,json; d=json.loads(sys.stdin.read()); print([ (i,n[5]) for i,n in enumerate(d['nodes']) if n[5][0]!=1 or any(m[2]!=1 for m in n[1])][:3])\"" % (
                                            f, " ".join(ms[:k + 1]), C.ENGINE)})
            res["violations"].append({"replay": rp})
    res["coverage"]["long_game_nodes_engine_only"] = nodes
    return res


def replay(ctx, payload):
    return boardprop.replay(ctx, payload)
