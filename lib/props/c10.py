"""C10 — stop is never lost and go is never dropped, under any timing."""
import time
import common as C
import uciproc
from props import searchprop as SP

HEADER = ("From Coq Require Import List Arith.\nImport ListNotations.\nFrom RCE Require Import model.Threads.\n")

# Each class: env (schedule-point sleeps in ms), script (list of (delay_s, line) or ("wait", pattern)),
# the protocol-level command list and schedule for the Coq model, and what must be observed.
I = "LInput"


def T(k, fin=False):
    return "LThread %d %s" % (k, "true" if fin else "false")


def full(k, fin=False):
    """thread k from Spawned to Exited (flag already false, or finishing by itself)"""
    return [T(k, fin)] * 5


CLASSES = [
    {"name": "stop-before-search-entry", "env": {"SEARCH_ENTRY": 400},
     "script": [(0, "go infinite"), (0.1, "stop")],
     "cmds": ["CmdGo", "CmdStop"], "sched": [I, I] + full(0), "need_points": ["SEARCH_ENTRY"]},
    {"name": "stop-right-after-entry", "env": {"SEARCH_ARMED": 400},
     "script": [(0, "go infinite"), (0.1, "stop")],
     "cmds": ["CmdGo", "CmdStop"], "sched": [I, T(0), I] + full(0), "need_points": ["SEARCH_ARMED"]},
    {"name": "stop-while-input-thread-still-in-go", "env": {"AFTER_SPAWN": 300},
     "script": [(0, "go infinite"), (0.0, "stop")],
     "cmds": ["CmdGo", "CmdStop"], "sched": [I, T(0), T(0), I] + full(0), "need_points": ["AFTER_SPAWN"]},
    {"name": "stop-after-first-iteration", "env": {"FIRST_ITERATION": 400},
     "script": [(0, "go infinite"), (0.15, "stop")],
     "cmds": ["CmdGo", "CmdStop"], "sched": [I, T(0), T(0), I] + full(0), "need_points": ["FIRST_ITERATION"]},
    {"name": "stop-mid-search", "env": {},
     "script": [(0, "go infinite"), (0.4, "stop")],
     "cmds": ["CmdGo", "CmdStop"], "sched": [I, T(0), T(0), T(0), I] + full(0), "need_points": []},
    {"name": "stop-after-search-ended", "env": {},
     "script": [(0, "go depth 1"), ("wait", "bestmove"), (0.2, "stop"), (0, "isready")],
     "cmds": ["CmdGo", "CmdStop", "CmdIsReady"], "sched": [I] + full(0, True) + [I, I], "need_points": []},
    {"name": "go-between-clear-and-print", "env": {"BEFORE_BESTMOVE": 500},
     "script": [(0, "go depth 1"), (0.2, "go depth 1")],
     "cmds": ["CmdGo", "CmdGo"], "sched": [I, T(0, True), T(0, True), T(0, True), I, T(0), T(0), I] + full(1, True),
     "need_points": ["BEFORE_BESTMOVE"]},
    {"name": "go-right-after-bestmove-line", "env": {"AFTER_BESTMOVE": 500},
     "script": [(0, "go depth 1"), ("wait", "bestmove"), (0, "go depth 1")],
     "cmds": ["CmdGo", "CmdGo"], "sched": [I] + [T(0, True)] * 4 + [I, T(0), I] + full(1, True),
     "need_points": ["AFTER_BESTMOVE"]},
    # the same windows after searches that END BY THEMSELVES in other ways than a depth limit: the game clock, all 255 depths done
    {"name": "go-right-after-bestmove-of-a-clock-limited-search", "env": {"AFTER_BESTMOVE": 500},
     "script": [(0, "go wtime 40 btime 40"), ("wait", "bestmove"), (0, "go depth 1")],
     "cmds": ["CmdGo", "CmdGo"], "sched": [I] + [T(0, True)] * 4 + [I, T(0), I] + full(1, True),
     "need_points": ["AFTER_BESTMOVE"]},
    {"name": "go-right-after-bestmove-of-a-search-that-ran-out-of-depths", "env": {"AFTER_BESTMOVE": 500},
     "script": [(0, "position fen 6k1/5ppp/8/8/8/8/8/R5K1 w - - 0 1"), (0, "go infinite"), ("wait", "bestmove"), (0, "go depth 1")],
     "cmds": ["CmdPosition", "CmdGo", "CmdGo"], "sched": [I, I] + [T(0, True)] * 4 + [I, T(0), I] + full(1, True),
     "need_points": ["AFTER_BESTMOVE"]},
    {"name": "go-before-bestmove-of-a-clock-limited-search", "env": {"BEFORE_BESTMOVE": 500},
     "script": [(0, "go wtime 40 btime 40"), (0.25, "go depth 1")],
     "cmds": ["CmdGo", "CmdGo"], "sched": [I, T(0, True), T(0, True), T(0, True), I, T(0), T(0), I] + full(1, True),
     "need_points": ["BEFORE_BESTMOVE"]},
    {"name": "go-while-thread-is-exiting", "env": {"THREAD_EXIT": 500},
     "script": [(0, "go depth 1"), ("wait", "bestmove"), (0.05, "go depth 1")],
     "cmds": ["CmdGo", "CmdGo"], "sched": [I] + [T(0, True)] * 4 + [I, T(0), I] + full(1, True),
     "need_points": ["THREAD_EXIT"]},
    # the old thread takes SECONDS to wind down (a full stdout pipe, a starved process): the go still has to be answered, however long
    # it waits (seeded change r7C10: a 5 s hand-over timeout after which the go is dropped with a stderr message)
    {"name": "go-while-thread-winds-down-for-seconds", "env": {"THREAD_EXIT": 6500},
     "script": [(0, "go depth 1"), ("wait", "bestmove"), (0.05, "go depth 1")],
     "cmds": ["CmdGo", "CmdGo"], "sched": [I] + [T(0, True)] * 4 + [I, T(0), I] + full(1, True),
     "need_points": ["THREAD_EXIT"]},
    {"name": "go-while-searching-is-refused-loudly", "env": {},
     "script": [(0, "go infinite"), (0.2, "go depth 1"), (0.2, "stop")],
     "cmds": ["CmdGo", "CmdGo", "CmdStop"], "sched": [I, T(0), T(0), I, I] + full(0), "need_points": []},
    {"name": "stop-then-go-at-once", "env": {},
     "script": [(0, "go infinite"), (0.2, "stop"), (0, "go depth 1")],
     "cmds": ["CmdGo", "CmdStop", "CmdGo"], "sched": [I, T(0), T(0), I, I] + full(0) + [I] + full(1, True),
     "need_points": []},
    {"name": "position-and-isready-during-search", "env": {},
     "script": [(0, "go infinite"), (0.1, "position startpos moves e2e4"), (0, "isready"), (0.2, "stop")],
     "cmds": ["CmdGo", "CmdPosition", "CmdIsReady", "CmdStop"], "sched": [I, T(0), T(0), I, I, I] + full(0),
     "need_points": []},
    {"name": "three-searches-back-to-back", "env": {"AFTER_BESTMOVE": 150},
     "script": [(0, "go depth 1"), ("wait", "bestmove"), (0, "go depth 2"), ("wait2", "bestmove"), (0, "go depth 1")],
     "cmds": ["CmdGo", "CmdGo", "CmdGo"],
     "sched": [I] + [T(0, True)] * 4 + [I, T(0), I] + [T(1, True)] * 4 + [I, T(1), I] + full(2, True),
     "need_points": ["AFTER_BESTMOVE"]},
]


def slow_classes(rng, n):
    """Command histories played SLOWLY (every finite search has long ended before the next line, an infinite one is
    still running): the interleaving is then determined, so the protocol model can be run on it and must agree on
    the number of bestmoves and of refused go's.  Covers what the forced classes do not: go after a refused go,
    several refused go's, stop/go alternations of any length."""
    fixed = [["gi", "gd", "gd", "stop"], ["gi", "gd", "stop", "gd"], ["gd", "gi", "gi", "isready", "stop", "gi", "gd", "stop"],
             ["gi", "stop", "stop", "gd", "gi", "gd", "gd", "stop", "gd"]]
    words = ["gi", "gd", "gd", "stop", "isready", "position"]
    out = []
    for hist in fixed + [[rng.choice(words) for _ in range(rng.randrange(3, 9))] for _ in range(n)]:
        hist = list(hist) + ["stop"]          # nothing is left running at the end
        line = {"gi": "go infinite", "gd": "go depth 1", "stop": "stop", "isready": "isready", "position": "position startpos moves e2e4"}
        cmd = {"gi": "CmdGo", "gd": "CmdGo", "stop": "CmdStop", "isready": "CmdIsReady", "position": "CmdPosition"}
        # which go's start a thread, and whether that thread ends by itself (only needed to label the schedule)
        kinds, latest = [], None               # latest = [is_infinite, stopped]
        for w in hist:
            if w in ("gi", "gd"):
                if latest is not None and latest[0] and not latest[1]:
                    continue                   # refused
                latest = [w == "gi", False]
                kinds.append(w == "gi")
            elif w == "stop" and latest is not None:
                latest[1] = True
        sched = []
        for _ in hist:
            sched.append(I)
            for k, inf in enumerate(kinds):
                sched += [T(k, not inf)] * 5   # labels of threads not yet spawned / already exited are skipped by `run`
        out.append({"name": "slow-history:" + " ".join(hist), "env": {}, "script": [(0.25, line[w]) for w in hist],
                    "cmds": [cmd[w] for w in hist], "sched": sched, "need_points": [], "settle": 0.5})
    return out


def run_class(c, reps):
    """returns list of observations (bestmoves, busy, readyok, fired ok, last answer latency)"""
    obs = []
    for _ in range(reps):
        env = {"RCE_VERIF_SLEEP_" + k: str(v) for k, v in c["env"].items()}
        e = uciproc.Engine(env=env)
        seen_bm = 0
        try:
            for step in c["script"]:
                if step[0] in ("wait", "wait2"):
                    want = seen_bm + 1
                    deadline = time.time() + 20
                    while time.time() < deadline and e.count("bestmove") < want:
                        time.sleep(0.005)
                    seen_bm = e.count("bestmove")
                else:
                    time.sleep(step[0])
                    e.send(step[1])
            ngo = sum(1 for s in c["script"] if s[0] not in ("wait", "wait2") and s[1].startswith("go"))
            # let everything settle: all accepted searches must answer
            t_last = time.time()
            deadline = time.time() + 15
            while time.time() < deadline:
                time.sleep(0.05)
                busy = sum(1 for l in e.err_lines() if "already running" in l)
                if e.count("bestmove") >= ngo - busy and time.time() - t_last > c.get("settle", 1.2):
                    break
            b2 = len(e.lines())
            e.send("isready")
            ready = e.wait_for(lambda l: l == "readyok", 5, start=b2) is not None
            fired = all(any(("verif-point %s begin" % p) in l for l in e.err_lines()) for p in c["need_points"])
            obs.append({"bestmoves": e.count("bestmove"),
                        "busy": sum(1 for l in e.err_lines() if "already running" in l),
                        "readyok": e.count("readyok"), "alive_ready": ready, "fired": fired,
                        "panic": any("panicked" in l for l in e.err_lines())})
        finally:
            rc, t = e.finish()
            if rc is None:
                e.kill()
    return obs


def run(ctx):
    prop = "C10"
    gate, err = SP.prepare(prop, extra_targets=["model/Threads.vo"])
    if err:
        return err
    violations, cov = [], {"samples": []}
    reps = 1 if ctx["tier"] == "quick" else 5
    import random
    classes = CLASSES + slow_classes(random.Random(ctx["seed"] + 10), 6 if ctx["tier"] == "quick" else 60)
    # model outcomes of the catalogued schedules
    items = []
    for c in classes:
        items.append("let s := run fixed (init [%s]) [%s] in (total_bestmoves s, total_busy s, total_accepted s, all_exited s, length (pending s))"
                     % ("; ".join(c["cmds"]), "; ".join(c["sched"])))
    vals, lg = C.coq_eval_items("c10m", HEADER, items, lambda l: l, nshards=2, timeout=300)
    if vals is None:
        rp = C.write_replay(prop, {"broken": "model schedule evaluation", "log": lg[-2000:]})
        violations.append({"replay": rp, "no_input": True})
        vals = [None] * len(classes)
    runs = 0
    discarded = 0
    for c, mv in zip(classes, vals):
        obs = run_class(c, reps)
        for o in obs:
            runs += 1
            if not o["fired"]:
                discarded += 1       # the intended order did not materialise: not judged
                continue
            problem = None
            if mv is not None:
                m_bm, m_busy, m_acc, m_exited, m_pending = mv
                if m_exited is not True or m_pending != 0:
                    problem = "catalogue error: the model schedule does not run to completion"
                elif (o["bestmoves"], o["busy"]) != (m_bm, m_busy):
                    problem = "engine: %d bestmove(s), %d refused go(s); protocol model: %d, %d" % (
                        o["bestmoves"], o["busy"], m_bm, m_busy)
            if o["panic"]:
                problem = "a thread panicked"
            if not o["alive_ready"]:
                problem = (problem or "") + " engine does not answer isready afterwards"
            if problem:
                rp = C.write_replay(prop, {"kind": "forced schedule on the real binary", "class": c["name"],
                                           "env": c["env"], "script": c["script"], "observed": o, "problem": problem})
                violations.append({"replay": rp})
                break
        cov["samples"].append({"class": c["name"], "observed": obs[0], "model": mv})
    cov["schedule_classes"] = len(classes)
    cov["schedule_runs"] = runs
    cov["schedule_runs_discarded_order_not_materialised"] = discarded
    cov["evaluations"] = runs
    cov["distinct_nontrivial"] = len(classes)
    cov["rule"] = ("%d catalogued interleavings of {go, stop, position, isready, go} with the search thread's events (before/after "
                   "search entry, after the first iteration, between flag-clear and bestmove, after the bestmove line, during "
                   "thread exit), each forced on the real binary through guarded schedule points (sleeps >= 150 ms, firing logged; "
                   "runs whose order did not materialise are discarded) and compared (bestmove count, refused go count, liveness) "
                   "with the Coq protocol model run on the corresponding schedule; plus slowly played command histories (go infinite / go depth 1 / "
                   "stop / isready / position in any order and number, every finite search over before the next line) whose interleaving is "
                   "determined: bestmove count and refused-go count vs the model" % len(CLASSES))
    return SP.finish(prop, gate, violations, cov)


def replay(ctx, payload):
    print(payload)
    return 1
