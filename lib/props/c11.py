"""C11 — pruning, ordering and re-searches never change the result (cache neutralised)."""
import common as C
import searchcorr as S
import boardcorr as B
from props import searchprop as SP


def run(ctx):
    prop = "C11"
    gate, err = SP.prepare(prop, extra_targets=["props/C11chess.vo"])
    if err:
        return err
    violations, cov = [], {"samples": []}

    def relevant(case, dv):
        # the claim is about the value with caching neutralised: specs ending in x
        return dv["field"] in ("best_move", "score", "engine-panic", "model-setup", "engine-setup-panic") and \
            (dv.get("spec") or "x").endswith("x")
    r = SP.corr(ctx, prop, ("value", "material"), relevant, "cache-off search result differs from the model (which equals the negamax value V by theorem C11_search)", violations, cov)
    # reference value V evaluated in Coq directly against the engine's results (validates the
    # theorem's statement on real positions and is the witness search if anything above broke)
    if r is not None:
        items, idx = [], []
        for i, (case, eng) in enumerate(zip(r["cases"], r["engine"])):
            if case["group"] != "value" or not case["specs"][0].endswith("x"):
                continue
            d = S.parse_spec(case["specs"][0])[0]
            pieces = sum(1 for ch in case["fen"].split()[0] if ch.isalpha())
            # the reference is exponential (full width + quiescence): keep it affordable
            if pieces > 12 or d > (3 if pieces <= 4 else 2 if pieces <= 7 else 1):
                continue
            items.append("vroot_case %s [%s] %d%%nat" % (B.coq_str(case["fen"]), "; ".join(B.coq_str(m) for m in case["moves"]), d))
            idx.append(i)
        vals, lg = C.coq_eval_items("c11v", S.HEADER, items, lambda l: l, nshards=C.NPROC * 2, timeout=600)
        if vals is None:
            rp = C.write_replay(prop, {"broken": "reference value evaluation", "log": lg[-2000:]})
            violations.append({"replay": rp, "no_input": True})
        else:
            nref = 0
            for i, v in zip(idx, vals):
                v = B.norm(v)
                case, er = r["cases"][i], r["engine"][i]["results"][0]
                if v is None or er.get("panic"):
                    continue
                vroot, mvals = v[1]
                if vroot is None:
                    continue
                nref += 1
                want = S.dec_z(vroot[1])
                mv = {tuple(m[0]): S.dec_z(m[1]) for m in mvals}
                problems = []
                if er["score"] != want:
                    problems.append("root score %s but negamax value %s" % (er["score"], want))
                if er["best"] is not None and mv.get(tuple(er["best"])) != want:
                    problems.append("chosen move %s has value %s, position value %s" % (er["best"], mv.get(tuple(er["best"])), want))
                if problems:
                    rp = C.write_replay(prop, {"kind": "engine result differs from the exact negamax value of its look-ahead game",
                                               "case": case, "problems": problems,
                                               "replay_cmd": "printf '%s | %s | %s\\n' | %s verif search" % (
                                                   case["fen"], " ".join(case["moves"]), ";".join(case["specs"]), C.ENGINE)})
                    violations.append({"replay": rp})
            cov["reference_values_compared"] = nref
    cov["rule"] = ("20 positions (start, openings after moves, endgames, mates, stalemate, promotion, en passant, "
                   "repetition history, fifty-move edge) x depths 1..3(4) with the cache switched off by the guarded hook: "
                   "engine root move/score vs the Coq model; and vs the reference negamax V evaluated in Coq")
    return SP.finish(prop, gate, violations, cov)


replay = SP.replay
