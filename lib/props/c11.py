"""C11 — pruning, ordering and re-searches never change the result (cache neutralised)."""
import json
import common as C
import positions as P
import searchcorr as S
import boardcorr as B
from props import searchprop as SP


def run(ctx):
    prop = "C11"
    gate, err = SP.prepare(prop, extra_targets=["props/C11chess.vo"])
    if err:
        return err
    violations, cov = [], {"samples": []}

    def relevant(case, dv):
        # the claim is about the value with caching neutralised: specs ending in x
        return dv["field"] in ("best_move", "score", "engine-panic", "model-setup", "engine-setup-panic") and \
            (dv.get("spec") or "x").endswith("x")
    def internal(case, dv):
        # the root VALUE is fixed by the property (model = V by C11_search); which of several moves attaining it is chosen is not:
        # the chosen move is judged against V itself below
        return dv["field"] in ("best_move", "model-setup")
    r = SP.corr(ctx, prop, ("value", "material"), relevant, "cache-off search result differs from the model (which equals the negamax value V by theorem C11_search)", violations, cov,
                internal=internal)
    # reference value V evaluated in Coq directly against the engine's results (validates the
    # theorem's statement on real positions and is the witness search if anything above broke)
    if r is not None:
        items, idx = [], []
        for i, (case, eng) in enumerate(zip(r["cases"], r["engine"])):
            if case["group"] != "value" or not case["specs"][0].endswith("x"):
                continue
            d = S.parse_spec(case["specs"][0])[0]
            pieces = sum(1 for ch in case["fen"].split()[0] if ch.isalpha())
            # the reference is exponential (full width + quiescence): keep it affordable
            if pieces > 12 or d > (3 if pieces <= 4 else 2 if pieces <= 7 else 1):
                continue
            items.append("vroot_case %s [%s] %d%%nat" % (B.coq_str(case["fen"]), "; ".join(B.coq_str(m) for m in case["moves"]), d))
            idx.append(i)
        vals, lg = C.coq_eval_items("c11v", S.HEADER, items, lambda l: l, nshards=C.NPROC * 2, timeout=600)
        if vals is None:
            rp = C.write_replay(prop, {"broken": "reference value evaluation", "log": lg[-2000:]})
            violations.append({"replay": rp, "no_input": True})
        else:
            nref = 0
            for i, v in zip(idx, vals):
                v = B.norm(v)
                case, er = r["cases"][i], r["engine"][i]["results"][0]
                if v is None or er.get("panic"):
                    continue
                vroot, mvals = v[1]
                if vroot is None:
                    continue
                nref += 1
                want = S.dec_z(vroot[1])
                mv = {tuple(m[0]): S.dec_z(m[1]) for m in mvals}
                problems = []
                if er["score"] != want:
                    problems.append("root score %s but negamax value %s" % (er["score"], want))
                if er["best"] is not None and mv.get(tuple(er["best"])) != want:
                    problems.append("chosen move %s has value %s, position value %s" % (er["best"], mv.get(tuple(er["best"])), want))
                if problems:
                    rp = C.write_replay(prop, {"kind": "engine result differs from the exact negamax value of its look-ahead game",
                                               "case": case, "problems": problems,
                                               "replay_cmd": "printf '%s | %s | %s\\n' | %s verif search" % (
                                                   case["fen"], " ".join(case["moves"]), ";".join(case["specs"]), C.ENGINE)})
                    violations.append({"replay": rp})
            cov["reference_values_compared"] = nref
            # the driver's own reference negamax (plain recursion over the engine's board API) against the Coq value of the
            # same cases: validates that reference, which the deep leg below relies on
            rinp = "".join("%s | %s | %d\n" % (r["cases"][i]["fen"], " ".join(r["cases"][i]["moves"]), S.parse_spec(r["cases"][i]["specs"][0])[0]) for i in idx)
            rc, so, se = C.driver(["refvalue"], rinp, timeout=900)
            rl = [json.loads(l) for l in so.splitlines()]
            nrv = 0
            if rc == 0 and len(rl) == len(idx):
                for i, v, rv in zip(idx, vals, rl):
                    v = B.norm(v)
                    if v is None or v[1][0] is None or rv.get("panic"):
                        continue
                    nrv += 1
                    want = S.dec_z(v[1][0][1])
                    mvc = sorted((tuple(m[0][:2]), S.dec_z(m[1])) for m in v[1][1])
                    mvr = sorted((tuple(m[0][:2]), m[1]) for m in rv["moves"])
                    if rv["vroot"] != want or [x[1] for x in mvc] != [x[1] for x in mvr]:
                        rp = C.write_replay(prop, {"broken": "the driver's reference negamax disagrees with the Coq value V", "case": r["cases"][i],
                                                   "coq": [want, mvc[:6]], "driver": [rv["vroot"], mvr[:6]]})
                        violations.append({"replay": rp, "no_input": True})
                        break
            cov["driver_reference_validated_against_coq"] = nrv
    # ---- deep leg: depths the Coq evaluation cannot afford.  Engine (cache off) vs the driver's reference at depth 5-6 on sparse
    # heavy-piece positions (long forcing lines, check extensions far from the root); the alpha-beta form of the reference is
    # cross-checked against the plain recursion at depth 3 on the same positions
    deep_pos = ["8/8/2Q5/5k2/2q5/7Q/8/3K4 b - - 0 1", "8/8/8/4k3/8/2Q5/1R6/K7 w - - 0 1", "6k1/5ppp/8/8/8/8/5PPP/R5K1 w - - 0 1",
                "3r2k1/5ppp/8/8/8/8/5PPP/3RR1K1 w - - 0 1", "8/5k2/8/8/8/2q5/Q7/1K6 b - - 0 1", "7k/6pp/8/8/8/8/1Q4PP/6RK w - - 0 1",
                "k7/8/1K6/8/8/8/8/1R5q w - - 0 1", "8/8/8/8/5k2/8/4Q1K1/7r w - - 0 1", "4r1k1/5ppp/8/8/8/8/Q4PPP/6K1 w - - 0 1",
                "8/1k6/8/8/8/8/1Q2R3/K6q b - - 0 1", "2q3k1/6pp/8/8/8/8/5PPP/1Q3RK1 w - - 0 1", "r5k1/5ppp/8/8/8/8/R4PPP/R5K1 b - - 0 1"]
    deep_pos += [f for _, f in P.material_families(ctx["seed"] % 3, 1) if any(c in f.split()[0] for c in "QqRr")][:10]
    dd = 6 if ctx["tier"] == "quick" else 7
    import subprocess
    from concurrent.futures import ThreadPoolExecutor

    def ref(arg):
        fen, dtxt = arg
        try:
            pr = subprocess.run([C.ENGINE, "verif", "refvalue"], input="%s |  | %s\n" % (fen, dtxt), capture_output=True, text=True, timeout=75 if ctx["tier"] == "quick" else 900)
            return json.loads(pr.stdout.splitlines()[0])
        except Exception:
            return None
    with ThreadPoolExecutor(max_workers=C.NPROC) as ex:
        ref_deep = list(ex.map(ref, [(f, "%da" % dd) for f in deep_pos]))
        ref_ab3 = list(ex.map(ref, [(f, "3a") for f in deep_pos]))
        ref_pl3 = list(ex.map(ref, [(f, "3") for f in deep_pos]))
    for f, a3, p3 in zip(deep_pos, ref_ab3, ref_pl3):
        if a3 is None or p3 is None or a3 != p3:
            rp = C.write_replay(prop, {"broken": "the alpha-beta form of the driver's reference disagrees with the plain recursion at depth 3", "fen": f,
                                       "alpha_beta": a3, "plain": p3})
            violations.append({"replay": rp, "no_input": True})
            break
    dcases = [{"group": "deep", "fen": f, "moves": [], "specs": ["d%dxq" % dd]} for f in deep_pos]
    deng = S.run_engine(dcases)
    ndeep = 0
    for f, rv, e in zip(deep_pos, ref_deep, deng):
        er = e["results"][0] if e["results"] else None
        if rv is None or rv.get("panic") or rv.get("vroot") is None or er is None:
            continue            # reference too slow for this position within the time allowed (or no legal move): not judged
        ndeep += 1
        mv = {tuple(m[0][:2]) + (m[0][4],): m[1] for m in rv["moves"]}
        problems = []
        if er.get("panic"):
            problems.append("engine panic")
        else:
            if er["score"] != rv["vroot"]:
                problems.append("root score %s but negamax value %s" % (er["score"], rv["vroot"]))
            if er["best"] is not None and mv.get((er["best"][0], er["best"][1], er["best"][4])) != rv["vroot"]:
                problems.append("chosen move %s has value %s, position value %s" % (er["best"], mv.get((er["best"][0], er["best"][1], er["best"][4])), rv["vroot"]))
        if problems:
            rp = C.write_replay(prop, {"kind": "engine result at depth %d (cache off) differs from the exact negamax value of its look-ahead game (driver reference)" % dd,
                                       "fen": f, "problems": problems,
                                       "replay_cmd": "printf '%s |  | d%dx\\n' | %s verif search | grep RESULT | cut -c1-200; printf '%s |  | %da\\n' | %s verif refvalue | cut -c1-300" % (
                                           f, dd, C.ENGINE, f, dd, C.ENGINE)})
            violations.append({"replay": rp})
    # ---- deeper still on pawn endings (a handful of legal moves per node): depth 8..12, where the value JUMPS between iterations as a
    # promotion enters the horizon (seeded change r8C11: aspiration windows from iteration 8 on with a fail-high accepted as the value)
    pawn_pos = ["7k/8/8/8/8/P7/8/7K w - - 0 1", "8/8/8/8/8/k7/p7/K7 b - - 0 1", "8/5k2/8/8/8/8/1P6/1K6 w - - 0 1", "8/8/4k3/8/8/4P3/8/4K3 w - - 0 1",
                "k7/7p/8/8/8/8/8/K7 b - - 0 1", "8/8/8/8/4p3/8/4K3/4k3 b - - 0 1", "8/2k5/8/8/8/8/5P1P/6K1 w - - 0 1", "6k1/8/8/8/8/8/P6p/K7 w - - 0 1"]
    pd = [8, 9, 10, 11, 12] if ctx["tier"] == "quick" else [8, 9, 10, 11, 12, 13, 14]
    pjobs = [(f, d) for f in pawn_pos for d in pd]
    with ThreadPoolExecutor(max_workers=C.NPROC) as ex:
        pref = list(ex.map(ref, [(f, "%da" % d) for f, d in pjobs]))
    # (q: the cache-write trace is not recorded — a run-away search must not exhaust memory; each engine run is bounded in time)
    def _peng(job):
        try:
            return S.run_engine([{"group": "deep", "fen": job[0], "moves": [], "specs": ["d%dxq" % job[1]]}], timeout=60)[0]
        except Exception:
            return {"results": []}
    with ThreadPoolExecutor(max_workers=C.NPROC) as ex:
        peng = list(ex.map(_peng, pjobs))
    npawn = 0
    for (f, d), rv, e in zip(pjobs, pref, peng):
        er = e["results"][0] if e["results"] else None
        if rv is None or rv.get("panic") or rv.get("vroot") is None or er is None:
            continue
        npawn += 1
        mv = {tuple(m[0][:2]) + (m[0][4],): m[1] for m in rv["moves"]}
        problems = []
        if er.get("panic"):
            problems.append("engine panic")
        else:
            if er["score"] != rv["vroot"]:
                problems.append("root score %s but negamax value %s" % (er["score"], rv["vroot"]))
            if er["best"] is not None and mv.get((er["best"][0], er["best"][1], er["best"][4])) != rv["vroot"]:
                problems.append("chosen move %s has value %s, position value %s" % (er["best"], mv.get((er["best"][0], er["best"][1], er["best"][4])), rv["vroot"]))
        if problems:
            rp = C.write_replay(prop, {"kind": "engine result at depth %d (cache off) on a pawn ending differs from the exact negamax value of its look-ahead game (driver reference)" % d,
                                       "fen": f, "problems": problems,
                                       "replay_cmd": "printf '%s |  | d%dx\\n' | %s verif search | grep RESULT | cut -c1-200; printf '%s |  | %da\\n' | %s verif refvalue | cut -c1-300" % (
                                           f, d, C.ENGINE, f, d, C.ENGINE)})
            violations.append({"replay": rp})
            break
    cov["pawn_ending_deep_searches_judged"] = npawn
    cov["deep_reference_positions_judged"] = ndeep
    cov["deep_reference_depth"] = dd
    cov["rule"] = ("20 positions (start, openings after moves, endgames, mates, stalemate, promotion, en passant, "
                   "repetition history, fifty-move edge) x depths 1..3(4) with the cache switched off by the guarded hook: "
                   "engine root move/score vs the Coq model; and vs the reference negamax V evaluated in Coq; all small material signatures at depth 2; "
                   "deep leg: engine at depth 6 (7 in thorough) with the cache off vs a reference negamax written in the driver over the engine's board API "
                   "(validated against the Coq value at small depth on every run) on sparse heavy-piece positions")
    return SP.finish(prop, gate, violations, cov)


replay = SP.replay
