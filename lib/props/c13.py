"""C13 — an interrupted search leaves nothing misleading behind."""
from props import searchprop as SP


def engine_checks(case, eng):
    out = []
    for r in eng["results"]:
        # the real cache content must be exactly what the observed writes say (C13_cut_cache_is_a_full_run_cache on the engine): a
        # write path without an observer call, or an in-place update of an entry, shows up here (seeded change r9C13)
        if r.get("tt_diff", -1) > 0:
            out.append({"spec": r.get("spec"), "entries_differing": r["tt_diff"], "example": r.get("tt_diff_example"),
                        "why": "after the search the cache holds entries that no observed cache write accounts for"})
            continue
        # (k<K> is not an interruption: no limit is set and only the clock jumps; the run must stay complete)
        if case["group"] in ("cut", "cutx") and "k" not in r.get("spec", "") and r.get("cut", -1) >= 0 and len(r.get("writes", [])) > r["cut"]:
            out.append({"spec": r.get("spec"), "writes_before_cut": r["cut"], "writes_total": len(r["writes"]),
                        "first_write_after_cut": r["writes"][r["cut"]],
                        "why": "cache write made after the search had been interrupted (stop or clock at that leaf)"})
            continue
        for w in r.get("writes", []):
            budget, flag, nodes = w[6], w[7], w[5]
            if flag != 1 or (budget >= 0 and nodes >= budget):
                out.append({"spec": r.get("spec"), "write": w,
                            "why": "cache write with the running flag clear or the node budget already reached"})
                break
    return out


def run(ctx):
    prop = "C13"
    gate, err = SP.prepare(prop, extra_targets=["props/ChessInstances.vo"])
    if err:
        return err
    violations, cov = [], {"samples": []}

    def relevant(case, dv):
        return case["group"] in ("budget", "budget-probe", "cut", "cut-full") and dv["field"] in (
            "writes", "nodes", "engine-panic", "model-setup", "engine-setup-panic")
    def internal(case, dv):
        # what the property fixes is judged on the engine alone (no write after the cut, no write with the flag clear or over budget,
        # every interrupted trace a prefix of the uninterrupted one); the exact trace of the model is a correspondence
        return dv["field"] in ("writes", "nodes", "model-setup")
    r = SP.corr(ctx, prop, ("budget", "cut"), relevant, "cache writes of an interrupted search differ from the model", violations, cov,
            engine_checks=engine_checks, internal=internal)
    # C13_prefix on the engine itself: the writes of every interrupted run are an initial segment of the
    # writes of the same search left uninterrupted (key, score, depth, bound, move, node counter)
    if r:
        full = {}
        for c, e in zip(r["cases"], r["engine"]):
            if c["group"] in ("cut-full", "budget-probe", "cutx-probe", "cutd-probe") and e["results"] and not e["results"][0].get("panic"):
                full[(c["group"] != "budget-probe", c["fen"], tuple(c["moves"]), c["depth"])] = [w[:6] for w in e["results"][0]["writes"]]
        npre = nbad = 0
        for c, e in zip(r["cases"], r["engine"]):
            if c["group"] not in ("cut", "cutx", "budget") or not e["results"] or e["results"][0].get("panic"):
                continue
            d = c.get("depth") or SP.S.parse_spec(c["specs"][0])[0]
            f = full.get((c["group"] != "budget", c["fen"], tuple(c["moves"]), d))
            if f is None:
                continue
            w = [x[:6] for x in e["results"][0]["writes"]]
            npre += 1
            if w != f[:len(w)]:
                nbad += 1
                if nbad <= 2:
                    j = 0
                    while j < min(len(w), len(f)) and w[j] == f[j]:
                        j += 1
                    rp = SP.C.write_replay(prop, {
                        "kind": "the cache writes of an interrupted search are not an initial segment of the writes of the same search left uninterrupted (theorem C13_prefix; observed on the engine alone)",
                        "case": c, "first_difference_at_write": j, "interrupted": w[j] if j < len(w) else None,
                        "uninterrupted": f[j] if j < len(f) else None,
                        "replay_cmd": "printf '%s | %s | %s\\n' | %s verif search" % (c["fen"], " ".join(c["moves"]), ";".join(c["specs"]), SP.C.ENGINE)})
                    violations.append({"replay": rp})
        cov["prefix_checked_runs"] = npre
        cov["prefix_failures"] = nbad
    cov["rule"] = ("positions x EVERY node budget from 1 to the size of the full search (all of them at depth<=2, "
                   "strided above 150): the complete cache-write trace (key, score, depth, bound, move, node counter, flag) "
                   "is compared with the model's, and every engine write is checked to be made below the budget with the flag set; "
                   "plus interruptions by stop, by the game clock and by movetime forced at the K-th leaf evaluation (K over a Fibonacci-like grid): "
                   "the engine reports which flag load / clock reading first saw the interruption (guarded counters LOADS/READS, clock skew), the model "
                   "is run with exactly that oracle and the complete write traces, node counts and outputs are compared; no cache write may follow the "
                   "cut; and every interrupted trace must be an initial segment of the uninterrupted one (C13_prefix, on the engine itself); the last two "
                   "also EXHAUSTIVELY over the cut point (clock / stop / movetime at every K-th leaf, strided above 400 per position) on tactical positions "
                   "with checks at the horizon and captures pending")
    return SP.finish(prop, gate, violations, cov)


replay = SP.replay
