"""C13 — an interrupted search leaves nothing misleading behind."""
from props import searchprop as SP


def engine_checks(case, eng):
    out = []
    for r in eng["results"]:
        for w in r.get("writes", []):
            budget, flag, nodes = w[6], w[7], w[5]
            if flag != 1 or (budget >= 0 and nodes >= budget):
                out.append({"spec": r.get("spec"), "write": w,
                            "why": "cache write with the running flag clear or the node budget already reached"})
                break
    return out


def run(ctx):
    prop = "C13"
    gate, err = SP.prepare(prop)
    if err:
        return err
    violations, cov = [], {"samples": []}

    def relevant(case, dv):
        return case["group"] in ("budget", "budget-probe") and dv["field"] in (
            "writes", "nodes", "engine-panic", "model-setup", "engine-setup-panic")
    SP.corr(ctx, prop, ("budget",), relevant, "cache writes of an interrupted search differ from the model", violations, cov,
            engine_checks=engine_checks)
    cov["rule"] = ("positions x EVERY node budget from 1 to the size of the full search (all of them at depth<=2, "
                   "strided above 150): the complete cache-write trace (key, score, depth, bound, move, node counter, flag) "
                   "is compared with the model's, and every engine write is checked to be made below the budget with the flag set")
    return SP.finish(prop, gate, violations, cov)


replay = SP.replay
