"""C13 — an interrupted search leaves nothing misleading behind."""
from props import searchprop as SP


def engine_checks(case, eng):
    out = []
    for r in eng["results"]:
        if case["group"] == "cut" and r.get("cut", -1) >= 0 and len(r.get("writes", [])) > r["cut"]:
            out.append({"spec": r.get("spec"), "writes_before_cut": r["cut"], "writes_total": len(r["writes"]),
                        "first_write_after_cut": r["writes"][r["cut"]],
                        "why": "cache write made after the search had been interrupted (stop or clock at that leaf)"})
            continue
        for w in r.get("writes", []):
            budget, flag, nodes = w[6], w[7], w[5]
            if flag != 1 or (budget >= 0 and nodes >= budget):
                out.append({"spec": r.get("spec"), "write": w,
                            "why": "cache write with the running flag clear or the node budget already reached"})
                break
    return out


def run(ctx):
    prop = "C13"
    gate, err = SP.prepare(prop, extra_targets=["props/ChessInstances.vo"])
    if err:
        return err
    violations, cov = [], {"samples": []}

    def relevant(case, dv):
        return case["group"] in ("budget", "budget-probe") and dv["field"] in (
            "writes", "nodes", "engine-panic", "model-setup", "engine-setup-panic")
    SP.corr(ctx, prop, ("budget", "cut"), relevant, "cache writes of an interrupted search differ from the model", violations, cov,
            engine_checks=engine_checks)
    cov["rule"] = ("positions x EVERY node budget from 1 to the size of the full search (all of them at depth<=2, "
                   "strided above 150): the complete cache-write trace (key, score, depth, bound, move, node counter, flag) "
                   "is compared with the model's, and every engine write is checked to be made below the budget with the flag set; "
                   "plus interruptions by stop and by the game clock forced at the K-th leaf evaluation (K over a Fibonacci-like grid): no cache "
                   "write may follow the cut (observed on the engine)")
    return SP.finish(prop, gate, violations, cov)


replay = SP.replay
