#!/usr/bin/env python3
"""Confirm a seeded change and run our checks against it.
usage: seedtest.py <seed_out_dir> <name> <property> <check ids,comma> [--skip-confirm]
 1. confirm in the seed's scratch worktree (/tmp/seed_<P>): existing tests pass with the change; the demonstration fails with the
    change and passes without it (demo.patch = extra tests; demo.sh/demo.py = script taking the worktree path)
 2. copy patch.diff / demo / meta.json to /verif/seeded/<name>/
 3. apply patch.diff to /repo, run the listed checks, undo (git checkout -- .)"""
import json
import os
import re
import shutil
import subprocess
import sys
import time

VERIF = "/verif"
TGT = "/tmp/seedverify_target"


def sh(cmd, cwd=None, timeout=3600, env=None):
    e = dict(os.environ)
    e.update({"CARGO_NET_OFFLINE": "true", "CARGO_TARGET_DIR": TGT})
    if env:
        e.update(env)
    p = subprocess.run(cmd, shell=True, cwd=cwd, capture_output=True, text=True, timeout=timeout, env=e)
    return p.returncode, p.stdout + p.stderr


def tests(wt, flt=None):
    cmd = "cargo test --offline" if flt is None else "cargo test --offline %s -- --test-threads=1" % flt
    rc, out = sh(cmd + " 2>&1 | grep -E '^test result|FAILED|failed' | head -20", cwd=wt)
    m = re.search(r"test result: (\w+)\. (\d+) passed; (\d+) failed", out)
    return (m.group(1), int(m.group(2)), int(m.group(3))) if m else ("?", 0, -1), out


def main():
    out, name, prop, checks = sys.argv[1], sys.argv[2], sys.argv[3], sys.argv[4].split(",")
    skip = "--skip-confirm" in sys.argv
    sfx = "2" if name.endswith("b") else ""
    patch = os.path.join(out, "patch%s.diff" % sfx)
    demo_patch = os.path.join(out, "demo%s.patch" % sfx)
    wt = "/tmp/seedconfirm_wt"
    res = {"name": name, "property": prop}
    if not skip:
        subprocess.run("git -C /repo worktree remove --force %s 2>/dev/null; git -C /repo worktree add --detach %s HEAD" % (wt, wt),
                       shell=True, capture_output=True)
        try:
            rc, o = sh("git apply %s" % patch, cwd=wt)
            assert rc == 0, "patch does not apply: " + o
            res["tests_with_change"], _ = tests(wt)
            if os.path.exists(demo_patch):
                rc, o = sh("git apply %s" % demo_patch, cwd=wt)
                assert rc == 0, "demo patch does not apply: " + o
                mods = re.findall(r"^\+\s*(?:pub )?mod (\w+)", open(demo_patch).read(), re.M)
                flt = mods[0] if mods else None
                res["demo_filter"] = flt
                res["demo_with_change"], o1 = tests(wt, flt)
                rc, o = sh("git apply -R %s" % patch, cwd=wt)
                assert rc == 0, "cannot revert patch under demo: " + o
                res["demo_without_change"], o2 = tests(wt, flt)
            else:
                script = None
                for cand in ("demo%s.py" % sfx, "demo%s.sh" % sfx):
                    if os.path.exists(os.path.join(out, cand)):
                        script = os.path.join(out, cand)
                if script:
                    runner = "python3" if script.endswith(".py") else "bash"
                    binp = os.path.join(TGT, "release", "rust_chess_engine")
                    rc, o = sh("cargo build --release --offline 2>&1 | tail -2", cwd=wt)
                    rc1, o1 = sh("timeout 900 %s %s %s" % (runner, script, binp), cwd=wt)
                    res["demo_with_change"] = ["exit", rc1]
                    rc, o = sh("git apply -R %s" % patch, cwd=wt)
                    rc, o = sh("cargo build --release --offline 2>&1 | tail -2", cwd=wt)
                    rc2, o2 = sh("timeout 900 %s %s %s" % (runner, script, binp), cwd=wt)
                    res["demo_without_change"] = ["exit", rc2]
                else:
                    res["demo"] = "no runnable demo found"
        finally:
            subprocess.run("git -C /repo worktree remove --force %s" % wt, shell=True, capture_output=True)
    dst = os.path.join(VERIF, "seeded", name)
    os.makedirs(dst, exist_ok=True)
    shutil.copy(patch, os.path.join(dst, "patch.diff"))
    for fn in os.listdir(out):
        if fn.startswith("demo%s" % sfx) or fn in ("RUN.md",):
            if sfx == "" and re.match(r"demo\d", fn):
                continue
            shutil.copy(os.path.join(out, fn), os.path.join(dst, fn))
    meta = {}
    mp = os.path.join(out, "meta%s.json" % sfx)
    if os.path.exists(mp):
        try:
            meta = json.load(open(mp))
        except Exception:
            meta = {"raw": open(mp).read()}
    # run our checks against it
    st = subprocess.run("git -C /repo status --porcelain", shell=True, capture_output=True, text=True).stdout.strip()
    assert st == "", "/repo is not clean: " + st
    caught = {}
    # the checks rewrite evidence/<id>.json: keep the clean-tree evidence and put it back afterwards
    keep = {}
    for c in checks:
        ep = os.path.join(VERIF, "evidence", c + ".json")
        if os.path.exists(ep):
            keep[ep] = open(ep).read()
    try:
        rc, o = sh("git -C /repo apply %s" % patch)
        assert rc == 0, o
        for c in checks:
            t0 = time.time()
            p = subprocess.run(["./check", c], cwd=VERIF, capture_output=True, text=True, timeout=3600)
            viol = [l for l in p.stdout.splitlines() if l.startswith("VIOLATION")]
            caught[c] = {"exit": p.returncode, "violations": viol[:3], "wall_s": round(time.time() - t0, 1)}
            # keep the first replay as an example
            if viol:
                rp = re.search(r"replay=(\S+)", viol[0]).group(1)
                try:
                    shutil.copy(rp, os.path.join(dst, "replay_%s.json" % c))
                except OSError:
                    pass
    finally:
        subprocess.run("git -C /repo checkout -- .", shell=True)
        for ep, txt in keep.items():
            open(ep, "w").write(txt)
    res["checks"] = caught
    meta_out = {"breaks_property": prop, "agent_meta": meta, "confirmed_by_us": res,
                "what_we_ran": "cargo test with the change (existing suite), demo with and without the change in a scratch worktree; "
                               "then `git -C /repo apply patch.diff; ./check <id>; git -C /repo checkout -- .` for: " + ",".join(checks)}
    json.dump(meta_out, open(os.path.join(dst, "meta.json"), "w"), indent=1)
    print(json.dumps(res, indent=1))


if __name__ == "__main__":
    main()
