#!/usr/bin/env python3
"""Write seeded/SUMMARY.md from seeded/*/meta.json."""
import json
import os
import glob

VERIF = os.path.dirname(os.path.dirname(os.path.abspath(__file__)))
rows = []
for mp in sorted(glob.glob(os.path.join(VERIF, "seeded", "*", "meta.json"))):
    name = os.path.basename(os.path.dirname(mp))
    m = json.load(open(mp))
    am = m.get("agent_meta", {})
    conf = m.get("confirmed_by_us", {})
    checks = conf.get("checks", {}) or m.get("checks", {})
    first = m.get("first_run_before_strengthening") or {}
    caught = [c for c, r in checks.items() if r.get("exit") == 1 and (r.get("concrete") or any("no-failing-input-found" not in v for v in r.get("violations", [])))]
    missed = [c for c, r in checks.items() if r.get("exit") == 0]
    noinput = [c for c, r in checks.items() if any("no-failing-input-found" in v for v in r.get("violations", []))]
    rows.append((name, m.get("breaks_property") or "none (benign)", (am.get("summary") or "")[:160].replace("\n", " ").replace("|", "/"),
                 (am.get("needs_to_manifest") or "")[:140].replace("\n", " ").replace("|", "/"),
                 str(conf.get("tests_with_change", "")), str(conf.get("demo_with_change", conf.get("demo", ""))),
                 str(conf.get("demo_without_change", "")), ", ".join(caught) or "-", ", ".join(missed) or "-",
                 ", ".join(noinput) or "-", ", ".join(c for c, r in first.items() if r.get("exit") == 0) or "-"))
with open(os.path.join(VERIF, "seeded", "SUMMARY.md"), "w") as f:
    f.write("# Seeded changes (written by independent sub-agents from the property text only)\n\n")
    f.write("Each was confirmed by us in a scratch worktree (existing suite passes with the change; the demonstration fails with it and "
            "passes without it), then applied to /repo, the listed checks run, and undone.\n\n")
    f.write("| name | property | change | needs to manifest | suite with change | demo with | demo without | caught by | not reported by | reported without input | missed at the first run (before strengthening) |\n")
    f.write("|---|---|---|---|---|---|---|---|---|---|---|\n")
    for r in rows:
        f.write("| " + " | ".join(r) + " |\n")
print(open(os.path.join(VERIF, "seeded", "SUMMARY.md")).read())
