"""Position sources for the board / movegen / key correspondence: the committed corpus, the
engine's own bench positions (read from /repo/src/bench.rs on every run) and deterministic
clause-boundary probe families that pin every literal of the rules code square by square."""
import os
import re

VERIF = os.path.dirname(os.path.dirname(os.path.abspath(__file__)))
REPO = os.environ.get("RCE_REPO", "/repo")


def corpus():
    out = []
    for fn in ("fens.txt", "regress.txt"):
        p = os.path.join(VERIF, "corpus", fn)
        if not os.path.exists(p):
            continue
        for line in open(p):
            line = line.strip()
            if line and not line.startswith("#"):
                out.append(line)
    return out


def bench_fens():
    try:
        src = open(os.path.join(REPO, "src", "bench.rs")).read()
    except OSError:
        return []
    return re.findall(r'"([1-8pnbrqkPNBRQK/]+ [wb] [KQkq-]+ [a-h1-8-]+(?: \d+ \d+)?)"', src)


def board_to_fen(grid, turn, rights, ep, hm=0, fm=1):
    """grid: dict (rank, file) -> char"""
    rows = []
    for r in range(7, -1, -1):
        row = ""
        empty = 0
        for f in range(8):
            c = grid.get((r, f))
            if c is None:
                empty += 1
            else:
                if empty:
                    row += str(empty)
                    empty = 0
                row += c
        if empty:
            row += str(empty)
        rows.append(row)
    return "%s %s %s %s %d %d" % ("/".join(rows), turn, rights or "-", ep or "-", hm, fm)


def mirror_fen_grid(grid):
    return {(7 - r, f): (c.lower() if c.isupper() else c.upper()) for (r, f), c in grid.items()}


def probe_families():
    """Deterministic families; each entry is (family, fen)."""
    out = []
    files = "abcdefgh"
    # (a) castling x each back-rank square occupied by a lone piece, own or enemy
    for turn in "wb":
        base = {(0, 4): "K", (0, 0): "R", (0, 7): "R", (7, 4): "k", (7, 0): "r", (7, 7): "r"}
        back = 0 if turn == "w" else 7
        for f in (1, 2, 3, 5, 6):
            for piece in ("N", "n"):
                g = dict(base)
                g[(back, f)] = piece
                out.append(("castle-between", board_to_fen(g, turn, "KQkq", None)))
        # (b) castling x each back-rank file attacked by a lone enemy rook (down the file)
        for f in range(8):
            g = dict(base)
            rr = 3 if turn == "w" else 4
            g[(rr, f)] = "r" if turn == "w" else "R"
            # the rook must not be blocked by / capture the castling rooks' files: fine, still legal FEN
            out.append(("castle-attacked", board_to_fen(g, turn, "KQkq", None)))
            # and attacked by a knight / pawn sitting next to the path
        for f in range(8):
            g = dict(base)
            pr = 1 if turn == "w" else 6
            g[(pr, f)] = "p" if turn == "w" else "P"
            out.append(("castle-pawn-attack", board_to_fen(g, turn, "KQkq", None)))
        # rights subsets
        for rights in ("K", "Q", "k", "q", "Kq", "Qk", "KQ", "kq", ""):
            out.append(("castle-rights", board_to_fen(base, turn, rights, None)))
    # (c) pawns of both colours on every rank x blockers
    for f in range(8):
        for r in range(1, 7):
            for blk in (None, 1, 2):
                for blocker in ("n", "N"):
                    g = {(0, 4 if f != 4 else 3): "K", (7, 4 if f != 4 else 3): "k", (r, f): "P"}
                    if blk and r + blk <= 7 and (r + blk, f) not in g:
                        g[(r + blk, f)] = blocker
                    elif blk:
                        continue
                    if blk is None and blocker == "N":
                        continue
                    out.append(("pawn-push", board_to_fen(g, "w", None, None)))
                    out.append(("pawn-push", board_to_fen(mirror_fen_grid(g), "b", None, None)))
            # captures on both diagonals, own piece on the diagonal too
            for df in (-1, 1):
                if 0 <= f + df < 8 and r + 1 <= 7:
                    for target in ("n", "N", "q"):
                        g = {(0, 4): "K", (7, 4): "k", (r, f): "P"}
                        if (r + 1, f + df) in g or (r, f) in ((0, 4), (7, 4)):
                            continue
                        g[(r + 1, f + df)] = target
                        out.append(("pawn-capture", board_to_fen(g, "w", None, None)))
                        out.append(("pawn-capture", board_to_fen(mirror_fen_grid(g), "b", None, None)))
    # (d) en passant: pushed pawn on every file, capturer on either side, on every rank class
    for f in range(8):
        for df in (-1, 1):
            if not 0 <= f + df < 8:
                continue
            g = {(0, 4): "K", (7, 4): "k", (4, f): "p", (4, f + df): "P"}
            out.append(("ep", board_to_fen(g, "w", None, files[f] + "6", 0, 3)))
            out.append(("ep", board_to_fen(mirror_fen_grid(g), "b", None, files[f] + "3", 0, 3)))
            # ep file set but capturer on the wrong rank
            g2 = {(0, 4): "K", (7, 4): "k", (4, f): "p", (3, f + df): "P"}
            out.append(("ep-wrong-rank", board_to_fen(g2, "w", None, files[f] + "6", 0, 3)))
            out.append(("ep-wrong-rank", board_to_fen(mirror_fen_grid(g2), "b", None, files[f] + "3", 0, 3)))
        # pinned en passant along the rank
        if 1 <= f <= 5:
            g = {(4, 0): "K", (7, 7): "k", (4, f): "P", (4, f + 1): "p", (4, 7): "r"}
            out.append(("ep-pin", board_to_fen(g, "w", None, files[f + 1] + "6", 0, 3)))
    # (e) promotions with and without captures
    for f in range(8):
        g = {(0, 4): "K", (7, 4 if f not in (3, 4, 5) else 0): "k", (6, f): "P"}
        out.append(("promo", board_to_fen(g, "w", None, None)))
        out.append(("promo", board_to_fen(mirror_fen_grid(g), "b", None, None)))
        for df in (-1, 1):
            if 0 <= f + df < 8:
                g2 = dict(g)
                if (7, f + df) in g2:
                    continue
                g2[(7, f + df)] = "r"
                g2[(7, f)] = "n" if (7, f) not in g2 else g2[(7, f)]
                out.append(("promo-capture", board_to_fen(g2, "w", None, None)))
                out.append(("promo-capture", board_to_fen(mirror_fen_grid(g2), "b", None, None)))
    # (f) a king next to every kind of attacker, on corner / edge / centre squares
    for (kr, kf) in ((0, 0), (0, 3), (3, 0), (3, 3), (7, 7), (4, 7)):
        for att in "qrbnp":
            for (dr, df) in ((1, 0), (1, 1), (0, 1), (2, 1), (2, 2), (0, 2), (-1, -1), (-1, 1)):
                r, f = kr + dr, kf + df
                if not (0 <= r < 8 and 0 <= f < 8):
                    continue
                if att == "p" and r in (0, 7):
                    continue
                bk = (7, 0) if (kr, kf) != (7, 0) and (r, f) != (7, 0) else (7, 5)
                if bk in ((kr, kf), (r, f)) or (abs(bk[0] - kr) <= 1 and abs(bk[1] - kf) <= 1):
                    bk = (6, 4) if (kr, kf) not in ((7, 7),) else (5, 2)
                if bk in ((kr, kf), (r, f)) or (abs(bk[0] - kr) <= 1 and abs(bk[1] - kf) <= 1):
                    continue
                g = {(kr, kf): "K", bk: "k", (r, f): att}
                out.append(("king-attacker", board_to_fen(g, "w", None, None)))
    seen = set()
    res = []
    for fam, fen in out:
        if fen not in seen:
            seen.add(fen)
            res.append((fam, fen))
    return res


DIRS = [(1, 0), (-1, 0), (0, 1), (0, -1), (1, 1), (1, -1), (-1, 1), (-1, -1)]


def _attacked_by_white_simple(g, sq):
    """is `sq` attacked by a white king or pawn (the only white non-slider pieces these families place)"""
    r, f = sq
    for (pr, pf), c in g.items():
        if c == "K" and max(abs(pr - r), abs(pf - f)) <= 1:
            return True
        if c == "P" and pr + 1 == r and abs(pf - f) == 1:
            return True
    return False


def _place_black_king(g, avoid):
    for sq in ((7, 0), (7, 7), (7, 3), (0, 0), (0, 7), (7, 5), (0, 3), (2, 0), (2, 7)):
        if sq in g or sq in avoid:
            continue
        if _attacked_by_white_simple(g, sq):
            continue
        return sq
    return None


def line_geometry_families():
    """Lines through the own king: every king square x every direction x the pawns of an en-passant
    capture (the captured pawn and/or the capturing pawn as the only blockers in front of an enemy
    slider), and every own piece type pinned on every direction.  White to move, and mirrored."""
    out = []
    files = "abcdefgh"
    # (g) en passant x lines through the king
    for f in range(8):
        for df in (-1, 1):
            cf = f + df
            if not 0 <= cf < 8:
                continue
            pawns = {(4, f): "p", (4, cf): "P"}
            reserved = {(5, f), (6, f)}            # must stay empty: the double push just happened
            for kr in range(8):
                for kf in range(8):
                    K = (kr, kf)
                    if K in pawns or K in reserved:
                        continue
                    for di, (dr, dc) in enumerate(DIRS):
                        ray = []
                        r, c = kr + dr, kf + dc
                        while 0 <= r < 8 and 0 <= c < 8:
                            ray.append((r, c))
                            r, c = r + dr, c + dc
                        hits = [i for i, sq in enumerate(ray) if sq in pawns]
                        if not hits:
                            continue
                        beyond = [sq for sq in ray[hits[-1] + 1:]]
                        if not beyond:
                            continue
                        for far in (0, len(beyond) - 1):
                            S = beyond[far]
                            if S in reserved or S in pawns:
                                continue
                            between = ray[:ray.index(S)]
                            if any(sq in reserved for sq in ()):  # reserved squares may lie on the line: they are empty anyway
                                continue
                            slider = "q" if (kr + kf + di) % 2 == 0 else ("r" if dr == 0 or dc == 0 else "b")
                            g = dict(pawns)
                            g[K] = "K"
                            g[S] = slider
                            bk = _place_black_king(g, reserved | set(ray))
                            if bk is None:
                                continue
                            g[bk] = "k"
                            out.append(("ep-line", board_to_fen(g, "w", None, files[f] + "6", 0, 3)))
                            out.append(("ep-line", board_to_fen(mirror_fen_grid(g), "b", None, files[f] + "3", 0, 3)))
    # (h) every own piece type pinned on every direction at distance 1..2 from the king, slider further out
    for K in ((0, 4), (3, 3), (7, 7), (4, 0)):
        for di, (dr, dc) in enumerate(DIRS):
            ray = []
            r, c = K[0] + dr, K[1] + dc
            while 0 <= r < 8 and 0 <= c < 8:
                ray.append((r, c))
                r, c = r + dr, c + dc
            if len(ray) < 2:
                continue
            for dist in (0, 1):
                if dist + 1 >= len(ray):
                    continue
                for own in "QRBNP":
                    if own == "P" and ray[dist][0] in (0, 7):
                        continue
                    for S in (ray[dist + 1], ray[-1]):
                        slider = "q" if (dist + di) % 2 == 0 else ("r" if dr == 0 or dc == 0 else "b")
                        g = {K: "K", ray[dist]: own, S: slider}
                        bk = _place_black_king(g, set(ray))
                        if bk is None:
                            continue
                        g[bk] = "k"
                        out.append(("pin-line", board_to_fen(g, "w", None, None)))
                        out.append(("pin-line", board_to_fen(mirror_fen_grid(g), "b", None, None)))
    seen, res = set(), []
    for fam, fen in out:
        if fen not in seen:
            seen.add(fen)
            res.append((fam, fen))
    return res


def clock_families():
    """Counters near their boundaries: half-move clocks around the fifty-move limit (98..102), the u8 edge (254..257)
    and full-move numbers up to 6000, on positions where quiet moves, captures and pawn moves are all available;
    used as STARTS of walks, so that the clock is stepped across the boundary by play (not only loaded)."""
    base = ["4k3/8/8/8/8/8/8/4K2R w K - %d %d", "r3k2r/pppq1ppp/2n2n2/3pp3/3PP3/2N2N2/PPPQ1PPP/R3K2R w KQkq - %d %d",
            "8/5k2/3p4/1p1Pp2p/pP2Pp1P/P4P1K/8/8 b - - %d %d", "r1bq1rk1/pp2ppbp/2np1np1/8/3NP3/2N1BP2/PPPQ2PP/R3KB1R b KQ - %d %d"]
    out = []
    for b in base:
        for hm in (0, 49, 97, 98, 99, 100, 101, 102, 149, 254, 255, 256, 300):
            for fm in (1, 60, 5999):
                if fm == 60 or hm in (98, 99, 100, 255):
                    out.append(("clock", b % (hm, fm)))
    return out
