"""Position sources for the board / movegen / key correspondence: the committed corpus, the
engine's own bench positions (read from /repo/src/bench.rs on every run) and deterministic
clause-boundary probe families that pin every literal of the rules code square by square."""
import os
import re

VERIF = os.path.dirname(os.path.dirname(os.path.abspath(__file__)))
REPO = os.environ.get("RCE_REPO", "/repo")


def corpus():
    out = []
    for fn in ("fens.txt", "regress.txt"):
        p = os.path.join(VERIF, "corpus", fn)
        if not os.path.exists(p):
            continue
        for line in open(p):
            line = line.strip()
            if line and not line.startswith("#"):
                out.append(line)
    return out


def bench_fens():
    try:
        src = open(os.path.join(REPO, "src", "bench.rs")).read()
    except OSError:
        return []
    return re.findall(r'"([1-8pnbrqkPNBRQK/]+ [wb] [KQkq-]+ [a-h1-8-]+(?: \d+ \d+)?)"', src)


def board_to_fen(grid, turn, rights, ep, hm=0, fm=1):
    """grid: dict (rank, file) -> char"""
    rows = []
    for r in range(7, -1, -1):
        row = ""
        empty = 0
        for f in range(8):
            c = grid.get((r, f))
            if c is None:
                empty += 1
            else:
                if empty:
                    row += str(empty)
                    empty = 0
                row += c
        if empty:
            row += str(empty)
        rows.append(row)
    return "%s %s %s %s %d %d" % ("/".join(rows), turn, rights or "-", ep or "-", hm, fm)


def mirror_fen_grid(grid):
    return {(7 - r, f): (c.lower() if c.isupper() else c.upper()) for (r, f), c in grid.items()}


def probe_families():
    """Deterministic families; each entry is (family, fen)."""
    out = []
    files = "abcdefgh"
    # (a) castling x each back-rank square occupied by a lone piece, own or enemy
    for turn in "wb":
        base = {(0, 4): "K", (0, 0): "R", (0, 7): "R", (7, 4): "k", (7, 0): "r", (7, 7): "r"}
        back = 0 if turn == "w" else 7
        for f in (1, 2, 3, 5, 6):
            for piece in ("N", "n"):
                g = dict(base)
                g[(back, f)] = piece
                out.append(("castle-between", board_to_fen(g, turn, "KQkq", None)))
        # (b) castling x each back-rank file attacked by a lone enemy rook (down the file)
        for f in range(8):
            g = dict(base)
            rr = 3 if turn == "w" else 4
            g[(rr, f)] = "r" if turn == "w" else "R"
            # the rook must not be blocked by / capture the castling rooks' files: fine, still legal FEN
            out.append(("castle-attacked", board_to_fen(g, turn, "KQkq", None)))
            # and attacked by a knight / pawn sitting next to the path
        for f in range(8):
            g = dict(base)
            pr = 1 if turn == "w" else 6
            g[(pr, f)] = "p" if turn == "w" else "P"
            out.append(("castle-pawn-attack", board_to_fen(g, turn, "KQkq", None)))
        # rights subsets
        for rights in ("K", "Q", "k", "q", "Kq", "Qk", "KQ", "kq", ""):
            out.append(("castle-rights", board_to_fen(base, turn, rights, None)))
    # (c) pawns of both colours on every rank x blockers
    for f in range(8):
        for r in range(1, 7):
            for blk in (None, 1, 2):
                for blocker in ("n", "N"):
                    g = {(0, 4 if f != 4 else 3): "K", (7, 4 if f != 4 else 3): "k", (r, f): "P"}
                    if blk and r + blk <= 7 and (r + blk, f) not in g:
                        g[(r + blk, f)] = blocker
                    elif blk:
                        continue
                    if blk is None and blocker == "N":
                        continue
                    out.append(("pawn-push", board_to_fen(g, "w", None, None)))
                    out.append(("pawn-push", board_to_fen(mirror_fen_grid(g), "b", None, None)))
            # captures on both diagonals, own piece on the diagonal too
            for df in (-1, 1):
                if 0 <= f + df < 8 and r + 1 <= 7:
                    for target in ("n", "N", "q"):
                        g = {(0, 4): "K", (7, 4): "k", (r, f): "P"}
                        if (r + 1, f + df) in g or (r, f) in ((0, 4), (7, 4)):
                            continue
                        g[(r + 1, f + df)] = target
                        out.append(("pawn-capture", board_to_fen(g, "w", None, None)))
                        out.append(("pawn-capture", board_to_fen(mirror_fen_grid(g), "b", None, None)))
    # (d) en passant: pushed pawn on every file, capturer on either side, on every rank class
    for f in range(8):
        for df in (-1, 1):
            if not 0 <= f + df < 8:
                continue
            g = {(0, 4): "K", (7, 4): "k", (4, f): "p", (4, f + df): "P"}
            out.append(("ep", board_to_fen(g, "w", None, files[f] + "6", 0, 3)))
            out.append(("ep", board_to_fen(mirror_fen_grid(g), "b", None, files[f] + "3", 0, 3)))
            # ep file set but capturer on the wrong rank
            g2 = {(0, 4): "K", (7, 4): "k", (4, f): "p", (3, f + df): "P"}
            out.append(("ep-wrong-rank", board_to_fen(g2, "w", None, files[f] + "6", 0, 3)))
            out.append(("ep-wrong-rank", board_to_fen(mirror_fen_grid(g2), "b", None, files[f] + "3", 0, 3)))
        # pinned en passant along the rank
        if 1 <= f <= 5:
            g = {(4, 0): "K", (7, 7): "k", (4, f): "P", (4, f + 1): "p", (4, 7): "r"}
            out.append(("ep-pin", board_to_fen(g, "w", None, files[f + 1] + "6", 0, 3)))
    # (e) promotions with and without captures
    for f in range(8):
        g = {(0, 4): "K", (7, 4 if f not in (3, 4, 5) else 0): "k", (6, f): "P"}
        out.append(("promo", board_to_fen(g, "w", None, None)))
        out.append(("promo", board_to_fen(mirror_fen_grid(g), "b", None, None)))
        for df in (-1, 1):
            if 0 <= f + df < 8:
                g2 = dict(g)
                if (7, f + df) in g2:
                    continue
                g2[(7, f + df)] = "r"
                g2[(7, f)] = "n" if (7, f) not in g2 else g2[(7, f)]
                out.append(("promo-capture", board_to_fen(g2, "w", None, None)))
                out.append(("promo-capture", board_to_fen(mirror_fen_grid(g2), "b", None, None)))
    # (f) a king next to every kind of attacker, on corner / edge / centre squares
    for (kr, kf) in ((0, 0), (0, 3), (3, 0), (3, 3), (7, 7), (4, 7)):
        for att in "qrbnp":
            for (dr, df) in ((1, 0), (1, 1), (0, 1), (2, 1), (2, 2), (0, 2), (-1, -1), (-1, 1)):
                r, f = kr + dr, kf + df
                if not (0 <= r < 8 and 0 <= f < 8):
                    continue
                if att == "p" and r in (0, 7):
                    continue
                bk = (7, 0) if (kr, kf) != (7, 0) and (r, f) != (7, 0) else (7, 5)
                if bk in ((kr, kf), (r, f)) or (abs(bk[0] - kr) <= 1 and abs(bk[1] - kf) <= 1):
                    bk = (6, 4) if (kr, kf) not in ((7, 7),) else (5, 2)
                if bk in ((kr, kf), (r, f)) or (abs(bk[0] - kr) <= 1 and abs(bk[1] - kf) <= 1):
                    continue
                g = {(kr, kf): "K", bk: "k", (r, f): att}
                out.append(("king-attacker", board_to_fen(g, "w", None, None)))
    seen = set()
    res = []
    for fam, fen in out:
        if fen not in seen:
            seen.add(fen)
            res.append((fam, fen))
    return res


DIRS = [(1, 0), (-1, 0), (0, 1), (0, -1), (1, 1), (1, -1), (-1, 1), (-1, -1)]


def _attacked_by_white_simple(g, sq):
    """is `sq` attacked by a white king or pawn (the only white non-slider pieces these families place)"""
    r, f = sq
    for (pr, pf), c in g.items():
        if c == "K" and max(abs(pr - r), abs(pf - f)) <= 1:
            return True
        if c == "P" and pr + 1 == r and abs(pf - f) == 1:
            return True
    return False


def _place_black_king(g, avoid):
    for sq in ((7, 0), (7, 7), (7, 3), (0, 0), (0, 7), (7, 5), (0, 3), (2, 0), (2, 7)):
        if sq in g or sq in avoid:
            continue
        if _attacked_by_white_simple(g, sq):
            continue
        return sq
    return None


def line_geometry_families():
    """Lines through the own king: every king square x every direction x the pawns of an en-passant
    capture (the captured pawn and/or the capturing pawn as the only blockers in front of an enemy
    slider), and every own piece type pinned on every direction.  White to move, and mirrored."""
    out = []
    files = "abcdefgh"
    # (g) en passant x lines through the king
    for f in range(8):
        for df in (-1, 1):
            cf = f + df
            if not 0 <= cf < 8:
                continue
            pawns = {(4, f): "p", (4, cf): "P"}
            reserved = {(5, f), (6, f)}            # must stay empty: the double push just happened
            for kr in range(8):
                for kf in range(8):
                    K = (kr, kf)
                    if K in pawns or K in reserved:
                        continue
                    for di, (dr, dc) in enumerate(DIRS):
                        ray = []
                        r, c = kr + dr, kf + dc
                        while 0 <= r < 8 and 0 <= c < 8:
                            ray.append((r, c))
                            r, c = r + dr, c + dc
                        hits = [i for i, sq in enumerate(ray) if sq in pawns]
                        if not hits:
                            continue
                        beyond = [sq for sq in ray[hits[-1] + 1:]]
                        if not beyond:
                            continue
                        for far in (0, len(beyond) - 1):
                            S = beyond[far]
                            if S in reserved or S in pawns:
                                continue
                            between = ray[:ray.index(S)]
                            if any(sq in reserved for sq in ()):  # reserved squares may lie on the line: they are empty anyway
                                continue
                            slider = "q" if (kr + kf + di) % 2 == 0 else ("r" if dr == 0 or dc == 0 else "b")
                            g = dict(pawns)
                            g[K] = "K"
                            g[S] = slider
                            bk = _place_black_king(g, reserved | set(ray))
                            if bk is None:
                                continue
                            g[bk] = "k"
                            out.append(("ep-line", board_to_fen(g, "w", None, files[f] + "6", 0, 3)))
                            out.append(("ep-line", board_to_fen(mirror_fen_grid(g), "b", None, files[f] + "3", 0, 3)))
    # (h) every own piece type pinned on every direction at distance 1..2 from the king, slider further out
    for K in ((0, 4), (3, 3), (7, 7), (4, 0)):
        for di, (dr, dc) in enumerate(DIRS):
            ray = []
            r, c = K[0] + dr, K[1] + dc
            while 0 <= r < 8 and 0 <= c < 8:
                ray.append((r, c))
                r, c = r + dr, c + dc
            if len(ray) < 2:
                continue
            for dist in (0, 1):
                if dist + 1 >= len(ray):
                    continue
                for own in "QRBNP":
                    if own == "P" and ray[dist][0] in (0, 7):
                        continue
                    for S in (ray[dist + 1], ray[-1]):
                        slider = "q" if (dist + di) % 2 == 0 else ("r" if dr == 0 or dc == 0 else "b")
                        g = {K: "K", ray[dist]: own, S: slider}
                        bk = _place_black_king(g, set(ray))
                        if bk is None:
                            continue
                        g[bk] = "k"
                        out.append(("pin-line", board_to_fen(g, "w", None, None)))
                        out.append(("pin-line", board_to_fen(mirror_fen_grid(g), "b", None, None)))
    seen, res = set(), []
    for fam, fen in out:
        if fen not in seen:
            seen.add(fen)
            res.append((fam, fen))
    return res


def clock_families():
    """Counters near their boundaries: half-move clocks around the fifty-move limit (98..102), the u8 edge (254..257)
    and full-move numbers up to 6000, on positions where quiet moves, captures and pawn moves are all available;
    used as STARTS of walks, so that the clock is stepped across the boundary by play (not only loaded)."""
    base = ["4k3/8/8/8/8/8/8/4K2R w K - %d %d", "r3k2r/pppq1ppp/2n2n2/3pp3/3PP3/2N2N2/PPPQ1PPP/R3K2R w KQkq - %d %d",
            "8/5k2/3p4/1p1Pp2p/pP2Pp1P/P4P1K/8/8 b - - %d %d", "r1bq1rk1/pp2ppbp/2np1np1/8/3NP3/2N1BP2/PPPQ2PP/R3KB1R b KQ - %d %d"]
    out = []
    for b in base:
        for hm in (0, 49, 97, 98, 99, 100, 101, 102, 149, 254, 255, 256, 300):
            for fm in (1, 60, 5999):
                if fm == 60 or hm in (98, 99, 100, 255):
                    out.append(("clock", b % (hm, fm)))
    return out


def corner_rook_capture_families():
    """Every piece type (king, queen, rook, bishop, knight, promoting pawn) capturing a home-corner rook whose owner still holds
    the castling right, on all four corners; the walk's successor comparison then checks rights, key and bookkeeping after the
    capture, and one more ply of the owner's moves (castling must be gone)."""
    out = []
    corners = {(0, 0): ("R", "Q"), (0, 7): ("R", "K"), (7, 0): ("r", "q"), (7, 7): ("r", "k")}
    for (cr, cf), (rook, right) in corners.items():
        white_owner = rook == "R"
        owner_king = (0, 4) if white_owner else (7, 4)
        cap = (lambda c: c.lower()) if white_owner else (lambda c: c.upper())     # capturer colour is the other one
        turn = "b" if white_owner else "w"
        inward = 1 if cr == 0 else -1
        fdir = 1 if cf == 0 else -1
        cands = []
        cands += [("K", (cr + inward, cf)), ("K", (cr + inward, cf + fdir)), ("K", (cr, cf + fdir))]
        cands += [("N", (cr + 2 * inward, cf + fdir)), ("N", (cr + inward, cf + 2 * fdir))]
        cands += [("B", (cr + 3 * inward, cf + 3 * fdir)), ("Q", (cr + 2 * inward, cf + 2 * fdir)), ("Q", (cr + 4 * inward, cf))]
        cands += [("R", (cr + 5 * inward, cf)), ("P", (cr + inward, cf + fdir))]
        for kind, sq in cands:
            g = {(cr, cf): rook, owner_king: ("K" if white_owner else "k"), sq: cap(kind)}
            if len(g) < 3:
                continue
            # the capturing side's own king, away from everything (unless the capturer IS the king)
            if kind != "K":
                for ks in ((3, 3), (4, 4), (3, 6), (4, 1)):
                    if ks not in g and max(abs(ks[0] - owner_king[0]), abs(ks[1] - owner_king[1])) > 1:
                        g[ks] = cap("K")
                        break
            else:
                if max(abs(sq[0] - owner_king[0]), abs(sq[1] - owner_king[1])) <= 1:
                    continue
            # the owner is not to move: its king must not stand in check
            def owner_in_check(grid):
                return any(ch.isupper() != white_owner and _attacks_sq(grid, sq2, ch, owner_king) for sq2, ch in grid.items())
            if owner_in_check(g):
                continue
            out.append(("capture-home-rook", board_to_fen(g, turn, right, None)))
            # and with the second rook / both rights present
            g2 = dict(g)
            other = (cr, 7 - cf)
            if other not in g2:
                g2[other] = rook
                if not owner_in_check(g2):
                    out.append(("capture-home-rook", board_to_fen(g2, turn, "KQ" if white_owner else "kq", None)))
    return out


def _attacks_sq(g, frm, c, to):
    """does piece char c on frm attack square to, on grid g (sliders stop at blockers)"""
    (r, f), (tr, tf) = frm, to
    dr, df = tr - r, tf - f
    k = c.lower()
    if k == "n":
        return (abs(dr), abs(df)) in ((1, 2), (2, 1))
    if k == "k":
        return max(abs(dr), abs(df)) == 1
    if k == "p":
        return abs(df) == 1 and dr == (1 if c == "P" else -1)
    line = (dr == 0 or df == 0) and k in "rq" or (abs(dr) == abs(df) and dr != 0) and k in "bq"
    if not line or (dr == 0 and df == 0):
        return False
    sr, sf = (dr > 0) - (dr < 0), (df > 0) - (df < 0)
    r, f = r + sr, f + sf
    while (r, f) != (tr, tf):
        if (r, f) in g:
            return False
        r, f = r + sr, f + sf
    return True


def material_families(seed=0, per_sig=2):
    """Sparse positions over ALL small material signatures (each side: nothing, N, B, R, Q, P, and some pairs), both sides to
    move: guards against shortcuts keyed on a material class (insufficient-material draws and the like)."""
    import random
    rng = random.Random(1000 + seed)
    singles = ["", "N", "B", "R", "Q", "P"]
    sigs = [(a, b) for a in singles for b in singles]
    sigs += [(a, b) for a in ("BN", "NN", "BB", "RP", "QP", "PP") for b in ("", "N", "B", "P")]
    out = []
    for w, b in sigs:
        made = 0
        tries = 0
        while made < per_sig and tries < 200:
            tries += 1
            g = {}
            sqs = [(r, f) for r in range(8) for f in range(8)]
            rng.shuffle(sqs)
            it = iter(sqs)
            wk = next(it)
            bk = next(x for x in it if max(abs(x[0] - wk[0]), abs(x[1] - wk[1])) > 1)
            g[wk], g[bk] = "K", "k"
            ok = True
            for ch in list(w) + list(b.lower()):
                sq = next(x for x in it if x not in g and not (ch in "Pp" and x[0] in (0, 7)))
                g[sq] = ch
            turn = "w" if made % 2 == 0 else "b"
            # the side NOT to move must not be in check
            victim = bk if turn == "w" else wk
            for sq, ch in g.items():
                if ch.isupper() == (turn == "w") and sq != victim and _attacks_sq(g, sq, ch, victim):
                    ok = False
            if ok:
                out.append(("material:%s-%s" % (w or "0", b or "0"), board_to_fen(g, turn, None, None)))
                made += 1
    return out


def mate_hunt_positions(seed, n):
    """random sparse positions (two kings, 1-5 more pieces, kings drawn to the edges, side not to move not in check): about 2.6 % have a
    mate in one, 4.2 % a mate in two, 5.2 % an avoidable mate-in-one threat"""
    import random
    rng = random.Random(seed * 7919 + 13)
    out = []
    edge = lambda: rng.choice([(0, rng.randrange(8)), (7, rng.randrange(8)), (rng.randrange(8), 0), (rng.randrange(8), 7)])
    while len(out) < n:
        if len(out) % 100 == 57:
            # MAXIMAL MOBILITY (seeded change r6C12b: a move list cut at 128 entries): 6-9 queens and a few rooks / minor pieces for the
            # side to move, more than 128 pseudo-legal moves in most of them, the enemy king walled in by its own men in a corner
            g = {}
            turn = rng.choice("wb")
            up = (lambda c: c.upper()) if turn == "w" else (lambda c: c.lower())
            dn = (lambda c: c.lower()) if turn == "w" else (lambda c: c.upper())
            kr, kf = rng.choice([(7, 7), (7, 0), (0, 7), (0, 0)])
            g[(kr, kf)] = dn("k")
            dr, df = (-1 if kr == 7 else 1), (-1 if kf == 7 else 1)
            for sq, ch in (((kr, kf + df), "r"), ((kr + dr, kf), "p"), ((kr + dr, kf + df), "p"), ((kr + dr, kf + 2 * df), "p")):
                if ch == "p" and sq[0] in (0, 7):
                    ch = "n"
                if rng.random() < 0.85:
                    g[sq] = dn(ch)
            free = [(r, f) for r in range(8) for f in range(8) if (r, f) not in g and max(abs(r - kr), abs(f - kf)) > 1]
            rng.shuffle(free)
            g[free.pop()] = up("k")
            men = ["q"] * rng.choice([6, 7, 8, 9]) + rng.choice([[], ["r"], ["r", "r"], ["n"], ["b", "n"]])
            for ch in men:
                for _ in range(60):
                    if not free:
                        break
                    sq = free.pop()
                    g[sq] = up(ch)
                    if _attacks_sq(g, sq, up(ch), (kr, kf)):
                        del g[sq]
                        continue
                    break
            own_k = [sq for sq, ch in g.items() if ch == up("k")][0]
            if any(ch.isupper() != (turn == "w") and ch.lower() != "k" and _attacks_sq(g, sq, ch, own_k) for sq, ch in g.items()):
                pass        # the side to move may be in check: fine
            out.append(board_to_fen(g, turn, None, None))
            continue
        g = {}
        sqs = [(r, f) for r in range(8) for f in range(8)]
        rng.shuffle(sqs)
        it = iter(sqs)
        wk = next(it)
        if rng.random() < 0.6:
            wk = edge()
        bk = next(x for x in it if max(abs(x[0] - wk[0]), abs(x[1] - wk[1])) > 1 and x != wk)
        if rng.random() < 0.6:
            cand = edge()
            if max(abs(cand[0] - wk[0]), abs(cand[1] - wk[1])) > 1:
                bk = cand
        g[wk], g[bk] = "K", "k"
        for _ in range(rng.choice([1, 2, 2, 3, 3, 4, 5])):
            ch = rng.choice("QRRBNPQRqrrbnpqr")
            sq = next((x for x in it if x not in g and not (ch in "Pp" and x[0] in (0, 7))), None)
            if sq is None:
                break
            g[sq] = ch
        turn = rng.choice("wb")
        victim = bk if turn == "w" else wk
        if any(ch.isupper() == (turn == "w") and sq != victim and _attacks_sq(g, sq, ch, victim) for sq, ch in g.items()):
            continue
        out.append(board_to_fen(g, turn, None, None))
    return out


def collision_pairs(near=False):
    """committed pairs of different positions with equal keys on the pinned engine (corpus/collisions.txt); near=True: also the pairs
    whose keys agree in the upper 48 bits only (corpus/near_collisions.txt)"""
    out = []
    if near:
        out = collision_pairs(False)
    p = os.path.join(VERIF, "corpus", "near_collisions.txt" if near else "collisions.txt")
    if not os.path.exists(p):
        return out
    for line in open(p):
        line = line.strip()
        if not line or line.startswith("#"):
            continue
        a, _, b = line.partition("|")
        out.append((a.strip(), b.strip()))
    return out


def ep_discovered_check_families():
    """an en-passant capture that uncovers a line THROUGH THE CAPTURED PAWN'S SQUARE from a slider of the capturing side onto the ENEMY king
    (diagonals and the rank; both colours; every file): the position after the capture is a check that neither square of the moved pawn
    explains (seeded change r8C12).  -> list of (family, fen)"""
    out = []
    for white in (True, False):
        r5 = 4 if white else 3                      # rank index of both pawns before the capture
        up = (lambda c: c.upper()) if white else (lambda c: c.lower())
        dn = (lambda c: c.lower()) if white else (lambda c: c.upper())
        for cf in range(8):                         # file of the pawn that just double-pushed (captured)
            for of in (cf - 1, cf + 1):             # file of the capturing pawn
                if not 0 <= of < 8:
                    continue
                for (dr, df) in ((1, 1), (1, -1), (-1, 1), (-1, -1), (0, 1), (0, -1)):
                    for ds in (1, 2):               # slider ds steps from the captured pawn on one side, king dk steps on the other
                        for dk in (1, 2, 3):
                            sr, sf = r5 - dr * ds, cf - df * ds
                            kr, kf = r5 + dr * dk, cf + df * dk
                            if not (0 <= sr < 8 and 0 <= sf < 8 and 0 <= kr < 8 and 0 <= kf < 8):
                                continue
                            g = {(r5, cf): dn("p"), (r5, of): up("p")}
                            if (sr, sf) in g or (kr, kf) in g:
                                if dr != 0:
                                    continue
                                # rank case: the capturing pawn may stand between: allowed (both pawns leave the rank)
                                if (sr, sf) in g or (kr, kf) in g:
                                    continue
                            path = [(r5 - dr * i, cf - df * i) for i in range(1, ds)] + [(r5 + dr * i, cf + df * i) for i in range(1, dk)]
                            if any(q in g for q in path) and dr != 0:
                                continue
                            g[(sr, sf)] = up("q" if (ds + dk) % 2 else ("r" if dr == 0 else "b"))
                            g[(kr, kf)] = dn("k")
                            # own king far from everything
                            for ok in ((0, 0), (0, 7), (7, 0), (7, 7), (0, 3), (7, 4)):
                                if ok not in g and max(abs(ok[0] - kr), abs(ok[1] - kf)) > 1 and not any(
                                        ch.isupper() != white and ch.lower() != "k" and _attacks_sq(g, sq, ch, ok) for sq, ch in g.items()):
                                    g[ok] = up("k")
                                    break
                            else:
                                continue
                            ep = "abcdefgh"[cf] + ("6" if white else "3")
                            # the enemy king must not already be in check (the side that just moved cannot be in check)
                            if any(ch.isupper() == white and ch.lower() != "k" and _attacks_sq(g, sq, ch, (kr, kf)) for sq, ch in g.items()):
                                continue
                            out.append(("ep-discovers-check", board_to_fen(g, "w" if white else "b", None, ep, 0, 3)))
    return out
