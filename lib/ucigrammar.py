"""The engine-to-GUI `info` and `bestmove` lines of the UCI protocol (the April 2006 specification), as a validator that does not
depend on which optional fields THIS engine happens to print or in which order: a change that adds `hashfull`, `currmove`, `multipv`
or an `info string` line keeps every line valid.  (spec/UciSyntax.v is the narrower grammar of the lines the engine emits today, for
which conformance of the model's printer is a theorem; the checks judge the REAL lines with this wider validator so that they never
demand more than the property states, and compare the text with the model only as a correspondence.)"""
import re

MOVE_RE = re.compile(r"^(?:[a-h][1-8][a-h][1-8][qrbn]?|0000)$")
NUM_FIELDS = ("depth", "seldepth", "time", "nodes", "multipv", "currmovenumber", "hashfull", "nps", "tbhits", "sbhits", "cpuload")
KEYWORDS = set(NUM_FIELDS) | {"score", "currmove", "pv", "refutation", "currline", "string"}


def parse_info(line):
    """-> dict of the fields of a valid `info` line (pv as a list, score_kind/score, bounds), or None when the line is not valid UCI"""
    f = line.split()
    if not f or f[0] != "info":
        return None
    d = {}
    i = 1
    while i < len(f):
        t = f[i]
        if t in NUM_FIELDS:
            if i + 1 >= len(f) or not f[i + 1].isdigit():
                return None
            d[t] = int(f[i + 1])
            i += 2
        elif t == "score":
            i += 1
            seen = False
            while i < len(f) and f[i] in ("cp", "mate", "lowerbound", "upperbound"):
                if f[i] in ("cp", "mate"):
                    if i + 1 >= len(f) or not re.match(r"^-?\d+$", f[i + 1]):
                        return None
                    d["score_kind"], d["score"] = f[i], int(f[i + 1])
                    seen = True
                    i += 2
                else:
                    d["bound"] = f[i]
                    i += 1
            if not seen:
                return None
        elif t == "currmove":
            if i + 1 >= len(f) or not MOVE_RE.match(f[i + 1]):
                return None
            d["currmove"] = f[i + 1]
            i += 2
        elif t in ("pv", "refutation", "currline"):
            i += 1
            ms = []
            if t == "currline" and i < len(f) and f[i].isdigit():
                i += 1
            while i < len(f) and f[i] not in KEYWORDS:
                if not MOVE_RE.match(f[i]):
                    return None
                ms.append(f[i])
                i += 1
            d[t] = ms
        elif t == "string":
            d["string"] = " ".join(f[i + 1:])
            break
        else:
            return None
    return d


def parse_bestmove(line):
    """-> (move, ponder | None) or None"""
    f = line.split()
    if len(f) == 2 and f[0] == "bestmove" and MOVE_RE.match(f[1]):
        return f[1], None
    if len(f) == 4 and f[0] == "bestmove" and f[2] == "ponder" and MOVE_RE.match(f[1]) and MOVE_RE.match(f[3]):
        return f[1], f[3]
    return None


def iteration_report(d):
    """an info line that reports a completed iteration: it names a depth and carries a score or a pv (not a bare `info depth N
    currmove ...` progress line)"""
    return d is not None and "depth" in d and ("score" in d or "pv" in d) and "currmove" not in d
