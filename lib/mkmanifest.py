#!/usr/bin/env python3
"""Regenerate MANIFEST.json from the table below (kept in one place so it stays consistent)."""
import json
import os
import subprocess

VERIF = os.path.dirname(os.path.dirname(os.path.abspath(__file__)))
TB = ("Trusted: Coq 8.16.1 kernel + bytecode VM (vm_compute); no axioms (every theorem re-checked 'Closed under the global "
      "context' on each run); harness/driver.rs + guarded accessors; lib/gen.py; the hand-written model, tied to the code by the "
      "correspondence on the compared inputs; Rust integer/Vec/HashMap semantics, rustc, LLVM modelled not verified. ")

CLAIMED = {
 "C01": ("Theorems C01_check (check status exact, any consistent bitboards), C01_pseudo, C01_moves_ok, C01_legal (the moves offered are exactly the "
         "legal moves of spec/Rules.v: castling, en passant, the four promotions, pins, check evasions), C01_nodup, C01_mate_stalemate, for every "
         "board satisfying the computable well-formedness wf_rules (proved preserved by every legal move: C03_wf_step; evaluated on every visited "
         "position). Rules.v is coordinate-only; props/RulesPerft.v checks it (through the independent FEN reader) against the published perft totals of the six standard test positions. Tie: engine vs model vs Rules.v at every node of walks / probes / corpus: legal "
         "move sets with flags, check status of both colours, attacked squares. Engine-only legs: query independence (every question about Y on a fresh thread vs right after a question about X, for key-collision / near-collision pairs in both orders and random pairs).",
         TB + "Rules.v is the statement of the rules of chess (trusted, short, perft-validated); counters below 65535.",
         "Coq proof (refinement of the bitboard move generator to a mailbox rules specification) + walk correspondence"),
 "C03": ("Theorems C03_step (abs (make_move b m) = Rules.apply (abs b) (move_of m): placement, side, four rights, en-passant file, both counters), "
         "C03_wf_step, C03_game (any game of any length, by induction), C03_remembers (the record of earlier positions is exactly the keys of the "
         "earlier positions), C03_rights_monotone, C03_ep_iff_double_push. Two counterexamples to the first statement found by a proof agent (two kings "
         "of one colour; castles flag off the home rank) led to the kings_ok conjunct of wf_rules. Tie: full state after every make on walks vs the model, "
         "model vs Rules.apply at every node.",
         TB + "counters below 65535 (u16 wrap written in the model).", "Coq proof (refinement + induction over move lists) + walk correspondence"),
 "C02": ("Theorems C02_unmake_make (unmake_move (make_move b m) = Some b for the WHOLE record incl. the record of earlier positions "
         "with multiplicity), C02_wf_preserved, C02_nested (any nesting depth/width), C02_query_pure, for every well-formed board and "
         "every move satisfying the computable precondition move_okb; hypotheses evaluated on every visited position/move. Tie: engine "
         "vs model node by node on walks/probes, every legal move made+unmade and compared with the snapshot. Engine-only leg: 1100-ply (2800 in thorough) shuffle games in which a position recurs hundreds of times, Board == snapshot after every make/unmake and query.",
         TB + "wfb/move_okb are hypotheses of C02_unmake_make; props/C02closed.v discharges them for generated moves from wf_rules (C01_moves_ok). props/C02search.v: the search run IN PLACE on one board "
         "(model/SearchMut.v: make / recurse / unmake, legality probe included) returns exactly the result of the persistent-position search model and hands the board back (an interrupted root iteration leaves it one move deep: proved and witnessed).",
         "Coq proof (record-level inverse of make/unmake) + walk correspondence"),
 "C04": ("Theorems C04_make, C04_history (any interleaving of makes and take-backs, any length), C04_function/C04_transposition (path "
         "independence), C04_fen, C04_start: the incremental key equals the from-scratch key. Holds for any table. Tie: zkey, ZKey::from "
         "and the model key compared at every node and every successor.",
         TB + "same wfb/move_okb hypotheses as C02.", "Coq proof (XOR algebra over atoms, induction over operation lists) + walk correspondence"),
 "C05": ("Theorems over the table of the RUNNING engine (regenerated each run): C05_table_ok (no XOR of 1-4 distinct words is 0, decided by the "
         "kernel VM over all 304590 pairs), C05_every_component_hashed (the key is the XOR of the words of the atoms present), C05_small_diff (ANY two "
         "positions differing in 1..4 atoms have different keys: every single-component change and more), C05_side_to_move. Tie: engine key vs model "
         "key at every node + on a perturbation sweep; engine keys must change under every single-component perturbation. PARTIAL: full injectivity is "
         "false by counting and not claimed; pairs differing in >= 5 atoms are covered only by the exploration (distinct identities vs keys). KNOWN FINDING "
         "(known_findings.json, corpus/collisions.txt): two pairs of different legal positions DO share a key on the pinned engine (a GF(2) dependency among 14 "
         "piece-square words); re-verified on every run and printed as KNOWN-FINDING; any other collision among explored positions is a violation.",
         TB + "injectivity beyond 4 atoms is NOT proved (impossible); exploration only.", "Coq proof (finite table check by vm_compute lifted by XOR algebra) + key correspondence + perturbation sweep"),
 "C06": ("Theorems C06_rook/bishop/queen: for every square and EVERY occupancy in N the modelled magic lookup equals the sliding-ray "
         "attack set (finite sweep over all 107648 (square, subset-of-mask) entries by the kernel VM, lifted by proved completeness of the "
         "subset enumeration and the last-square-irrelevance lemma); leaper tables by 64-entry sweeps. Tie: constants regenerated from the "
         "running engine each run; ALL 107648 real lookups and all dumped tables compared with the specification evaluated in Coq "
         "(exhaustive), plus random full-board occupancies.",
         TB + "OnceLock tables modelled as eager values.", "Coq proof (finite sweep by vm_compute lifted to all occupancies) + exhaustive correspondence"),
 "C07": ("Theorems C07_parse (every string the independent rank-by-rank reader SpecFen.parse accepts is loaded by the modelled character loop "
         "without panic into a board with exactly the described pieces, side, rights, en-passant file and counters, well-formed bitboards, the "
         "from-scratch key and an undo record consistent with the en-passant file), C07_behaves (legal moves, successors and key depend only on "
         "that content, not on how the board came about), C07_abs_core; completeness: C07_print_parse / C07_every_position_loads (EVERY describable position - "
         "64 arbitrary cells, either side, any rights, any en-passant file, counters <= 65535 - has a FEN, written by the specification-level printer, that the "
         "independent reader reads back exactly and the engine's reader loads into exactly that content), C07_parse_describable. Tie: generated structurally valid FENs (rights subsets, ep both sides, clocks "
         "0..150, move numbers 1..6000, 4- and 6-field) full state engine vs model vs the independent reader; played positions written as FEN and "
         "reloaded: state, legal moves, successors compared. PARTIAL: ASCII only.",
         TB, "Coq proof (string-level refinement of the reader against an independent spec reader) + FEN correspondence"),
 "C08": ("Theorems C08_accept / C08_reject / C08_reject_keeps (all-or-nothing, independent of the earlier session), C08_find_move (a string "
         "is accepted exactly when it is the notation of a legal move), C08_notation_inj, C08_tokens_* (slicing), over the model of "
         "parse_position / load_position / the command loop; E2E_position_then_go (props/EndToEnd.v): from the TEXT of `position startpos moves ...` to the rules "
         "of chess (C08+C03+C01+C11/C17 invariant+C09 composed: the board abstracts to the rules position after those moves, and any following go answers with one "
         "bestmove legal in the rules position). Tie: sessions over the pipe with the guarded verifdump command, full state vs model. Sessions include refused extensions followed by the right extension, the same placement given with other counters, and every prefix of a session as a session of its own.",
         TB + "the search thread is abstracted in the sequential session model (protocol: C10).", "Coq proof over the UCI model + session correspondence over the pipe"),
 "C09": ("Theorem C09_answer: for every game, position with a legal move, limit combination, clock oracle and stop oracle the search output is "
         "info lines followed by exactly one bestmove naming a legal move; C09_flag_cleared. Tie: in-process answers for every node budget and for stop / "
         "clock / movetime interruptions at oracle-indexed points vs model; limit grid over the pipe (one legal bestmove per go, readyok after). PARTIAL: wall-clock latency is measured (runtime "
         "evidence, 3-of-3 rule), not proved. Further legs on the real binary: a go after every advertised option at its extremes; backward analysis in one cache (successors searched before their predecessor).",
         TB + "clock/stop are oracles; latency in milliseconds is outside the theorem.", "Coq proof over the search model with arbitrary abort oracles + correspondence + pipe grid"),
 "C10": ("Invariants over ALL reachable states of the input-thread x search-threads transition system (any command list, any schedule): one "
         "bestmove per accepted go, go never silent, refused only while searching and unstopped, stop clears and flags never re-arm, a stopped "
         "thread exits within 5 own steps, the input thread blocks only on such a thread; C10_never_wedged (from every reachable state a bounded continuation "
         "processes every command and ends every thread, with bestmoves = accepted go's), C10_stop_suffices; refutation witnesses for the unrepaired code. Tie: 13 "
         "catalogued interleavings forced on the real binary via guarded schedule points vs the model's run of the same schedule, plus slowly played command "
         "histories of any shape (determined interleaving) vs the model. PARTIAL: "
         "weak-memory effects of Relaxed atomics and real-time promptness are outside the model.",
         TB + "atomics modelled as sequentially consistent steps; the go check (flag load + is_finished) modelled as one step.", "Coq proof (inductive invariants of an LTS) + forced-schedule runs"),
 "C11": ("Theorems C11_contract / C11_root / C11_search for an ARBITRARY game: with caching neutralised the root score is the exact negamax "
         "value of the look-ahead game (check extension, quiescence, draws, mate distance, ply cap) and the chosen move attains it, for every "
         "window, depth, ordering, killer/cache content. Tie: cache-off searches engine vs model, and engine vs the reference V evaluated in Coq.",
         TB + "evaluation range hypothesis Inv_eval (chess: C17_value under <= 16 pieces a side).", "Coq proof (fuel induction, PVS loop contract, permutation invariance) + value correspondence"),
 "C12": ("Cache ON, arbitrary game: (1) C12_mate_in_one — ANY cache content satisfying an invariant the search maintains (so also after earlier iterations and "
         "earlier searches of the same position): a completed iteration of any depth >= 1 chooses a mating move whenever one exists. (2) C12_mate_scores_sound_iteration / "
         "_search (props/C12sound.v, chess instance props/C12soundchess.v) — MATE SCORES NEVER LIE: for any limits, clock, stop timing, depth, and any cache content that is "
         "mate-sound (the empty cache; whatever earlier searches left: the invariant tt_sound is re-established), a final score >= 32000 means the announced move forces "
         "checkmate and a score <= -32000 means the position is lost, in the sense of spec/Mate.v (unbounded forced mate over the bare rules); the bounded oracle the check "
         "evaluates implies that notion (C12_oracle_sound) and finds every forced mate for some bound (C12_oracle_complete); props/C12rules.v: the model's Won/Lost are "
         "EQUIVALENT to Won/Lost over spec/Rules.v for every wf_rules board, without any counter guard (C12_model_mates_are_rules_mates), hence C12_mate_scores_sound_rules: "
         "a mate score means the announced move is a legal move of the rules of chess after which the opponent is lost under the rules; props/EndToEndMate.v: the same from "
         "session text (`position startpos|fen ... moves ...` then `go`), composed with the end-to-end theorem of C08. This is the soundness half of 'keeps a forced mate' with the cache on; ply-relative scores blur the DISTANCE "
         "of a mate (the engine does prefer a mate in three to a mate in two now and then: witness in DESIGN.md), never its existence. Cache neutralised: ALL THREE clauses "
         "as theorems (props/C12off.v, props/C12offchess.v) from C11, with the value characterisation. (3) COMPLETENESS, cache on (props/C12seen.v): C12_quiet_mate_in_two_seen / _search — under key_inj (the key determines the position including clock and "
         "repetition record) and seldepth < 254, a mate in two with a QUIET key move is always seen (score >= 32000, the chosen move forces mate) from any mate-sound, "
         "short-mate-complete cache, both invariants re-established by every completed iteration of any depth (C12_seen_preserved); C12_avoids_mate_in_one_cache_on / _search: unless the final score "
         "is <= -32000 the chosen move does not allow a mate in one (clause 3, cache on, depth >= 2); C12_seen_nonvacuous: a concrete instance of every hypothesis; props/C12seenRefuted.v closes by "
         "vm_compute that for a key move giving check the statement is FALSE of the model (alpha_beta probes with depth d, extends when in check, stores with d+1); "
         "props/C12strict.v closes that the DISTANCE of a mate is not kept (mate in three preferred to mate in two on 1k6/8/2RK4/8/3Q4/8/8/8 w). PARTIAL: completeness of "
         "clause 2 for checking key moves and of clause 3, and anything depending on graph-history interaction (the key ignores clock and path), are not theorems; those "
         "are judged on the engine: committed mate corpus and "
         "9 000 (quick) / 150 000 (thorough) random sparse and maximal-mobility positions x 8-10 sequences of searches sharing the cache, every chosen move judged by a mate "
         "oracle (validated against the Coq oracle each run) and every mate score confirmed by an exhaustive memoised solver.",
         TB + "key_sem (a key collision never confuses a won/lost position with one that is not) and key injectivity for clause 1 are hypotheses; completeness of clauses 2-3 "
         "with the cache on is validated, not proved.", "Coq proofs (mate-soundness invariant of the cache; two-mode invariant for mate in one; mate values of the exact negamax) + oracle-judged hunt on the engine"),
 "C13": ("Theorems C13_prefix (ANY limits, ANY monotone clock, ANY monotone stop oracle, any game/position/depth/initial cache, cache on or off: the "
         "cache writes of the interrupted search are an initial segment of the writes of the same search left uninterrupted, so nothing written stems "
         "from an unfinished subtree and nothing is written after the cut), C13_cut_cache_is_a_full_run_cache, C13_budget (every write below the budget "
         "with the flag set), C13_over_budget_is_inert. Tie: complete cache-write traces engine vs model for every node budget 1..size of the full "
         "search, and for stop / game-clock / movetime interruptions forced at the K-th leaf with the oracle index (which flag load, which clock "
         "reading) reported by guarded counters and fed to the model; prefix property also checked on the engine alone. The driver also compares the REAL cache content with what the observed writes say after every search; asymmetric game clocks and deep (iteration 6-8) node-budget cuts judged by the prefix property.",
         TB, "Coq proof (lockstep simulation of cut vs full run; trace invariant) + write-trace correspondence over all budgets and oracle cut points"),
 "C14": ("Theorems C14_depths_in_order (any limits/oracles: depths 1..k then the single bestmove), C14_pv_checked, C14_depth_only (depth N alone "
         "reports every depth 1..N). Tie: structured output trace engine vs model; real info lines matched against the UCI grammar and PVs "
         "replayed on the model. PARTIAL: character-level syntax is validated on real output, not proved. Long runs (go depth 255 on tiny positions and bare kings, depth 10-12 on pawn endings) have every depth required and every PV replayed through the engine's legal-move generator; lines are judged by a general UCI grammar, the exact text only as a correspondence.",
         TB, "Coq proof over the output trace + correspondence + grammar validation of real lines"),
 "C15": ("Theorems C15_parse_total (no slice/index/unwrap of the parser can fail, any token list), C15_step_total, C15_loop_ends (ends at quit or "
         "end of input: never crashes, never spins), C15_ready_answered. Tie: every token sequence of length <=2 (and 3 after a parsing command) "
         "over a 33-word vocabulary + grammar stream, engine parser vs model; pipe sessions ended by quit / closed stdin. PARTIAL: time-to-exit "
         "measured; non-ASCII input outside the model. Lines are also sent as BYTES (invalid UTF-8, long multi-byte tokens at every alignment): this leg exposed and now guards the repaired defect D12.",
         TB + "FEN arguments assumed valid (as the property states).", "Coq proof (panics as values, totality) + bounded-exhaustive parser correspondence"),
 "C16": ("Theorem C16_clock_free: without time limits the whole search is independent of every clock reading, i.e. a function of (position, "
         "depth bound, node budget, initial cache). Tie (the content): a guarded clock-skew hook makes the clock jump by 10^10 ms in mid-search with no time limit set: nothing may change; EXACT equality of best move, score, node count, seldepth, info lines and "
         "complete cache-write trace with the model; repeated runs in-process / cross-process / under load. PARTIAL: scheduler and hash-seed "
         "effects are runtime evidence. Engine-only legs: a 12-million-node search in two concurrent processes; bench twice; a process frozen with SIGSTOP for 125 s (305 s) in mid-search must print identical lines; a clock jumping by 10^10 ms without limits changes nothing.",
         TB, "Coq proof (clock independence) + exact-trace correspondence + repeated runs"),
 "C17": ("Theorems C17_mirror (every 64-bit board, saturation included), C17_antisym and C17_value (<= 16 pieces a side), C17_guard_needed. Tie: "
         "engine vs model on corpus, walk positions and random positions with overflowing material, each as given / mirrored / side-swapped.",
         TB + "release-build wrapping i16 multiply written into the model.", "Coq proof (popcount under byte swap, i16 arithmetic) + evaluation correspondence"),
}
REQUIRES = {"C02": ["proofs/BoardProofs.v"], "C04": ["proofs/BoardProofs.v"]}
PENDING = {
 "C02": "proof file proofs/BoardProofs.v (make/unmake inverse) still being completed in this revision; the engine-vs-model unmake comparison runs inside the board correspondence",
 "C04": "proof file proofs/BoardProofs.v (key invariance) still being completed in this revision; keys are compared at every node of the board correspondence",
}


def main():
    props = [json.loads(l) for l in open(os.path.join(VERIF, "properties.jsonl"))]
    hooks = subprocess.run(["git", "-C", "/repo", "log", "--format=%h %s"], capture_output=True, text=True).stdout
    hook_commits = [l.split()[0] for l in hooks.splitlines() if "verif hooks" in l]
    m = {"version": 1, "setup_cmd": "./setup.sh",
         "hooks": {"guard": "rce_verif",
                   "enable": "RUSTFLAGS='--cfg rce_verif' RCE_VERIF_DRIVER=/verif/harness/driver.rs CARGO_TARGET_DIR=/verif/.cache/target cargo build --release --offline (in /repo)",
                   "baseline_off_cmd": "cd /repo && cargo test --workspace --no-fail-fast --offline",
                   "source_commits": hook_commits, "add_only": True},
         "engines": [{"name": "coq-model", "path": "coq/", "serves_properties": sorted(CLAIMED),
                      "kind_free_text": "Coq 8.16 development: executable model of the engine mirrored function by function (coq/model), "
                                        "specification layer (coq/spec, coq/lib/Geometry.v), theorems model |= spec (coq/proofs, coq/props); tied to /repo by "
                                        "constants regenerated from the running engine and a correspondence check against a driver compiled into the real crate"}],
         "checks": [], "not_applicable": [],
         "notes": "See DESIGN.md. Every check rebuilds the engine (+driver) from /repo's working tree, regenerates coq/generated/*.v from the "
                  "running engine, re-checks the proofs (make + Print Assumptions + forbidden-construct scan) and runs the correspondence. "
                  "Genuine defects found and repaired: known_findings.json."}
    for p in props:
        pid = p["id"]
        if pid in CLAIMED and os.path.exists(os.path.join(VERIF, "coq", "props", pid + ".v")) and \
                os.path.exists(os.path.join(VERIF, "lib", "props", pid.lower() + ".py")) and \
                all(os.path.exists(os.path.join(VERIF, "coq", r)) for r in REQUIRES.get(pid, [])):
            text, note, tech = CLAIMED[pid]
            m["checks"].append({"property_id": pid, "quick_cmd": "./check %s --tier quick" % pid,
                                "thorough_cmd": "./check %s --tier thorough" % pid,
                                "evidence_file": "evidence/%s.json" % pid,
                                "replay_cmd_template": "./check %s --replay {path}" % pid, "engine": "coq-model",
                                "level_claimed": {"category": "proof", "text": text, "design_ref": "DESIGN.md section 5, " + pid},
                                "level_note": note, "technique": tech})
        else:
            m["not_applicable"].append({"property_id": pid, "reason": PENDING.get(pid, "check not built yet in this revision")})
    json.dump(m, open(os.path.join(VERIF, "MANIFEST.json"), "w"), indent=1)
    print("claimed:", [c["property_id"] for c in m["checks"]])


if __name__ == "__main__":
    main()
