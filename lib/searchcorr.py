"""Search correspondence shared by C09, C11-C14, C16: the same (position, depth, node budget,
cache on/off, sequence of searches) cases run in-process on the real engine (driver `search`) and
through the Coq model (`search_case`, vm_compute); best move, score, node count, seldepth, the
complete cache-write trace and the info/bestmove output are compared."""
import hashlib
import json
import os
import random
import re
import time

import common as C
import boardcorr as B
import ucigrammar as UG

HEADER = ("From Coq Require Import NArith ZArith List String.\nImport ListNotations.\n"
          "From RCE Require Import lib.Bits model.Board model.Movegen model.Fen model.Search model.ChessSearch.\n"
          "Open Scope string_scope.\n")
MODEL_TARGETS = ["model/ChessSearch.vo"]


def positions():
    out = []
    for line in open(os.path.join(C.VERIF, "corpus", "search_fens.txt")):
        line = line.strip()
        if not line or line.startswith("#"):
            continue
        fen, _, ms = line.partition("|")
        out.append((fen.strip(), ms.split()))
    return out


def parse_spec(spec):
    m = re.match(r"d(\d+)(?:n(\d+))?(x?)(l?)(?:[scmk]\d+)?(?:t[\d:]+)?q?$", spec)
    return int(m.group(1)), (int(m.group(2)) if m.group(2) else None), m.group(3) == "x", m.group(4) == "l"


def coq_spec(spec):
    d, n, off, _ = parse_spec(spec)
    return "(%d%%nat, %s, %s)" % (d, "Some %d%%N" % n if n is not None else "None", "false" if off else "true")


def make_cases(tier, seed, groups):
    rng = random.Random(seed + 17)
    pos = positions()
    cases = []
    if "value" in groups:
        # C11 / C16: fixed depth, fresh cache, cache on and off
        for i, (fen, ms) in enumerate(pos):
            pieces = sum(1 for ch in fen.split()[0] if ch.isalpha())
            maxd = 3 if pieces <= 10 else 2
            if pieces <= 4 or (tier == "thorough" and pieces <= 6):
                maxd = 4
            for d in range(1, maxd + 1):
                cases.append({"group": "value", "fen": fen, "moves": ms, "specs": ["d%d" % d]})
                cases.append({"group": "value", "fen": fen, "moves": ms, "specs": ["d%dx" % d]})
    if "value" in groups:
        # en-passant captures that uncover a line through the captured pawn's square (every direction, both colours): the position
        # after the capture is a check the moved piece does not give (seeded change r8C12)
        import positions as PP
        epl = [f for fam, f in PP.line_geometry_families() if fam == "ep-line"][::4] + [f for _, f in PP.ep_discovered_check_families()]
        step = max(1, len(epl) // (56 if tier == "quick" else 500))
        for f in epl[seed % step::step]:
            for sp in ("d1", "d1x", "d2x"):
                cases.append({"group": "value", "fen": f, "moves": [], "specs": [sp]})
    if "material" in groups:
        # every small material signature, both sides to move: depth 2 (cache on and off), depth 3 on the even ones
        import positions as PP
        fam = PP.material_families(seed % 3, 2 if tier == "quick" else 6)
        for i, (name, fen) in enumerate(fam):
            cases.append({"group": "material", "fen": fen, "moves": [], "specs": ["d2"], "family": name})
            cases.append({"group": "material", "fen": fen, "moves": [], "specs": ["d2x"], "family": name})
            if i % 2 == 0:
                cases.append({"group": "material", "fen": fen, "moves": [], "specs": ["d3", "d2"], "family": name})
    if "budget" in groups:
        # C13 / C09: every node budget up to the size of the full search
        chosen = [pos[i] for i in (0, 2, 5, 7, 13)] if tier == "quick" else pos[:14]
        for fen, ms in chosen:
            pieces = sum(1 for ch in fen.split()[0] if ch.isalpha())
            d = 2 if pieces > 10 else 3
            if tier == "quick" and pieces > 20:
                d = 2
            cases.append({"group": "budget-probe", "fen": fen, "moves": ms, "specs": ["d%d" % d], "depth": d})
    if "cut" in groups:
        # C13 / C09: interruption by stop (s), by the game clock (c) or by movetime (m), forced at the K-th leaf
        # evaluation.  The engine reports the index of the flag load / clock reading that first sees the
        # interruption (guarded counters); the model is run with exactly that oracle and everything is compared.
        chosen = [pos[i] for i in (0, 2, 5, 13, 17)] if tier == "quick" else pos
        for fen, ms in chosen:
            pieces = sum(1 for ch in fen.split()[0] if ch.isalpha())
            d = 3 if pieces <= 20 else 2
            ks = [1, 2, 3, 5, 8, 13, 21, 34, 55, 89, 144, 233] if tier == "quick" else list(range(1, 400, 3))
            cases.append({"group": "cut-full", "fen": fen, "moves": ms, "specs": ["d%d" % d], "depth": d})
            for k in ks:
                cases.append({"group": "cut", "fen": fen, "moves": ms, "specs": ["d%ds%d" % (d, k)], "depth": d})
            for k in (ks[2::3] if tier == "quick" else ks[::4]):
                cases.append({"group": "cut", "fen": fen, "moves": ms, "specs": ["d%dc%d" % (d, k)], "depth": d})
            for k in (ks[1::3] if tier == "quick" else ks[1::4]):
                cases.append({"group": "cut", "fen": fen, "moves": ms, "specs": ["d%dm%d" % (d, k)], "depth": d})
            # game clocks that differ wildly between the two sides (engine only, judged by the prefix property): whatever the time
            # management does with them, what it caches must be an initial segment of the uninterrupted run (seeded change r7C13: a hard
            # limit computed from the clock of the side to move AT THE NODE, so a child sees "time is up" and its parent does not)
            for clk in ("8:30000:2000:2000", "30000:8:2000:2000", "1:60000:20000:0", "60000:1:0:20000", "19:100000:0:0", "100000:19:0:0"):
                cases.append({"group": "cutx", "fen": fen, "moves": ms, "specs": ["d%dt%s" % (d, clk)], "depth": d, "nomodel": True})
            # no time limit given and the clock jumps by four months at the K-th leaf: nothing may change (C16_clock_free)
            for k in (ks[0::4] if tier == "quick" else ks[2::4]):
                cases.append({"group": "cut", "fen": fen, "moves": ms, "specs": ["d%dk%d" % (d, k)], "depth": d})
    if "cut" in groups:
        # engine-only, EXHAUSTIVE over the cut point: the clock / a stop / movetime strikes at the K-th leaf evaluation for every K
        # (strided above a cap) on tactical positions (checks at the horizon, captures pending); judged by the prefix property
        tact = ["3q2k1/5ppp/8/8/Q7/8/P4PPP/4R1K1 w - - 0 1", "r3k2r/p1ppqpb1/bn2pnp1/3PN3/1p2P3/2N2Q1p/PPPBBPPP/R3K2R w KQkq - 0 1",
                "6k1/5ppp/8/8/8/8/5PPP/R5K1 w - - 0 1", "r1bqkb1r/pppp1ppp/2n2n2/4p2Q/2B1P3/8/PPPP1PPP/RNB1K1NR w KQkq - 4 4",
                "8/2p5/3p4/KP5r/1R3p1k/8/4P1P1/8 w - - 0 1"]
        for fen in tact:
            for d in (1, 2):
                cases.append({"group": "cutx-probe", "fen": fen, "moves": [], "specs": ["d%d" % d], "depth": d, "nomodel": True})
    if "cut" in groups:
        # engine-only: DEEP iterations interrupted by node budgets on pawn endings (iteration 6-8 cut at ~150 points): judged by the
        # prefix property and by "cache content = observed writes" (seeded change r9C13 fires only in iterations >= 6)
        for fen in ("8/8/p7/P7/8/4K3/8/7k w - - 0 1", "7k/8/8/8/8/P7/8/7K w - - 0 1", "8/8/4k3/8/8/4P3/8/4K3 w - - 0 1", "k7/7p/8/8/8/8/8/K7 b - - 0 1"):
            cases.append({"group": "cutd-probe", "fen": fen, "moves": [], "specs": ["d8"], "depth": 8, "nomodel": True})
    if "timer" in groups:
        # C09: the time-management budget for both colours
        for i in range(24 if tier == "quick" else 400):
            w, b = rng.choice([0, 1, 19, 20, 999, 60000]), rng.choice([0, 1, 19, 20, 200, 60000])
            wi, bi = rng.choice([0, 1, 3, 20000]), rng.choice([0, 1, 2, 500])
            fen, ms = (pos[0][0], []) if i % 2 == 0 else (pos[0][0], ["e2e4"])
            cases.append({"group": "timer", "fen": fen, "moves": ms, "specs": ["d1n1t%d:%d:%d:%d" % (w, b, wi, bi)],
                          "nomodel": True, "clocks": [w, b, wi, bi], "black": i % 2 == 1})
    if "seq" in groups:
        # C12 / C16: sequences of searches of one position sharing the cache
        seqs = [["d3"], ["d4", "d3"], ["d2", "d4", "d3"], ["d3", "d3"], ["d1", "d2", "d3"]]
        chosen = [p for p in pos if sum(1 for ch in p[0].split()[0] if ch.isalpha()) <= 8]
        if tier == "quick":
            chosen = chosen[:6]
            seqs = seqs[:4]
        for fen, ms in chosen:
            for sq in seqs:
                cases.append({"group": "seq", "fen": fen, "moves": ms, "specs": sq})
    return cases


def run_engine(cases, timeout=1800):
    inp = "".join("%s | %s | %s\n" % (c["fen"], " ".join(c["moves"]), ";".join(c["specs"])) for c in cases)
    rc, so, se = C.driver(["search"], inp, timeout=timeout)
    if rc != 0:
        raise RuntimeError("driver search failed rc=%s %s" % (rc, se[-500:]))
    out = []
    cur = None
    for line in so.splitlines():
        if line.startswith("BEGIN "):
            cur = {"results": [], "lines": []}
        elif line.startswith("END "):
            out.append(cur)
            cur = None
        elif line.startswith("RESULT "):
            r = json.loads(line[7:])
            r["lines"] = cur["lines"]
            cur["lines"] = []
            cur["results"].append(r)
        elif cur is not None:
            cur["lines"].append(line)
    if len(out) != len(cases):
        raise RuntimeError("driver search: %d results for %d cases" % (len(out), len(cases)))
    return out


def run_model(cases, timeout=3000):
    def cost(c):
        pieces = sum(1 for ch in c["fen"].split()[0] if ch.isalpha())
        return sum(30 ** min(parse_spec(s)[0], 3) for s in c["specs"]) * pieces
    order = sorted([i for i in range(len(cases)) if not cases[i].get("nomodel")], key=lambda i: -cost(cases[i]))
    items = []
    for i in order:
        c = cases[i]
        if c["group"] == "cut":
            # the oracle index observed on the engine: flag load (stop) or clock reading (clock, movetime)
            kind = {"s": 0, "c": 1, "m": 2, "k": 3}[re.search(r"[scmk]", c["specs"][0]).group(0)]
            idx = c.get("cut_index", -1)
            items.append("cut_case %s [%s] %d%%nat %d%%N %s%%N true" % (
                B.coq_str(c["fen"]), "; ".join(B.coq_str(m) for m in c["moves"]), c["depth"], kind,
                idx if idx >= 0 else 10 ** 12))
            continue
        items.append("search_case %s [%s] [%s]" % (B.coq_str(c["fen"]), "; ".join(B.coq_str(m) for m in c["moves"]),
                                                    "; ".join(coq_spec(s) for s in c["specs"])))
    vals, lg = C.coq_eval_items("scorr", HEADER, items, lambda l: l, nshards=C.NPROC * 2, timeout=timeout)
    if vals is None:
        return None, lg
    out = [None] * len(cases)
    for i, v in zip(order, vals):
        out[i] = B.norm(v)
    return out, lg


def dec_z(p):
    return -p[1] if p[0] == 1 else p[1]


def parse_info(line):
    """one engine output line -> {"bestmove": m} | the fields of a valid UCI info line | {"other": line} (anything else, including an
    info line that is not valid UCI: lib/ucigrammar.py)"""
    f = line.split()
    if not f:
        return None
    if f[0] == "bestmove":
        return {"bestmove": f[1] if len(f) > 1 else None}
    if f[0] != "info":
        return {"other": line}
    d = UG.parse_info(line)
    if d is None:
        return {"other": line, "invalid_info": True}
    return d


def notation(enc):
    s, d, promo = enc[0], enc[1], enc[4]
    n = "abcdefgh"[s % 8] + str(s // 8 + 1) + "abcdefgh"[d % 8] + str(d // 8 + 1)
    if promo:
        n += {2: "q", 3: "r", 4: "b", 5: "n"}[(promo - 1) % 6]
    return n


def compare_case(case, eng, mod):
    """-> list of divergences {field, spec, engine, model}"""
    div = []
    if mod is None:
        return [{"field": "model-setup", "spec": None, "engine": None, "model": None}]
    mres = mod[1]
    for k, (spec, er) in enumerate(zip(case["specs"], eng["results"])):
        if er.get("where") == "setup":
            div.append({"field": "engine-setup-panic", "spec": spec})
            continue
        mbest, mscore, mnodes, msel, mwrites, mout = mres[k]
        if er["panic"]:
            div.append({"field": "engine-panic", "spec": spec, "engine": "panic in Search::search",
                        "model": [notation(o[6][0]) for o in mout if o[0] == 2]})
            continue
        mb = None if mbest is None else mbest[1]
        ms = None if mscore is None else dec_z(mscore[1])
        if er["best"] != mb:
            div.append({"field": "best_move", "spec": spec, "engine": er["best"], "model": mb})
        if er["score"] != ms:
            div.append({"field": "score", "spec": spec, "engine": er["score"], "model": ms})
        if er["nodes"] != mnodes:
            div.append({"field": "nodes", "spec": spec, "engine": er["nodes"], "model": mnodes})
        if er["seldepth"] != msel:
            div.append({"field": "seldepth", "spec": spec, "engine": er["seldepth"], "model": msel})
        ew = [[w[0], w[1], w[2], w[3], w[4], w[5], w[7]] for w in er["writes"]]
        mw = [[w[0], dec_z(w[1]), w[2], w[3], w[4], w[5], w[6]] for w in mwrites]
        if ew != mw:
            j = 0
            while j < min(len(ew), len(mw)) and ew[j] == mw[j]:
                j += 1
            div.append({"field": "writes", "spec": spec, "engine": {"n": len(ew), "first_diff": j, "at": ew[j] if j < len(ew) else None},
                        "model": {"n": len(mw), "at": mw[j] if j < len(mw) else None}})
        # output lines
        infos = [parse_info(l) for l in er["lines"]]
        infos = [x for x in infos if x]
        einfo = [x for x in infos if "depth" in x]
        ebm = [x for x in infos if "bestmove" in x]
        minfo = [o for o in mout if o[0] == 1]
        mbm = [o for o in mout if o[0] == 2]
        # judged on the engine alone (level "property"): exactly one bestmove line, naming a legal move of the searched position,
        # iteration reports numbered 1, 2, 3, ... without gaps or repeats, every info line valid UCI
        if len(ebm) != 1:
            div.append({"field": "bestmove-count", "spec": spec, "engine": ebm, "model": [notation(o[6][0]) for o in mbm]})
        elif er.get("legal") and ebm[0]["bestmove"] not in er["legal"]:
            div.append({"field": "bestmove-illegal", "spec": spec, "engine": ebm[0]["bestmove"], "model": er["legal"]})
        if any(x.get("invalid_info") for x in infos):
            div.append({"field": "info-invalid", "spec": spec, "engine": [x["other"] for x in infos if x.get("invalid_info")][:3], "model": None})
        edepths = [x["depth"] for x in einfo if UG.iteration_report(x)]
        if edepths != list(range(1, len(edepths) + 1)):
            div.append({"field": "info-order", "spec": spec, "engine": edepths, "model": [o[1] for o in minfo]})
        # compared with the model (level "internal" unless the property fixes the value)
        if len(ebm) != 1 or len(mbm) != 1 or ebm[0]["bestmove"] != notation(mbm[0][6][0]):
            div.append({"field": "bestmove-line", "spec": spec, "engine": ebm, "model": [notation(o[6][0]) for o in mbm]})
        if len(einfo) != len(minfo):
            div.append({"field": "info-count", "spec": spec, "engine": [x.get("depth") for x in einfo],
                        "model": [o[1] for o in minfo]})
        else:
            for ei, mi in zip(einfo, minfo):
                kind = {0: "cp", 1: "mate", 2: "mate", 3: None}[mi[4]]
                val = dec_z(mi[5]) if mi[4] != 3 else None
                if mi[4] == 2:
                    val = -val
                exp = {"depth": mi[1], "nodes": mi[3], "score_kind": kind, "score": val,
                       "pv": [notation(p) for p in mi[6]]}
                got = {k2: ei.get(k2) for k2 in exp}
                if mi[2] != 0:
                    exp["seldepth"] = mi[2]
                    got["seldepth"] = ei.get("seldepth")
                if got != exp:
                    div.append({"field": "info-line", "spec": spec, "engine": got, "model": exp})
    return div


def run(tier, seed, groups=("value", "budget", "seq", "cut", "timer", "material")):
    ok, mlog = C.coq_make(MODEL_TARGETS)
    if not ok:
        return {"error": "model does not build", "log": mlog[-3000:]}
    groups = tuple(sorted(groups))
    key = hashlib.sha256((B.sha_file(C.ENGINE) + B.model_hash() + open(__file__, "rb").read().decode()
                          + "%s|%s|%s" % (tier, seed, groups)).encode()).hexdigest()[:24]
    cpath = os.path.join(C.CACHE, "searchcorr_%s.json" % key)
    with C.Lock("searchcorr"):
        if os.path.exists(cpath):
            return json.load(open(cpath))
        t0 = time.time()
        cases = make_cases(tier, seed, groups)
        eng = run_engine(cases)
        # budget probes: expand into one case per node budget 1..full size (measured on the engine)
        extra = []
        for c, e in zip(cases, eng):
            if c["group"] == "budget-probe" and e["results"] and not e["results"][0].get("panic"):
                full = e["results"][0]["nodes"]
                step = 1
                if tier == "quick" and full > 150:
                    step = full // 150 + 1
                elif tier != "quick" and full > 500:
                    step = full // 500 + 1
                budgets = list(range(1, full + 2, step))
                for n in budgets:
                    extra.append({"group": "budget", "fen": c["fen"], "moves": c["moves"],
                                  "specs": ["d%dn%d" % (c["depth"], n)], "full": full})
        for c, e in zip(cases, eng):
            if c["group"] == "cutd-probe" and e["results"] and not e["results"][0].get("panic"):
                full = e["results"][0]["nodes"]
                npts = 160 if tier == "quick" else 1200
                step = max(1, full // npts)
                for n in range(200 + (seed % step), full + 1, step):
                    extra.append({"group": "cutx", "fen": c["fen"], "moves": [], "specs": ["d8n%d" % n], "depth": 8, "nomodel": True})
        for c, e in zip(cases, eng):
            if c["group"] == "cutx-probe" and e["results"] and not e["results"][0].get("panic"):
                full = e["results"][0]["nodes"]
                cap = 400 if tier == "quick" else 4000
                step = max(1, full // cap + (1 if full % cap else 0)) if full > cap else 1
                for kind in "csm":
                    for k in range(1 + (seed % step), full + 1, step):
                        extra.append({"group": "cutx", "fen": c["fen"], "moves": [], "specs": ["d%d%s%d" % (c["depth"], kind, k)],
                                      "depth": c["depth"], "nomodel": True})
        if extra:
            cases = cases + extra
            eng = eng + run_engine(extra)
        for c, e in zip(cases, eng):
            if c["group"] == "cut" and e["results"]:
                r0 = e["results"][0]
                c["cut_index"] = r0.get("cut_loads", -1) if "s" in c["specs"][0][1:] else r0.get("cut_reads", -1)
        t1 = time.time()
        mod, lg = run_model(cases)
        t2 = time.time()
        if mod is None:
            return {"error": "model evaluation failed", "log": lg[-3000:]}
        divs = []
        for i, (c, e, m) in enumerate(zip(cases, eng, mod)):
            if c.get("nomodel"):
                continue
            for d in compare_case(c, e, m):
                divs.append([i, d])
        res = {"cases": cases, "engine": eng, "divergences": divs,
               "stats": {"cases": len(cases), "searches": sum(len(c["specs"]) for c in cases),
                         "nodes_total": sum(r.get("nodes", 0) for e in eng for r in e["results"]),
                         "writes_total": sum(len(r.get("writes", [])) for e in eng for r in e["results"]),
                         "groups": {g: sum(1 for c in cases if c["group"] == g) for g in set(c["group"] for c in cases)},
                         "engine_s": round(t1 - t0, 1), "model_s": round(t2 - t1, 1)}}
        with open(cpath + ".tmp", "w") as f:
            json.dump(res, f)
        os.replace(cpath + ".tmp", cpath)
        return res
