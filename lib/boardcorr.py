"""Board / move-generation / key correspondence shared by C01-C05 (and reused by C07/C08):
the same positions and move sequences are run through the real engine (driver `walk`) and
through the Coq model (`walk_case`, vm_compute), node by node, and every observable is compared.
One run serves several properties; results are cached under .cache keyed by the engine binary,
the model sources, the seed and the tier."""
import hashlib
import json
import os
import random
import time

import common as C
import positions as P

HEADER = ("From Coq Require Import NArith List String.\nImport ListNotations.\n"
          "From RCE Require Import lib.Bits model.Board model.Movegen model.Fen model.CasesBoard.\n"
          "Open Scope string_scope.\n")

MODEL_TARGETS = ["model/CasesBoard.vo", "model/CasesSpec.vo"]
SPEC_HEADER = HEADER.replace("model.CasesBoard.", "model.CasesBoard model.CasesSpec.")
SPEC_NAMES = ["spec.legal_set", "spec.nodup", "spec.check_white", "spec.check_black", "spec.apply", "spec.flags", "spec.wf", "info.wf_full", "spec.wf_full_preserved"]


def norm(x):
    if isinstance(x, tuple):
        if len(x) == 2 and x[0] == "Some":
            return ["Some", norm(x[1])]
        return [norm(y) for y in x]
    if isinstance(x, list):
        return [norm(y) for y in x]
    if x is True:
        return 1
    if x is False:
        return 0
    return x


def flatten_pairs(x):
    """Coq prints nested pairs (a, b, c) already flattened by the parser; nothing to do."""
    return x


def coq_str(s):
    return '"%s"' % s.replace('"', '""')


def sha_file(path):
    h = hashlib.sha256()
    with open(path, "rb") as f:
        for chunk in iter(lambda: f.read(1 << 20), b""):
            h.update(chunk)
    return h.hexdigest()


def model_hash():
    h = hashlib.sha256()
    for root, _, files in sorted(os.walk(os.path.join(C.COQ, "model"))):
        for fn in sorted(files):
            if fn.endswith(".v"):
                h.update(open(os.path.join(root, fn), "rb").read())
    for fn in ("generated/Consts.v", "generated/ZTable.v", "lib/Bits.v", "lib/Geometry.v"):
        h.update(open(os.path.join(C.COQ, fn), "rb").read())
    for fn in ("lib/boardcorr.py", "lib/positions.py", "harness/driver.rs", "corpus/fens.txt"):
        p = os.path.join(C.VERIF, fn)
        if os.path.exists(p):
            h.update(open(p, "rb").read())
    return h.hexdigest()


def make_cases(tier, seed):
    rng = random.Random(seed)
    corpus = P.corpus()
    bench = P.bench_fens()
    probes = P.probe_families()
    cases = []  # dict(kind, fen, moves(list), deep)
    for fen in corpus:
        cases.append({"kind": "corpus", "fen": fen, "moves": [], "deep": True})
    # key-collision pairs back to back, in both orders, on one engine thread: a memo keyed by the position key alone answers the second
    # with the first one's data (seeded change r6C01)
    for a, b in P.collision_pairs():
        for fen in (a, b, a, b):
            cases.append({"kind": "collision", "fen": fen, "moves": [], "deep": False})
    for fen in bench:
        cases.append({"kind": "bench", "fen": fen, "moves": [], "deep": False})
    for fam, fen in probes:
        cases.append({"kind": "probe:" + fam, "fen": fen, "moves": [], "deep": False})
    # lines through the king x the pawns of an en-passant capture / every pinned piece type (all directions, both colours)
    geom = P.line_geometry_families()
    if tier == "quick":
        geom = [g for i, g in enumerate(geom) if g[0] != "ep-line" or i % 2 == seed % 2]
    for fam, fen in geom:
        cases.append({"kind": "probe:" + fam, "fen": fen, "moves": [], "deep": False})
    epd = P.ep_discovered_check_families()
    for fam, fen in (epd if tier != "quick" else epd[seed % 3::3]):
        cases.append({"kind": "probe:" + fam, "fen": fen, "moves": [], "deep": False})
    for fam, fen in P.corner_rook_capture_families():
        # one ply of every legal move (the capture among them) and then every reply: "deep"
        cases.append({"kind": "probe:" + fam, "fen": fen, "moves": [], "deep": True})
    clocks = P.clock_families()
    for fam, fen in clocks:
        cases.append({"kind": "probe:" + fam, "fen": fen, "moves": [], "deep": False})
    # random legal walks chosen by the engine's own generator
    nwalks = 120 if tier == "quick" else 1500
    maxlen = 36 if tier == "quick" else 50
    starts = []
    pool = corpus + bench
    for i in range(nwalks):
        starts.append(pool[0] if i % 3 == 0 else pool[rng.randrange(len(pool))])
    # walks that step the counters across their boundaries (fifty-move limit, byte edge, large move numbers)
    cl = [fen for _, fen in clocks]
    starts += cl if tier != "quick" else [cl[(i * 5 + seed) % len(cl)] for i in range(28)]
    rc, so, se = C.driver(["randwalk", str(seed), str(maxlen)], "\n".join(starts) + "\n", timeout=600)
    if rc != 0:
        raise RuntimeError("randwalk failed: " + se[-1000:])
    for line in so.splitlines():
        fen, _, ms = line.partition("|")
        ms = ms.split()
        if ms == ["PANIC"]:
            cases.append({"kind": "walk-panic", "fen": fen.strip(), "moves": [], "deep": False})
            continue
        cases.append({"kind": "walk", "fen": fen.strip(), "moves": ms, "deep": False})
    # a few committed regression games (repetition shuffles etc.)
    reg = os.path.join(C.VERIF, "corpus", "games.txt")
    if os.path.exists(reg):
        for line in open(reg):
            line = line.strip()
            if not line or line.startswith("#"):
                continue
            fen, _, ms = line.partition("|")
            cases.insert(0, {"kind": "game", "fen": fen.strip(), "moves": ms.split(), "deep": True})
    return cases


def run_engine(cases):
    out = [None] * len(cases)
    for deep in (False, True):
        idxs = [i for i, c in enumerate(cases) if c["deep"] == deep]
        if not idxs:
            continue
        inp = "".join("%s | %s\n" % (cases[i]["fen"], " ".join(cases[i]["moves"])) for i in idxs)
        rc, so, se = C.driver(["walk"] + (["deep"] if deep else []), inp, timeout=1800)
        lines = so.splitlines()
        if rc != 0 or len(lines) != len(idxs):
            raise RuntimeError("driver walk failed rc=%s lines=%d/%d %s" % (rc, len(lines), len(idxs), se[-500:]))
        for i, l in zip(idxs, lines):
            out[i] = json.loads(l)
    return out


def run_model(cases, timeout=3000):
    # balance shards by estimated cost: sort by number of nodes*pieces, deal round robin
    def cost(c):
        pieces = sum(1 for ch in c["fen"].split()[0] if ch.isalpha())
        return (len(c["moves"]) + 1) * pieces * pieces * (8 if c["deep"] else 1)
    order = sorted(range(len(cases)), key=lambda i: -cost(cases[i]))
    items = []
    for i in order:
        c = cases[i]
        items.append("walk_case %s [%s] %s" % (coq_str(c["fen"]), "; ".join(coq_str(m) for m in c["moves"]),
                                                "true" if c["deep"] else "false"))
    # many small shards: memory per coqc stays below 1 GB and the load balances
    vals, lg = C.coq_eval_items("bcorr", HEADER, items, lambda l: l, nshards=max(C.NPROC * 2, len(items) // 40), timeout=timeout)
    if vals is None:
        return None, lg
    out = [None] * len(cases)
    for i, v in zip(order, vals):
        out[i] = norm(v)
    return out, lg


def run_spec(cases, timeout=3000):
    def cost(c):
        pieces = sum(1 for ch in c["fen"].split()[0] if ch.isalpha())
        return (len(c["moves"]) + 1) * pieces * pieces
    order = sorted(range(len(cases)), key=lambda i: -cost(cases[i]))
    items = ["spec_case %s [%s]" % (coq_str(cases[i]["fen"]), "; ".join(coq_str(m) for m in cases[i]["moves"]))
             for i in order]
    vals, lg = C.coq_eval_items("bspec", SPEC_HEADER, items, lambda l: l, nshards=max(C.NPROC * 2, len(items) // 40), timeout=timeout)
    if vals is None:
        return None, lg
    out = [None] * len(cases)
    for i, v in zip(order, vals):
        out[i] = norm(v)
    return out, lg


def sorted_ph(x):
    return sorted(x)


def compare_case(case, eng, mod):
    """Return a list of divergence dicts (field, node, engine, model)."""
    div = []
    if eng.get("panic"):
        if mod is not None:
            div.append({"field": "panic", "node": -1, "engine": "panic", "model": "value"})
        return div
    if mod is None:
        div.append({"field": "from_fen", "node": -1, "engine": "ok", "model": "None (reader panic)"})
        return div
    # mod = ["Some", [nodes, stuck]]
    mnodes, mstuck = mod[1]
    mstuck = None if mstuck is None else mstuck[1]
    enodes = eng["nodes"]
    estuck = eng["stuck"]
    if estuck != mstuck:
        div.append({"field": "move-accepted", "node": min(len(enodes), len(mnodes)) - 1, "engine": estuck,
                    "model": mstuck})
    for k, (en, mn) in enumerate(zip(enodes, mnodes)):
        est, emoves, epseudo, echk, enest, eflags = en
        # Coq prints left-nested pairs flattened: (core, hist, ph, moves, pseudo, checks, nested)
        mst, mmoves, mpseudo, mchk, mnest = mn[0:3], mn[3], mn[4], mn[5], mn[6]
        # state: core(+scratch key), history, remembered positions
        names = (["turn", "fullmove", "ep"] + ["bb%d" % i for i in range(15)] + ["zkey", "scratch_key"])
        for nm, a, b in zip(names, est[0], mst[0]):
            if a != b:
                div.append({"field": "state." + nm, "node": k, "engine": a, "model": b})
        if est[1] != mst[1]:
            # what the rules fix in the undo stack is its top: the current castling rights and half-move clock (the en-passant file is a
            # field of its own); the rest of a record (what was captured, flags ...) is how THIS implementation undoes a move
            top_e = est[1][-1][6:8] if est[1] else None
            top_m = mst[1][-1][6:8] if mst[1] else None
            if top_e != top_m or len(est[1]) != len(mst[1]):
                div.append({"field": "state.rights_clock", "node": k, "engine": est[1][-2:], "model": mst[1][-2:]})
            else:
                div.append({"field": "state.history", "node": k, "engine": est[1][-2:], "model": mst[1][-2:]})
        if sorted(est[2]) != sorted(mst[2]):
            div.append({"field": "state.position_history", "node": k, "engine": sorted(est[2]),
                        "model": sorted(mst[2])})
        # legal moves: as sets for C01, as lists for order
        eset = sorted(tuple(m[0]) for m in emoves)
        mset = sorted(tuple(m[0]) for m in mmoves)
        if eset != mset:
            div.append({"field": "legal.set", "node": k,
                        "engine": [list(x) for x in eset if x not in mset],
                        "model": [list(x) for x in mset if x not in eset]})
        elif [m[0] for m in emoves] != [m[0] for m in mmoves]:
            div.append({"field": "legal.order", "node": k, "engine": None, "model": None})
        else:
            for em, mm in zip(emoves, mmoves):
                if em[1] != mm[1]:
                    div.append({"field": "make.digest", "node": k, "engine": em[0], "model": mm[0]})
                if em[2] != mm[2]:
                    div.append({"field": "unmake.restored", "node": k, "engine": [em[0], em[2]],
                                "model": [mm[0], mm[2]]})
                if em[3] != mm[3]:
                    div.append({"field": "check.after", "node": k, "engine": [em[0], em[3]],
                                "model": [mm[0], mm[3]]})
        if epseudo != mpseudo:
            div.append({"field": "pseudo.count", "node": k, "engine": epseudo, "model": mpseudo})
        for nm, a, b in zip(["check.white", "check.black", "attacked.white", "attacked.black"], echk, mchk):
            if a != b:
                div.append({"field": nm, "node": k, "engine": a, "model": b})
        if enest != mnest:
            div.append({"field": "unmake.nested", "node": k, "engine": enest, "model": mnest})
    return div


def engine_self_checks(case, eng):
    """Properties observable on the engine alone (no model needed)."""
    out = []
    if eng.get("panic"):
        out.append({"field": "engine.panic", "node": -1})
        return out
    for k, en in enumerate(eng["nodes"]):
        est, emoves, epseudo, echk, enest, eflags = en
        if est[0][18] != est[0][19]:
            out.append({"field": "engine.key!=scratch", "node": k, "engine": est[0][18:20]})
        if eflags[0] != 1:
            out.append({"field": "engine.query_not_pure", "node": k})
        if eflags[1] != 1:
            out.append({"field": "engine.successor_key!=scratch", "node": k})
        for m in emoves:
            if m[2] != 1:
                out.append({"field": "engine.unmake_not_restored", "node": k, "engine": m[0]})
        for x in enest:
            if x != 1:
                out.append({"field": "engine.nested_not_restored", "node": k})
    return out


def features(case, eng):
    """Measured input distribution."""
    f = {"ep_available": 0, "castle_move": 0, "in_check": 0, "promotion": 0, "capture": 0, "nodes": 0,
         "repeated_position": 0, "mate_or_stalemate": 0}
    if eng.get("panic"):
        return f
    for en in eng["nodes"]:
        est, emoves, epseudo, echk, enest, eflags = en
        f["nodes"] += 1
        if est[0][2] != 0:
            f["ep_available"] += 1
        if any(m[0][5] & 1 for m in emoves):
            f["castle_move"] += 1
        if echk[0] or echk[1]:
            f["in_check"] += 1
        if any(m[0][4] for m in emoves):
            f["promotion"] += 1
        if any(m[0][3] for m in emoves):
            f["capture"] += 1
        if est[0][18] in est[2]:
            f["repeated_position"] += 1
        if not emoves:
            f["mate_or_stalemate"] += 1
    return f


def run(tier, seed):
    """Returns dict: cases, divergences (list of (case index, div)), self (engine-only findings),
    stats.  Cached."""
    os.makedirs(C.CACHE, exist_ok=True)
    ok, mlog = C.coq_make(MODEL_TARGETS)
    if not ok:
        return {"error": "model does not build", "log": mlog[-3000:]}
    key = hashlib.sha256((sha_file(C.ENGINE) + model_hash() + "%s|%s" % (tier, seed)).encode()).hexdigest()[:24]
    cpath = os.path.join(C.CACHE, "boardcorr_%s.json" % key)
    with C.Lock("boardcorr"):
        if os.path.exists(cpath):
            return json.load(open(cpath))
        t0 = time.time()
        cases = make_cases(tier, seed)
        eng = run_engine(cases)
        t1 = time.time()
        mod, lg = run_model(cases)
        t2 = time.time()
        if mod is None:
            return {"error": "model evaluation failed", "log": lg[-3000:]}
        spec, lg2 = run_spec(cases)
        t3 = time.time()
        if spec is None:
            return {"error": "spec evaluation failed", "log": lg2[-3000:]}
        divs = []
        spec_nodes = 0
        wf_full_nodes = 0
        for i, sp in enumerate(spec):
            if sp is None:
                continue
            for k, flags in enumerate(sp[1]):
                spec_nodes += 1
                for nm, fl in zip(SPEC_NAMES, flags):
                    if nm == "info.wf_full":
                        wf_full_nodes += fl
                        continue
                    if fl != 1:
                        divs.append([i, {"field": nm, "node": k, "engine": None, "model": "model disagrees with spec/Rules.v"}])
        selfc = []
        feat = {}
        nodes = 0
        distinct = set()
        for i, (c, e, m) in enumerate(zip(cases, eng, mod)):
            for d in compare_case(c, e, m):
                divs.append([i, d])
            for d in engine_self_checks(c, e):
                selfc.append([i, d])
            fc = features(c, e)
            for k2, v in fc.items():
                feat[k2] = feat.get(k2, 0) + v
            if not e.get("panic"):
                for en in e["nodes"]:
                    nodes += 1
                    distinct.add(en[0][0][18] * 4 + 0)
        kinds = {}
        for c in cases:
            k2 = c["kind"].split(":")[0]
            kinds[k2] = kinds.get(k2, 0) + 1
        moves_probed = sum(len(en[1]) for e in eng if not e.get("panic") for en in e["nodes"])
        res = {"cases": cases, "divergences": divs, "self": selfc,
               "stats": {"cases": len(cases), "nodes": nodes, "distinct_positions": len(distinct),
                         "moves_probed": moves_probed, "features": feat, "case_kinds": kinds,
                         "spec_nodes": spec_nodes, "wf_full_nodes": wf_full_nodes,
                         "engine_s": round(t1 - t0, 1), "model_s": round(t2 - t1, 1), "spec_s": round(t3 - t2, 1)},
               "sample": {"case": cases[-1], "engine_first_node_state": eng[-1]["nodes"][0][0] if not eng[-1].get("panic") else None}}
        with open(cpath + ".tmp", "w") as f:
            json.dump(res, f)
        os.replace(cpath + ".tmp", cpath)
        return res
