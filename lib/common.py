"""Shared machinery of ./check: build the engine (+driver) from /repo's working tree, regenerate
the Coq constants, build the Coq development, run the proof gate, run model cases inside Coq,
write evidence, report violations."""
import fcntl
import hashlib
import json
import os
import re
import subprocess
import sys
import time

VERIF = os.path.dirname(os.path.dirname(os.path.abspath(__file__)))
REPO = os.environ.get("RCE_REPO", "/repo")
CACHE = os.path.join(VERIF, ".cache")
TARGET = os.path.join(CACHE, "target")
COQ = os.path.join(VERIF, "coq")
CASES = os.path.join(CACHE, "cases")
ENGINE = os.path.join(TARGET, "release", "rust_chess_engine")
DRIVER = os.path.join(VERIF, "harness", "driver.rs")
NPROC = int(os.environ.get("VERIF_JOBS", "16"))

sys.path.insert(0, os.path.join(VERIF, "lib"))
import gen  # noqa: E402


class Lock:
    def __init__(self, name):
        os.makedirs(CACHE, exist_ok=True)
        self.path = os.path.join(CACHE, name + ".lock")

    def __enter__(self):
        self.f = open(self.path, "w")
        fcntl.flock(self.f, fcntl.LOCK_EX)
        return self

    def __exit__(self, *a):
        fcntl.flock(self.f, fcntl.LOCK_UN)
        self.f.close()


def log(msg):
    print(msg, flush=True)


def _limit_memory():
    # a run-away engine process (a mutated search that never ends keeps filling its unbounded cache) must not take the machine down
    try:
        import resource
        resource.setrlimit(resource.RLIMIT_AS, (12 << 30, 12 << 30))
    except Exception:
        pass


def run(cmd, timeout, cwd=None, env=None, input=None):
    e = dict(os.environ)
    if env:
        e.update(env)
    try:
        p = subprocess.run(cmd, cwd=cwd, env=e, input=input, capture_output=True, text=True,
                           timeout=timeout, preexec_fn=_limit_memory if cmd and cmd[0] == ENGINE else None)
        return p.returncode, p.stdout, p.stderr
    except subprocess.TimeoutExpired as ex:
        so = ex.stdout.decode() if isinstance(ex.stdout, bytes) else (ex.stdout or "")
        se = ex.stderr.decode() if isinstance(ex.stderr, bytes) else (ex.stderr or "")
        return 124, so, se + "\nTIMEOUT"


# ------------------------------------------------------------------------------------------
# engine

def build_engine():
    """cargo build --release of /repo's working tree with --cfg rce_verif and the driver.
    Returns (ok, log)."""
    with Lock("cargo"):
        env = {
            "RCE_VERIF_DRIVER": DRIVER,
            "RUSTFLAGS": "--cfg rce_verif",
            "CARGO_NET_OFFLINE": "true",
            "CARGO_TARGET_DIR": TARGET,
        }
        t0 = time.time()
        rc, so, se = run(["cargo", "build", "--release", "--offline", "--quiet"], 1200, cwd=REPO,
                         env=env)
        ok = rc == 0 and os.path.exists(ENGINE)
        return ok, (so + se)[-4000:], time.time() - t0


def driver(args, input_text="", timeout=600):
    """Run `engine verif <args>`; returns (rc, stdout, stderr)."""
    return run([ENGINE, "verif"] + list(args), timeout, input=input_text)


def gen_consts():
    rc, so, se = driver(["consts"], timeout=120)
    if rc != 0:
        return None, "consts dump failed rc=%s: %s" % (rc, se[-2000:])
    d = gen.parse_consts(so)
    with Lock("coqgen"):
        gen.write_if_changed(os.path.join(COQ, "generated", "Consts.v"), gen.consts_v(d))
        gen.write_if_changed(os.path.join(COQ, "generated", "ZTable.v"), gen.ztable_v(d))
    return d, ""


# ------------------------------------------------------------------------------------------
# Coq

def coq_makefile():
    mk = os.path.join(COQ, "Makefile")
    cp = os.path.join(COQ, "_CoqProject")
    if not os.path.exists(mk) or os.path.getmtime(mk) < os.path.getmtime(cp):
        run(["coq_makefile", "-f", "_CoqProject", "-o", "Makefile"], 120, cwd=COQ)


def coq_make(targets, timeout=3000):
    """make the given .vo targets (paths relative to coq/). Returns (ok, log)."""
    with Lock("coqmake"):
        coq_makefile()
        rc, so, se = run(["make", "-j%d" % NPROC] + list(targets), timeout, cwd=COQ)
        return rc == 0, (so + se)


FORBIDDEN = re.compile(r"\b(Admitted|admit|Axiom|Axioms|Parameter|Parameters|Conjecture|Conjectures|"
                       r"Hypothesis|Hypotheses|Variable|Variables|Admit Obligations)\b|Unset Guard|"
                       r"bypass_check|type-in-type|impredicative-set|Unset Universe Checking|"
                       r"Unset Positivity")


def strip_comments(src):
    out = []
    depth = 0
    i = 0
    while i < len(src):
        if src.startswith("(*", i):
            depth += 1
            i += 2
        elif src.startswith("*)", i) and depth > 0:
            depth -= 1
            i += 2
        else:
            if depth == 0:
                out.append(src[i])
            i += 1
    return "".join(out)


def forbidden_scan():
    """No Admitted/admit/Axiom/Parameter/... anywhere; Variable/Hypothesis only inside Sections."""
    bad = []
    for root, _, files in os.walk(COQ):
        for fn in files:
            if not fn.endswith(".v"):
                continue
            path = os.path.join(root, fn)
            src = strip_comments(open(path).read())
            depth = 0
            for ln, line in enumerate(src.splitlines(), 1):
                if re.match(r"\s*Section\b", line):
                    depth += 1
                m = FORBIDDEN.search(line)
                if m:
                    w = m.group(0)
                    if w in ("Variable", "Variables", "Hypothesis", "Hypotheses") and depth > 0:
                        pass
                    else:
                        bad.append("%s:%d: %s" % (os.path.relpath(path, VERIF), ln, line.strip()))
                if re.match(r"\s*End\b", line) and depth > 0:
                    depth -= 1
    return bad


def theorem_names(prop, prefix=None):
    src = strip_comments(open(os.path.join(COQ, "props", prop + ".v")).read())
    names = re.findall(r"^\s*(?:Theorem|Corollary)\s+(\w+)", src, re.M)
    if prefix:
        names = [n for n in names if n.startswith(prefix)]
    return names


ALLOWED_AXIOMS = set()   # target: every property theorem closed under the global context


def coqc_file(path, timeout=1200):
    return run(["coqc", "-q", "-noglob", "-Q", COQ, "RCE", path], timeout, cwd=os.path.dirname(path))


def print_assumptions(prop, extra=()):
    """Re-run Print Assumptions for every theorem of props/<prop>.v and of the extra props files
    (pairs (module, name prefix or None)); always executed, even when the .vo is cached.
    Returns (dict name -> 'closed' | [axioms], raw)."""
    names = theorem_names(prop)
    for mod, pre in extra:
        names += theorem_names(mod, pre)
    os.makedirs(CASES, exist_ok=True)
    path = os.path.join(CASES, "assume_%s_%d.v" % (prop, os.getpid()))
    with open(path, "w") as f:
        f.write("From RCE Require Import props.%s.\n" % prop)
        for mod, pre in extra:
            f.write("From RCE Require Import props.%s.\n" % mod)
        for n in names:
            f.write('Print Assumptions %s.\n' % n)
    rc, so, se = coqc_file(path)
    for ext in (".v", ".vo", ".vok", ".vos"):
        try:
            os.remove(path[:-2] + ext)
        except OSError:
            pass
    res = {}
    if rc != 0:
        return None, so + se
    chunks = re.split(r"(?=Closed under the global context|Axioms:)", so)
    chunks = [c for c in chunks if c.strip()]
    for n, c in zip(names, chunks):
        if c.startswith("Closed under the global context"):
            res[n] = "closed"
        else:
            res[n] = [l.split(":")[0].strip() for l in c.splitlines()[1:] if l and not l.startswith(" ")]
    if len(chunks) != len(names):
        return None, "could not match Print Assumptions output to theorems:\n" + so
    return res, so


EXTRA_PROPS = {"C10": [("C10live", None)], "C08": [("EndToEnd", None)], "C03": [("ValidPos", None)], "C07": [("C07print", None)], "C12": [("C12off", None), ("C12offchess", None), ("C12sound", None), ("C12soundchess", None), ("C12strict", None), ("C12seenRefuted", None), ("C12seen", None), ("C12rules", None), ("EndToEndMate", None)], "C02": [("C02closed", "C02"), ("C02search", None)], "C01": [("RulesPerft", None)], "C04": [("C02closed", "C04")], "C09": [("C09chess", None)], "C11": [("C11chess", None)], "C13": [("ChessInstances", "C13"), ("C13prefix", None)],
               "C14": [("ChessInstances", "C14"), ("C14syntax", None)], "C16": [("ChessInstances", "C16")]}


def proof_gate(prop, extra_targets=()):
    """Compile props/<prop>.v (and everything it needs) and audit it.
    Returns dict(ok, obligations, discharged, failures[list of str], log)."""
    t0 = time.time()
    out = {"ok": False, "obligations": 0, "discharged": 0, "failures": [], "log": "", "theorems": []}
    bad = forbidden_scan()
    if bad:
        out["failures"].append("forbidden constructs: " + "; ".join(bad[:10]))
    extra = [e for e in EXTRA_PROPS.get(prop, []) if os.path.exists(os.path.join(COQ, "props", e[0] + ".v"))]
    ok, mlog = coq_make(["props/%s.vo" % prop] + ["props/%s.vo" % e[0] for e in extra] + list(extra_targets))
    out["log"] = mlog[-6000:]
    names = theorem_names(prop)
    for mod, pre in extra:
        names += theorem_names(mod, pre)
    out["theorems"] = names
    out["obligations"] = len(names)
    if not ok:
        m = re.findall(r'File "\./([^"]+)", line (\d+)', mlog)
        where = ", ".join("%s:%s" % x for x in m[:5]) or "unknown"
        out["failures"].append("coq build failed at " + where)
        out["failed_files"] = [x[0] for x in m]
        out["wall_s"] = time.time() - t0
        return out
    res, raw = print_assumptions(prop, extra)
    if res is None:
        out["failures"].append("Print Assumptions failed: " + raw[-1000:])
    else:
        for n in names:
            r = res.get(n)
            if r == "closed":
                out["discharged"] += 1
            else:
                extra = [a for a in (r or ["?"]) if a not in ALLOWED_AXIOMS]
                if extra:
                    out["failures"].append("theorem %s depends on axioms %s" % (n, extra))
                else:
                    out["discharged"] += 1
        out["assumptions"] = res
    out["ok"] = not out["failures"]
    out["wall_s"] = time.time() - t0
    return out


def parse_coq_values(text):
    """Parse the output of `Eval vm_compute in <term>` where term is built from N numerals, lists,
    pairs, options and bools into Python objects.  One value per `= ... : type` block."""
    vals = []
    for block in re.split(r"^\s*= ", text, flags=re.M)[1:]:
        body = block
        # cut the trailing ": type"
        idx = body.rfind("\n     : ")
        if idx < 0:
            idx = body.rfind(" : ")
        body = body[:idx]
        body = body.replace("%string", "").replace("%N", "").replace("%nat", "").replace("%Z", "").replace("%positive", "")
        vals.append(_parse_term(body))
    return vals


_TOK = re.compile(r"\s*(\(-\d+\)|-?\d+|\[|\]|\(|\)|;|,|Some|None|true|false|\"(?:[^\"]|\"\")*\"|[A-Za-z_][A-Za-z_0-9']*)")


def _parse_term(s):
    toks = _TOK.findall(s)
    pos = [0]

    def peek():
        return toks[pos[0]] if pos[0] < len(toks) else None

    def nxt():
        t = toks[pos[0]]
        pos[0] += 1
        return t

    def atom():
        t = nxt()
        if t == "[":
            items = []
            if peek() == "]":
                nxt()
                return items
            while True:
                items.append(expr())
                t2 = nxt()
                if t2 == "]":
                    return items
                assert t2 == ";", t2
        if t == "(":
            items = [expr()]
            while peek() == ",":
                nxt()
                items.append(expr())
            assert nxt() == ")"
            if len(items) == 1:
                return items[0]
            return tuple(items)
        if t == "Some":
            return ("Some", atom())
        if t == "None":
            return None
        if t == "true":
            return True
        if t == "false":
            return False
        if t.startswith('"'):
            return t[1:-1].replace('""', '"')
        if t.startswith("(-"):
            return int(t[1:-1])
        if re.match(r"-?\d+$", t):
            return int(t)
        # constructor applied to args: return (name, args...) greedily
        args = []
        while peek() not in (None, "]", ")", ";", ","):
            args.append(atom())
        return (t,) + tuple(args) if args else t

    def expr():
        return atom()

    return expr()


def coq_eval_terms(name, header, terms, timeout=1200):
    """Evaluate each Coq term (a string) with vm_compute in its own file, all in parallel
    (at most NPROC at a time).  Returns (list of parsed values | None, log)."""
    os.makedirs(CASES, exist_ok=True)
    tag = "%s_%d" % (name, os.getpid())
    results = [None] * len(terms)
    logs = []
    ok = True
    deadline = time.time() + timeout
    pending = list(enumerate(terms))
    running = []

    def launch(k, term):
        path = os.path.join(CASES, "%s_%d.v" % (tag, k))
        with open(path, "w") as f:
            f.write(header)
            f.write("\nSet Printing Width 2000000000.\nSet Printing Depth 2000000000.\n")
            f.write("Eval vm_compute in (%s).\n" % term)
        so = open(path[:-2] + ".out", "w")
        se = open(path[:-2] + ".err", "w")
        p = subprocess.Popen(["coqc", "-q", "-noglob", "-Q", COQ, "RCE", path], cwd=CASES,
                             stdout=so, stderr=se)
        return (k, path, p, so, se)

    def finish(k, path, p, so, se):
        nonlocal ok
        so.close()
        se.close()
        out = open(path[:-2] + ".out").read()
        err = open(path[:-2] + ".err").read()
        if p.returncode != 0:
            ok = False
            logs.append("term %d failed: %s" % (k, (out + err)[-1500:]))
        else:
            vals = parse_coq_values(out)
            if len(vals) != 1:
                ok = False
                logs.append("term %d: unexpected output %s" % (k, out[:500]))
            else:
                results[k] = vals[0]
        for ext in (".v", ".vo", ".vok", ".vos", ".glob", ".out", ".err"):
            try:
                os.remove(path[:-2] + ext)
            except OSError:
                pass

    # a vm_compute shard can take 2-3 GB: never start more of them than the free memory allows
    cap = NPROC
    try:
        avail_kb = int([l for l in open("/proc/meminfo") if l.startswith("MemAvailable")][0].split()[1])
        cap = max(2, min(NPROC, avail_kb // (3 * 1024 * 1024)))
    except Exception:
        pass
    while pending or running:
        while pending and len(running) < cap:
            k, term = pending.pop(0)
            running.append(launch(k, term))
        still = []
        for r in running:
            if r[2].poll() is None:
                if time.time() > deadline:
                    r[2].kill()
                    r[2].wait()
                    logs.append("term %d: TIMEOUT" % r[0])
                    finish(*r)
                    ok = False
                else:
                    still.append(r)
            else:
                finish(*r)
        running = still
        if running:
            time.sleep(0.05)
    return (results if ok else None), "\n".join(logs)


def coq_eval_items(name, header, items, wrap, nshards=None, timeout=1200):
    """items: Coq term strings.  They are dealt round-robin into shards; shard term is
    wrap("[i1; i2; ...]") and must evaluate to a list with one value per item.
    Returns (values per item | None, log)."""
    n = len(items)
    if n == 0:
        return [], ""
    if nshards is None:
        nshards = min(NPROC, n)
    # never more than 2000 items (or about 400 kB of term text) in one file: a huge list literal overflows coqc's stack
    nshards = max(nshards, -(-n // 2000), -(-sum(len(x) for x in items) // 400000))
    shards = [items[i::nshards] for i in range(nshards)]
    terms = [wrap("[" + ";\n ".join(sh) + "]") for sh in shards]
    vals, lg = coq_eval_terms(name, header, terms, timeout)
    if vals is None:
        return None, lg
    results = [None] * n
    for k, v in enumerate(vals):
        if not isinstance(v, list) or len(v) != len(shards[k]):
            return None, "shard %d: expected %d values, got %r" % (k, len(shards[k]), str(v)[:300])
        for j, x in enumerate(v):
            results[k + j * nshards] = x
    return results, lg


# ------------------------------------------------------------------------------------------
# evidence / findings / reporting

def known_findings():
    p = os.path.join(VERIF, "known_findings.json")
    if not os.path.exists(p):
        return []
    return json.load(open(p)).get("findings", [])


TRUSTED_BASE = [
    "Coq 8.16.1 kernel including its bytecode VM (vm_compute / vm_cast_no_check); native_compute is not used",
    "no axioms: every property theorem must print 'Closed under the global context' (checked on every run)",
    "harness/driver.rs + guarded accessors printing the engine's live constants and results faithfully",
    "lib/gen.py turning the dump into Coq numerals (coq/generated/*.v)",
    "the correspondence check (case generators, canonical forms, diff) tying the hand-written model to the code on the compared inputs; exhaustive on the finite table domains, sampled elsewhere",
    "Rust integer/Vec/HashMap semantics, rustc and LLVM are modelled, not verified",
    "Geometry.v / Rules.v as the statement of the rules of chess",
]


def write_evidence(prop, tier, seed, coverage, wall_s, violations, assumptions=None, level="proof"):
    os.makedirs(os.path.join(VERIF, "evidence"), exist_ok=True)
    ev = {
        "property_id": prop,
        "tier": tier,
        "seed": seed,
        "level": level,
        "coverage": coverage,
        "assumptions": assumptions or [],
        "wall_s": round(wall_s, 2),
        "violations": violations,
    }
    path = os.path.join(VERIF, "evidence", prop + ".json")
    tmp = path + ".tmp"
    with open(tmp, "w") as f:
        json.dump(ev, f, indent=1, sort_keys=True)
    os.replace(tmp, path)
    return path


def write_replay(prop, payload):
    d = os.path.join(CACHE, "replays")
    os.makedirs(d, exist_ok=True)
    h = hashlib.sha1(json.dumps(payload, sort_keys=True).encode()).hexdigest()[:10]
    path = os.path.join(d, "%s_%s.json" % (prop, h))
    with open(path, "w") as f:
        json.dump(payload, f, indent=1, sort_keys=True)
    return path


def violation_line(prop, replay, no_input=False):
    s = "VIOLATION property=%s replay=%s" % (prop, replay)
    if no_input:
        s += " no-failing-input-found"
    return s
