"""UCI parser / session correspondence helpers (C08, C15)."""
import re
import common as C
import boardcorr as B

HEADER = ("From Coq Require Import NArith List String.\nImport ListNotations.\n"
          "From RCE Require Import model.Board model.Movegen model.Fen model.Uci model.CasesBoard model.CasesUci.\n"
          "Open Scope string_scope.\n")
TARGETS = ["model/CasesUci.vo"]

VOCAB = ["uci", "isready", "ucinewgame", "setoption", "position", "go", "stop", "quit", "name", "value",
         "startpos", "fen", "moves", "wtime", "btime", "winc", "binc", "depth", "nodes", "movetime", "infinite",
         "searchmoves", "ponder", "movestogo", "mate", "5", "-1", "+3", "256",
         "340282366920938463463374607431768211456", "e2e4", "Hash", "xyz"]


def opt(x):
    return None if x == "None" else int(re.match(r"Some\((\d+)\)", x).group(1))


def canon_engine(line):
    """canonical form of a driver `parse` output line"""
    if line == "PANIC":
        return [1, [], [], None]
    if line.startswith("ERR"):
        return [0, [], [], None]
    s = line[3:]
    simple = {"Uci": 2, "IsReady": 3, "UCINewGame": 4, "Stop": 9, "Quit": 10}
    if s in simple:
        return [simple[s], [], [], None]

    def strlist(txt):
        return re.findall(r'"((?:[^"\\]|\\.)*)"', txt)
    if s.startswith("SetOption"):
        m = re.match(r'SetOption \{ name: "(.*?)", value: (None|Some\("(.*)"\)) \}$', s)
        return [5, [], [m.group(1)], None if m.group(2) == "None" else [m.group(3)]]
    if s.startswith("Position"):
        m = re.match(r'Position \{ kind: (StartPos|Fen \{ fen: "(.*?)" \}), moves: (None|Some\(\[(.*)\]\)) \}$', s)
        moves = None if m.group(3) == "None" else strlist(m.group(4))
        if m.group(1) == "StartPos":
            return [6, [], [], moves]
        return [7, [], [m.group(2)], moves]
    if s.startswith("Go"):
        f = dict(re.findall(r"(\w+): (None|Some\(\d+\))", s))
        return [8, [opt(f["depth"]), opt(f["nodes"]), opt(f["movetime"]), opt(f["white_time"]), opt(f["black_time"]),
                    opt(f["white_increment"]), opt(f["black_increment"])], [], None]
    return ["?", s]


def canon_model(v):
    v = B.norm(v)
    tag, lims, strs, moves = v

    def o(x):
        return None if x is None else x[1]
    return [tag, [o(x) for x in lims], strs, None if moves is None else moves[1]]


def parse_both(lines, name="uciparse"):
    rc, so, se = C.driver(["parse"], "\n".join(lines) + "\n", timeout=600)
    eng = so.splitlines()
    if len(eng) != len(lines):
        return None, None, "driver parse: %d results for %d lines: %s" % (len(eng), len(lines), se[-300:])
    vals, lg = C.coq_eval_items(name, HEADER, ["parse_case %s" % B.coq_str(l) for l in lines], lambda l: l,
                                nshards=C.NPROC, timeout=1500)
    if vals is None:
        return None, None, lg
    return [canon_engine(x) for x in eng], [canon_model(v) for v in vals], ""
