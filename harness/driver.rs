// Verification driver, compiled INTO the real crate (src/main.rs includes this file under
// `--cfg rce_verif` through env!("RCE_VERIF_DRIVER")).  Line oriented: one case per input
// line, one canonical result line per case.  Every case runs under catch_unwind so a panic is
// an observable outcome.

use crate::board::bitboard::Bitboard;
use crate::board::piece::bishop::Bishop;
use crate::board::piece::rook::Rook;
use crate::board::piece::{Color, Kind};
use crate::board::ply::castling::{CastlingKind, CastlingStatus};
use crate::board::square::rays::{Rays, RAYS};
use crate::board::square::Square;
use crate::board::{Board, BoardBuilder, Ply};
use crate::evaluate::simple_evaluator::SimpleEvaluator;
use crate::evaluate::Evaluator;
use std::io::{BufRead, Write};
use std::panic::{catch_unwind, AssertUnwindSafe};

fn out() -> std::io::BufWriter<std::io::StdoutLock<'static>> {
    std::io::BufWriter::with_capacity(1 << 20, std::io::stdout().lock())
}

fn join(v: &[u64]) -> String {
    v.iter().map(|x| x.to_string()).collect::<Vec<_>>().join(" ")
}

fn empty_board() -> Board {
    Board::from_fen("8/8/8/8/8/8/8/8 w - - 0 1")
}

/// consts: every table the model depends on, read from the live engine.
fn cmd_consts() {
    let mut o = out();
    let (m, g, b, sz) = Rook::verif_consts();
    writeln!(o, "ROOK_MASKS {}", join(&m)).unwrap();
    writeln!(o, "ROOK_MAGICS {}", join(&g)).unwrap();
    writeln!(o, "ROOK_BITS {}", join(&b.iter().map(|x| u64::from(*x)).collect::<Vec<_>>())).unwrap();
    writeln!(o, "ROOK_SIZE {}", sz).unwrap();
    let (m, g, b, sz) = Bishop::verif_consts();
    writeln!(o, "BISHOP_MASKS {}", join(&m)).unwrap();
    writeln!(o, "BISHOP_MAGICS {}", join(&g)).unwrap();
    writeln!(o, "BISHOP_BITS {}", join(&b.iter().map(|x| u64::from(*x)).collect::<Vec<_>>())).unwrap();
    writeln!(o, "BISHOP_SIZE {}", sz).unwrap();
    let rays = RAYS.get_or_init(Rays::new).rays;
    for (i, r) in rays.iter().enumerate() {
        writeln!(o, "RAYS {} {}", i, join(&r.iter().map(|x| **x).collect::<Vec<_>>())).unwrap();
    }
    let eb = empty_board();
    let leap = |k: Kind| -> Vec<u64> {
        (0..64u8).map(|s| *k.get_attacks(Square::from(s), &eb)).collect()
    };
    writeln!(o, "KNIGHT {}", join(&leap(Kind::Knight(Color::White)))).unwrap();
    writeln!(o, "KING {}", join(&leap(Kind::King(Color::White)))).unwrap();
    writeln!(o, "WPAWN {}", join(&leap(Kind::Pawn(Color::White)))).unwrap();
    writeln!(o, "BPAWN {}", join(&leap(Kind::Pawn(Color::Black)))).unwrap();
    writeln!(o, "ZTABLE {}", join(&crate::board::zkey::verif_table())).unwrap();
    // piece values as the evaluator uses them: evaluate a lone piece for the side to move
    let mut vals = Vec::new();
    for c in ['Q', 'R', 'B', 'N', 'P'] {
        let mut b = Board::from_fen(&format!("8/8/8/8/3{c}4/8/8/8 w - - 0 1"));
        vals.push(SimpleEvaluator.evaluate(&mut b) as i64 as u64);
    }
    writeln!(o, "EVAL_QRBNP {}", join(&vals)).unwrap();
}

fn subsets_of(mask: u64) -> Vec<u64> {
    // Carry-Rippler enumeration of all subsets of mask
    let mut v = Vec::new();
    let mut n: u64 = 0;
    loop {
        v.push(n);
        n = n.wrapping_sub(mask) & mask;
        if n == 0 {
            break;
        }
    }
    v
}

/// sliders: every (square, subset of the relevance mask) lookup of both sliders.
fn cmd_sliders() {
    let mut o = out();
    let (rm, _, _, _) = Rook::verif_consts();
    let (bm, _, _, _) = Bishop::verif_consts();
    for s in 0..64u8 {
        for b in subsets_of(rm[s as usize]) {
            let r = catch_unwind(|| *Rook::get_attacks_wrapper(Square::from(s), Bitboard::new(b)));
            match r {
                Ok(a) => writeln!(o, "R {s} {b} {a}").unwrap(),
                Err(_) => writeln!(o, "R {s} {b} PANIC").unwrap(),
            }
        }
        for b in subsets_of(bm[s as usize]) {
            let r = catch_unwind(|| *Bishop::get_attacks_wrapper(Square::from(s), Bitboard::new(b)));
            match r {
                Ok(a) => writeln!(o, "B {s} {b} {a}").unwrap(),
                Err(_) => writeln!(o, "B {s} {b} PANIC").unwrap(),
            }
        }
    }
}

/// occ: stdin lines "sq occ" -> "sq occ rook bishop queen rookslow bishopslow"
fn cmd_occ() {
    let mut o = out();
    let eb = empty_board();
    for line in std::io::stdin().lock().lines() {
        let line = line.unwrap();
        let f: Vec<&str> = line.split_whitespace().collect();
        if f.len() < 2 {
            continue;
        }
        let s: u8 = f[0].parse().unwrap();
        let occ: u64 = f[1].parse().unwrap();
        let r = catch_unwind(|| {
            let sq = Square::from(s);
            let bb = Bitboard::new(occ);
            (
                *Rook::get_attacks_wrapper(sq, bb),
                *Bishop::get_attacks_wrapper(sq, bb),
                *crate::board::piece::queen::Queen::get_attacks(sq, bb),
                *Rook::verif_attacks_slow(sq, bb),
                *Bishop::verif_attacks_slow(sq, bb),
            )
        });
        let _ = &eb;
        match r {
            Ok((a, b, q, sa, sb)) => writeln!(o, "{s} {occ} {a} {b} {q} {sa} {sb}").unwrap(),
            Err(_) => writeln!(o, "{s} {occ} PANIC").unwrap(),
        }
    }
}

pub fn main(args: &[String]) {
    // keep panics quiet: they are reported as outcomes
    std::panic::set_hook(Box::new(|_| {}));
    let cmd = args.first().map(String::as_str).unwrap_or("");
    match cmd {
        "consts" => cmd_consts(),
        "sliders" => cmd_sliders(),
        "occ" => cmd_occ(),
        _ => {
            eprintln!("unknown verif command: {cmd}");
            std::process::exit(2);
        }
    }
}
