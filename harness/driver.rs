// Verification driver, compiled INTO the real crate (src/main.rs includes this file under
// `--cfg rce_verif` through env!("RCE_VERIF_DRIVER")).  Line oriented: one case per input
// line, one canonical result line per case.  Every case runs under catch_unwind so a panic is
// an observable outcome.

use crate::board::bitboard::Bitboard;
use crate::board::piece::bishop::Bishop;
use crate::board::piece::rook::Rook;
use crate::board::piece::{Color, Kind};
use crate::board::ply::castling::{CastlingKind, CastlingStatus};
use crate::board::square::rays::{Rays, RAYS};
use crate::board::square::Square;
use crate::board::{Board, BoardBuilder, Ply};
use crate::evaluate::simple_evaluator::SimpleEvaluator;
use crate::evaluate::Evaluator;
use std::io::{BufRead, Write};
use std::panic::{catch_unwind, AssertUnwindSafe};

fn out() -> std::io::BufWriter<std::io::StdoutLock<'static>> {
    std::io::BufWriter::with_capacity(1 << 20, std::io::stdout().lock())
}

fn join(v: &[u64]) -> String {
    v.iter().map(|x| x.to_string()).collect::<Vec<_>>().join(" ")
}

fn empty_board() -> Board {
    Board::from_fen("8/8/8/8/8/8/8/8 w - - 0 1")
}

/// consts: every table the model depends on, read from the live engine.
fn cmd_consts() {
    let mut o = out();
    let (m, g, b, sz) = Rook::verif_consts();
    writeln!(o, "ROOK_MASKS {}", join(&m)).unwrap();
    writeln!(o, "ROOK_MAGICS {}", join(&g)).unwrap();
    writeln!(o, "ROOK_BITS {}", join(&b.iter().map(|x| u64::from(*x)).collect::<Vec<_>>())).unwrap();
    writeln!(o, "ROOK_SIZE {}", sz).unwrap();
    let (m, g, b, sz) = Bishop::verif_consts();
    writeln!(o, "BISHOP_MASKS {}", join(&m)).unwrap();
    writeln!(o, "BISHOP_MAGICS {}", join(&g)).unwrap();
    writeln!(o, "BISHOP_BITS {}", join(&b.iter().map(|x| u64::from(*x)).collect::<Vec<_>>())).unwrap();
    writeln!(o, "BISHOP_SIZE {}", sz).unwrap();
    let rays = RAYS.get_or_init(Rays::new).rays;
    for (i, r) in rays.iter().enumerate() {
        writeln!(o, "RAYS {} {}", i, join(&r.iter().map(|x| **x).collect::<Vec<_>>())).unwrap();
    }
    let eb = empty_board();
    let leap = |k: Kind| -> Vec<u64> {
        (0..64u8).map(|s| *k.get_attacks(Square::from(s), &eb)).collect()
    };
    writeln!(o, "KNIGHT {}", join(&leap(Kind::Knight(Color::White)))).unwrap();
    writeln!(o, "KING {}", join(&leap(Kind::King(Color::White)))).unwrap();
    writeln!(o, "WPAWN {}", join(&leap(Kind::Pawn(Color::White)))).unwrap();
    writeln!(o, "BPAWN {}", join(&leap(Kind::Pawn(Color::Black)))).unwrap();
    writeln!(o, "ZTABLE {}", join(&crate::board::zkey::verif_table())).unwrap();
    // piece values as the evaluator uses them: evaluate a lone piece for the side to move
    let mut vals = Vec::new();
    for c in ['Q', 'R', 'B', 'N', 'P'] {
        let mut b = Board::from_fen(&format!("8/8/8/8/3{c}4/8/8/8 w - - 0 1"));
        vals.push(SimpleEvaluator.evaluate(&mut b) as i64 as u64);
    }
    writeln!(o, "EVAL_QRBNP {}", join(&vals)).unwrap();
}

fn subsets_of(mask: u64) -> Vec<u64> {
    // Carry-Rippler enumeration of all subsets of mask
    let mut v = Vec::new();
    let mut n: u64 = 0;
    loop {
        v.push(n);
        n = n.wrapping_sub(mask) & mask;
        if n == 0 {
            break;
        }
    }
    v
}

/// sliders: every (square, subset of the relevance mask) lookup of both sliders.
fn cmd_sliders() {
    let mut o = out();
    let (rm, _, _, _) = Rook::verif_consts();
    let (bm, _, _, _) = Bishop::verif_consts();
    for s in 0..64u8 {
        for b in subsets_of(rm[s as usize]) {
            let r = catch_unwind(|| *Rook::get_attacks_wrapper(Square::from(s), Bitboard::new(b)));
            match r {
                Ok(a) => writeln!(o, "R {s} {b} {a}").unwrap(),
                Err(_) => writeln!(o, "R {s} {b} PANIC").unwrap(),
            }
        }
        for b in subsets_of(bm[s as usize]) {
            let r = catch_unwind(|| *Bishop::get_attacks_wrapper(Square::from(s), Bitboard::new(b)));
            match r {
                Ok(a) => writeln!(o, "B {s} {b} {a}").unwrap(),
                Err(_) => writeln!(o, "B {s} {b} PANIC").unwrap(),
            }
        }
    }
}

/// occ: stdin lines "sq occ" -> "sq occ rook bishop queen rookslow bishopslow"
fn cmd_occ() {
    let mut o = out();
    let eb = empty_board();
    for line in std::io::stdin().lock().lines() {
        let line = line.unwrap();
        let f: Vec<&str> = line.split_whitespace().collect();
        if f.len() < 2 {
            continue;
        }
        let s: u8 = f[0].parse().unwrap();
        let occ: u64 = f[1].parse().unwrap();
        let r = catch_unwind(|| {
            let sq = Square::from(s);
            let bb = Bitboard::new(occ);
            (
                *Rook::get_attacks_wrapper(sq, bb),
                *Bishop::get_attacks_wrapper(sq, bb),
                *crate::board::piece::queen::Queen::get_attacks(sq, bb),
                *Rook::verif_attacks_slow(sq, bb),
                *Bishop::verif_attacks_slow(sq, bb),
            )
        });
        let _ = &eb;
        match r {
            Ok((a, b, q, sa, sb)) => writeln!(o, "{s} {occ} {a} {b} {q} {sa} {sb}").unwrap(),
            Err(_) => writeln!(o, "{s} {occ} PANIC").unwrap(),
        }
    }
}


// ---------------------------------------------------------------------------------------------
// board / movegen / key correspondence

fn kind_code(k: Kind) -> u64 {
    (usize::from(k.get_color()) * 6 + usize::from(k)) as u64
}
fn okind_code(k: Option<Kind>) -> u64 {
    k.map_or(0, |x| kind_code(x) + 1)
}
fn st(s: CastlingStatus) -> u64 {
    u64::from(s == CastlingStatus::Available)
}
fn enc_ply(p: &Ply) -> String {
    let r = p.castling_rights;
    format!(
        "[{},{},{},{},{},{},{},{}]",
        u64::from(p.start.rank) * 8 + u64::from(p.start.file),
        u64::from(p.dest.rank) * 8 + u64::from(p.dest.file),
        kind_code(p.piece),
        okind_code(p.captured_piece),
        okind_code(p.promoted_to),
        u64::from(p.is_castles) + 2 * u64::from(p.en_passant) + 4 * u64::from(p.is_double_pawn_push),
        p.halfmove_clock,
        st(r.white_kingside) + 2 * st(r.white_queenside) + 4 * st(r.black_kingside) + 8 * st(r.black_queenside)
    )
}
fn enc_core(b: &Board) -> String {
    let mut v: Vec<u64> = vec![
        u64::from(b.current_turn == Color::Black),
        u64::from(b.fullmove_counter),
        b.verif_en_passant_file().map_or(0, |f| u64::from(f) + 1),
    ];
    v.extend_from_slice(&b.verif_bitboards());
    v.push(b.zkey.verif_u64());
    format!("[{}]", v.iter().map(|x| x.to_string()).collect::<Vec<_>>().join(","))
}
fn scratch_key(b: &Board) -> u64 {
    crate::board::zkey::ZKey::from(b).verif_u64()
}
fn enc_state_k(b: &Board) -> String {
    let core = enc_core(b);
    let core = format!("{},{}]", &core[..core.len() - 1], scratch_key(b));
    let hist: Vec<String> = b.verif_history().iter().map(enc_ply).collect();
    let mut ph: Vec<String> = Vec::new();
    for (k, c) in b.verif_position_history() {
        for _ in 0..c {
            ph.push(k.to_string());
        }
    }
    format!("[{},[{}],[{}]]", core, hist.join(","), ph.join(","))
}

/// digest of a bracketed list of numbers: h = (h * 1000003 + x + 1) mod (2^61 - 1), h0 = 7
fn digest(s: &str) -> u64 {
    let mut h: u128 = 7;
    for tok in s.split(|c: char| !c.is_ascii_digit()) {
        if tok.is_empty() {
            continue;
        }
        let x: u128 = tok.parse().unwrap();
        h = (h * 1_000_003 + x + 1) % 2_305_843_009_213_693_951u128;
    }
    h as u64
}

fn node_of(b: &mut Board, deep: bool, full: bool) -> String {
    let snapshot = b.clone();
    let legal = b.get_legal_moves();
    let query_pure = *b == snapshot;
    let mut moves = Vec::new();
    let mut nested = Vec::new();
    let mut key_ok_all = true;
    for m in &legal {
        b.make_move(*m);
        let core = enc_core(b);
        let last = enc_ply(b.verif_history().last().unwrap());
        let dig = if full { format!("{core},{last}") } else { digest(&format!("{core},{last}")).to_string() };
        key_ok_all &= scratch_key(b) == b.zkey.verif_u64();
        let chk = u64::from(b.is_in_check(b.current_turn));
        b.unmake_move();
        let restored = u64::from(*b == snapshot);
        moves.push(format!("[{},{},{},{}]", enc_ply(m), dig, restored, chk));
        if deep {
            b.make_move(*m);
            let snap1 = b.clone();
            let l2 = b.get_legal_moves();
            let mut ok = 1;
            if let Some(m2) = l2.first() {
                b.make_move(*m2);
                b.unmake_move();
                let ok1 = *b == snap1;
                b.unmake_move();
                ok = u64::from(ok1 && *b == snapshot);
            } else {
                b.unmake_move();
            }
            nested.push(ok.to_string());
        }
    }
    let pseudo = b.get_all_moves().len();
    format!(
        "[{},[{}],{},[{},{},{},{}],[{}],[{},{}]]",
        enc_state_k(b),
        moves.join(","),
        pseudo,
        u64::from(b.is_in_check(Color::White)),
        u64::from(b.is_in_check(Color::Black)),
        b.verif_attacked_squares(Color::White),
        b.verif_attacked_squares(Color::Black),
        nested.join(","),
        u64::from(query_pure),
        u64::from(key_ok_all)
    )
}

/// walk [deep]: stdin lines "FEN | m1 m2 ..." -> one JSON line per case:
/// {"nodes":[...], "stuck": null | "notation"} or {"panic": "..."}
fn cmd_walk(args: &[String]) {
    let deep = args.iter().any(|a| a == "deep");
    let full = args.iter().any(|a| a == "full");
    let mut o = out();
    for line in std::io::stdin().lock().lines() {
        let line = line.unwrap();
        if line.trim().is_empty() {
            continue;
        }
        let (fen, moves) = match line.split_once('|') {
            Some((f, m)) => (f.trim().to_string(), m.trim().to_string()),
            None => (line.trim().to_string(), String::new()),
        };
        let r = catch_unwind(AssertUnwindSafe(|| {
            let mut b = Board::from_fen(&fen);
            let mut nodes = Vec::new();
            let mut stuck = "null".to_string();
            for m in moves.split_whitespace() {
                nodes.push(node_of(&mut b, deep, full));
                match b.find_move(m) {
                    Ok(p) => b.make_move(p),
                    Err(_) => {
                        stuck = format!("\"{m}\"");
                        break;
                    }
                }
            }
            if stuck == "null" {
                nodes.push(node_of(&mut b, deep, full));
            }
            format!("{{\"nodes\":[{}],\"stuck\":{}}}", nodes.join(","), stuck)
        }));
        match r {
            Ok(s) => writeln!(o, "{s}").unwrap(),
            Err(_) => writeln!(o, "{{\"panic\":true}}").unwrap(),
        }
    }
}

struct Rng(u64);
impl Rng {
    fn next(&mut self) -> u64 {
        // splitmix64
        self.0 = self.0.wrapping_add(0x9E37_79B9_7F4A_7C15);
        let mut z = self.0;
        z = (z ^ (z >> 30)).wrapping_mul(0xBF58_476D_1CE4_E5B9);
        z = (z ^ (z >> 27)).wrapping_mul(0x94D0_49BB_1331_11EB);
        z ^ (z >> 31)
    }
    fn below(&mut self, n: usize) -> usize {
        (self.next() % (n as u64)) as usize
    }
}

/// randwalk <seed> <maxlen>: stdin lines of FENs -> "FEN | m1 m2 ..." random legal walks chosen
/// with the engine's own move generator, biased towards captures, castling, double pushes,
/// promotions, en passant and knight shuffles (so positions repeat).
fn cmd_randwalk(args: &[String]) {
    let seed: u64 = args.first().and_then(|s| s.parse().ok()).unwrap_or(1);
    let maxlen: usize = args.get(1).and_then(|s| s.parse().ok()).unwrap_or(30);
    let mut rng = Rng(seed);
    let mut o = out();
    for line in std::io::stdin().lock().lines() {
        let fen = line.unwrap();
        if fen.trim().is_empty() {
            continue;
        }
        let r = catch_unwind(AssertUnwindSafe(|| {
            let mut b = Board::from_fen(fen.trim());
            let mut ms: Vec<String> = Vec::new();
            let len = 1 + rng.below(maxlen);
            let shuffle = rng.below(4) == 0;
            for _ in 0..len {
                let legal = b.get_legal_moves();
                if legal.is_empty() {
                    break;
                }
                let special: Vec<&Ply> = legal
                    .iter()
                    .filter(|m| {
                        m.is_castles || m.en_passant || m.is_double_pawn_push || m.promoted_to.is_some()
                            || m.captured_piece.is_some()
                    })
                    .collect();
                let knights: Vec<&Ply> = legal
                    .iter()
                    .filter(|m| matches!(m.piece, Kind::Knight(_) | Kind::King(_) | Kind::Rook(_)) && m.captured_piece.is_none() && !m.is_castles)
                    .collect();
                let pick = if shuffle && !knights.is_empty() && rng.below(4) != 0 {
                    *knights[rng.below(knights.len())]
                } else if !special.is_empty() && rng.below(3) == 0 {
                    *special[rng.below(special.len())]
                } else {
                    legal[rng.below(legal.len())]
                };
                ms.push(pick.to_notation());
                b.make_move(pick);
            }
            ms.join(" ")
        }));
        match r {
            Ok(s) => writeln!(o, "{} | {}", fen.trim(), s).unwrap(),
            Err(_) => writeln!(o, "{} | PANIC", fen.trim()).unwrap(),
        }
    }
}


// ---------------------------------------------------------------------------------------------
// FEN / evaluation / UCI parser / search

/// full state of a board as JSON (used by the `fen` command and the guarded `verifdump` UCI command)
pub fn dump_board(b: &Board) -> String {
    enc_state_k(b)
}

/// fen: stdin lines of FEN -> state JSON, or {"panic":true}
fn cmd_fen() {
    let mut o = out();
    for line in std::io::stdin().lock().lines() {
        let line = line.unwrap();
        let r = catch_unwind(AssertUnwindSafe(|| {
            let b = Board::from_fen(&line);
            dump_board(&b)
        }));
        match r {
            Ok(s) => writeln!(o, "{s}").unwrap(),
            Err(_) => writeln!(o, "{{\"panic\":true}}").unwrap(),
        }
    }
}

/// eval: stdin lines of FEN -> evaluation from the mover's point of view
fn cmd_eval() {
    let mut o = out();
    for line in std::io::stdin().lock().lines() {
        let line = line.unwrap();
        let r = catch_unwind(AssertUnwindSafe(|| {
            let mut b = Board::from_fen(&line);
            i64::from(SimpleEvaluator.evaluate(&mut b))
        }));
        match r {
            Ok(v) => writeln!(o, "{v}").unwrap(),
            Err(_) => writeln!(o, "PANIC").unwrap(),
        }
    }
}

/// the answers to every kind of question about one position, as one string (a "panic" is an answer); `which` selects the question
fn query_of(fen: &str, which: usize) -> String {
    let fen = fen.to_string();
    catch_unwind(AssertUnwindSafe(|| {
        let mut b = Board::from_fen(&fen);
        match which {
            0 => format!("{}", u8::from(b.is_in_check(Color::White))),
            1 => format!("{}", u8::from(b.is_in_check(Color::Black))),
            2 => {
                let mut v: Vec<String> = b.get_legal_moves().iter().map(enc_ply).collect();
                v.sort();
                v.join(";")
            }
            3 => format!("{}", b.get_all_moves().len()),
            4 => format!("{}", b.verif_attacked_squares(Color::White)),
            5 => format!("{}", b.verif_attacked_squares(Color::Black)),
            6 => format!("{}", i64::from(SimpleEvaluator.evaluate(&mut b))),
            7 => format!("{} {}", b.zkey.verif_u64(), scratch_key(&b)),
            _ => {
                use crate::board::transposition_table::TRANSPOSITION_TABLE;
                use crate::search::Search;
                TRANSPOSITION_TABLE.write().unwrap().clear();
                *crate::search::verif::TRACE.lock().unwrap() = None;
                let mut search = Search::new(&b, None);
                search.search(&SimpleEvaluator, Some(2));
                let (bm, bs, n, _) = search.verif_result();
                TRANSPOSITION_TABLE.write().unwrap().clear();
                format!("{} {:?} {}", bm.map_or("none".to_string(), |p| enc_ply(&p)), bs, n)
            }
        }
    }))
    .unwrap_or_else(|_| "PANIC".to_string())
}
const QUERY_NAMES: [&str; 9] = [
    "is_in_check(White)",
    "is_in_check(Black)",
    "get_legal_moves",
    "get_all_moves().len()",
    "attacked squares (White)",
    "attacked squares (Black)",
    "evaluate",
    "key / from-scratch key",
    "search depth 2 from an empty cache",
];

/// pairs: stdin lines "FEN_X | FEN_Y".  For every question q: the answer about Y on a FRESH thread must equal the answer about Y given
/// right after the same question (and after every other question) was asked about X on the same thread: what the engine says about a
/// position may not depend on which position it was asked about before (thread-local or global memos keyed by something weaker than
/// the position).  Output per line: JSON list of {"q": name, "after": name of the question asked about X, "alone": .., "after_x": ..}
fn cmd_pairs() {
    // (no stdout lock held here: the searches on the spawned threads print their own info lines)
    for line in std::io::stdin().lock().lines() {
        let line = line.unwrap();
        let Some((x, y)) = line.split_once('|') else { continue };
        let (x, y) = (x.trim().to_string(), y.trim().to_string());
        let mut bad: Vec<String> = Vec::new();
        for q in 0..QUERY_NAMES.len() {
            let yy = y.clone();
            let alone = std::thread::spawn(move || query_of(&yy, q)).join().unwrap_or_else(|_| "PANIC".to_string());
            for pre in 0..QUERY_NAMES.len() {
                // only same-kind and the two check questions as predecessors (keeps it quadratic in nothing)
                if pre != q && pre > 1 {
                    continue;
                }
                let (xx, yy) = (x.clone(), y.clone());
                let after = std::thread::spawn(move || {
                    let _ = query_of(&xx, pre);
                    query_of(&yy, q)
                })
                .join()
                .unwrap_or_else(|_| "PANIC".to_string());
                if after != alone {
                    bad.push(format!(
                        "{{\"q\":\"{}\",\"after\":\"{}\",\"alone\":\"{}\",\"after_x\":\"{}\"}}",
                        QUERY_NAMES[q],
                        QUERY_NAMES[pre],
                        alone.chars().take(120).collect::<String>(),
                        after.chars().take(120).collect::<String>()
                    ));
                }
            }
        }
        println!("PAIRS [{}]", bad.join(","));
    }
}

/// parse: stdin lines -> "OK <Debug of the command>" | "ERR <message>" | "PANIC"
fn cmd_parse() {
    let mut o = out();
    for line in std::io::stdin().lock().lines() {
        let line = line.unwrap();
        let r = catch_unwind(AssertUnwindSafe(|| {
            let trimmed = line.trim();
            let fields: Vec<&str> = trimmed.split_whitespace().collect();
            crate::uci::verif_parse(&fields)
        }));
        match r {
            Ok(Ok(s)) => writeln!(o, "OK {s}").unwrap(),
            Ok(Err(e)) => writeln!(o, "ERR {e}").unwrap(),
            Err(_) => writeln!(o, "PANIC").unwrap(),
        }
    }
}


/// An evaluator that behaves exactly like SimpleEvaluator but, on its K-th call, either clears the
/// search's running flag (a stop arriving at that leaf) or sleeps past the game-clock budget (the clock
/// running out at that leaf), and records how many cache writes had been observed by then.
#[derive(Clone)]
struct CutEval {
    calls: std::sync::Arc<std::sync::atomic::AtomicU64>,
    k: u64,
    skew_ms: u64,
    flag: Option<std::sync::Arc<std::sync::atomic::AtomicBool>>,
    cut_len: std::sync::Arc<std::sync::atomic::AtomicI64>,
    cut_loads: std::sync::Arc<std::sync::atomic::AtomicI64>,
    cut_reads: std::sync::Arc<std::sync::atomic::AtomicI64>,
}
impl Evaluator for CutEval {
    fn evaluate(&self, board: &mut Board) -> crate::search::Score {
        use std::sync::atomic::Ordering;
        let n = self.calls.fetch_add(1, Ordering::SeqCst) + 1;
        if n == self.k {
            let len = crate::search::verif::TRACE.lock().unwrap().as_ref().map_or(0, |v| v.len()) as i64;
            self.cut_len.store(len, Ordering::SeqCst);
            self.cut_loads.store(crate::search::verif::LOADS.load(Ordering::SeqCst) as i64, Ordering::SeqCst);
            self.cut_reads.store(crate::search::verif::READS.load(Ordering::SeqCst) as i64, Ordering::SeqCst);
            if let Some(f) = &self.flag {
                f.store(false, Ordering::SeqCst);
            }
            if self.skew_ms > 0 {
                // the clock jumps: every later reading is skew_ms further on (guarded hook)
                crate::search::verif::SKEW_MS.store(self.skew_ms, Ordering::SeqCst);
            }
        }
        SimpleEvaluator.evaluate(board)
    }
}

/// search: stdin lines "FEN | moves | spec;spec;..." with spec = d<depth>[n<nodes>][x] (x = cache
/// switched off), optionally l (pass the depth as a limit too), t w:b:wi:bi (clocks), and one interruption
/// forced at the K-th leaf evaluation: s<K> a stop (flag cleared), c<K> the game clock (budget 30000 ms, the
/// clock then jumps 60000 ms), m<K> movetime 30000 with the same jump, k<K> NO time limit and the clock
/// jumps by 10^10 ms (the search must not care); q = do not record cache writes.  RESULT reports cut_loads / cut_reads: how many flag loads /
/// clock readings the search had made when the interruption was forced (guarded counters).
/// The cache is emptied at the start of every line, not between the specs of a line.
/// Output: the engine's own info/bestmove lines between "BEGIN k" and "END k", plus one
/// "RESULT {json}" line per spec.
fn cmd_search() {
    use crate::board::transposition_table::TRANSPOSITION_TABLE;
    use crate::search::limits::SearchLimits;
    use crate::search::Search;
    let stdin = std::io::stdin();
    let mut k = 0usize;
    for line in stdin.lock().lines() {
        let line = line.unwrap();
        if line.trim().is_empty() {
            continue;
        }
        let parts: Vec<&str> = line.split('|').collect();
        let fen = parts[0].trim().to_string();
        let moves = parts.get(1).map_or("", |s| s.trim()).to_string();
        let specs = parts.get(2).map_or("d1", |s| s.trim()).to_string();
        println!("BEGIN {k}");
        TRANSPOSITION_TABLE.write().unwrap().clear();
        // what the cache must contain according to the OBSERVED writes (key -> score, depth, bound, move): compared with the real
        // table after every search, so that a write path without an observer call (or an in-place update) cannot go unnoticed
        let mut expected: std::collections::HashMap<u64, (i16, u8, u8, String)> = std::collections::HashMap::new();
        let mut expected_valid = true;
        let setup = catch_unwind(AssertUnwindSafe(|| {
            let mut b = Board::from_fen(&fen);
            for m in moves.split_whitespace() {
                let p = b.find_move(m).expect("illegal move in search case");
                b.make_move(p);
            }
            b
        }));
        let Ok(board) = setup else {
            println!("RESULT {{\"panic\":true,\"where\":\"setup\"}}");
            println!("END {k}");
            k += 1;
            continue;
        };
        for spec in specs.split(';') {
            let spec = spec.trim();
            if spec.is_empty() {
                continue;
            }
            let mut depth: Option<u8> = None;
            let mut nodes: Option<u64> = None;
            let mut limit_depth = false;
            let mut off = false;
            let mut stop_at: Option<u64> = None;
            let mut clock_at: Option<u64> = None;
            let mut movetime_at: Option<u64> = None;
            let mut skew_at: Option<u64> = None;
            let mut clocks: Option<Vec<u128>> = None;
            let mut cur = String::new();
            let mut mode = ' ';
            let mut flush = |mode: char, cur: &str, depth: &mut Option<u8>, nodes: &mut Option<u64>| {
                if mode == 'd' {
                    *depth = cur.parse().ok();
                } else if mode == 'n' {
                    *nodes = cur.parse().ok();
                } else if mode == 's' {
                    stop_at = cur.parse().ok();
                } else if mode == 'c' {
                    clock_at = cur.parse().ok();
                } else if mode == 'm' {
                    movetime_at = cur.parse().ok();
                } else if mode == 'k' {
                    skew_at = cur.parse().ok();
                } else if mode == 't' {
                    clocks = Some(cur.split(':').filter_map(|x| x.parse().ok()).collect());
                }
            };
            for ch in spec.chars() {
                if ch.is_ascii_digit() || (mode == 't' && ch == ':') {
                    cur.push(ch);
                } else {
                    flush(mode, &cur, &mut depth, &mut nodes);
                    cur.clear();
                    mode = ch;
                    if ch == 'x' {
                        off = true;
                    }
                    if ch == 'l' {
                        limit_depth = true;
                    }
                }
            }
            flush(mode, &cur, &mut depth, &mut nodes);
            crate::search::verif::CACHE_OFF.store(off, std::sync::atomic::Ordering::Relaxed);
            // q: quiet — do not record the cache writes (big searches)
            *crate::search::verif::TRACE.lock().unwrap() = if spec.contains('q') { None } else { Some(Vec::new()) };
            let mut limits = SearchLimits::new().nodes(nodes);
            if limit_depth {
                limits = limits.depth(depth);
            }
            if clock_at.is_some() {
                // time-management budget 600000/20 = 30000 ms: never reached by the real clock
                limits = limits.white_time(Some(600_000)).black_time(Some(600_000));
            }
            if movetime_at.is_some() {
                limits = limits.movetime(Some(30_000));
            }
            crate::search::verif::LOADS.store(0, std::sync::atomic::Ordering::SeqCst);
            crate::search::verif::READS.store(0, std::sync::atomic::Ordering::SeqCst);
            crate::search::verif::SKEW_MS.store(0, std::sync::atomic::Ordering::SeqCst);
            if let Some(c) = &clocks {
                if c.len() == 4 {
                    limits = limits
                        .white_time(Some(c[0]))
                        .black_time(Some(c[1]))
                        .white_increment(Some(c[2]))
                        .black_increment(Some(c[3]));
                }
            }
            let mut search = Search::new(&board, Some(limits));
            let cut_len = std::sync::Arc::new(std::sync::atomic::AtomicI64::new(-1));
            let cut_loads = std::sync::Arc::new(std::sync::atomic::AtomicI64::new(-1));
            let cut_reads = std::sync::Arc::new(std::sync::atomic::AtomicI64::new(-1));
            let ev = CutEval {
                calls: std::sync::Arc::new(std::sync::atomic::AtomicU64::new(0)),
                k: stop_at.or(clock_at).or(movetime_at).or(skew_at).unwrap_or(0),
                // k: no time limit at all, and the clock jumps by about four months
                skew_ms: if skew_at.is_some() {
                    10_000_000_000
                } else if clock_at.is_some() || movetime_at.is_some() {
                    60_000
                } else {
                    0
                },
                flag: if stop_at.is_some() { Some(search.running.clone()) } else { None },
                cut_len: cut_len.clone(),
                cut_loads: cut_loads.clone(),
                cut_reads: cut_reads.clone(),
            };
            let r = catch_unwind(AssertUnwindSafe(|| {
                search.search(&ev, depth);
            }));
            let timer = search.verif_timer().map_or(-1i128, |x| x as i128);
            let cut = cut_len.load(std::sync::atomic::Ordering::SeqCst);
            let cut_l = cut_loads.load(std::sync::atomic::Ordering::SeqCst);
            let cut_r = cut_reads.load(std::sync::atomic::Ordering::SeqCst);
            crate::search::verif::SKEW_MS.store(0, std::sync::atomic::Ordering::SeqCst);
            let trace = crate::search::verif::TRACE.lock().unwrap().take().unwrap_or_default();
            crate::search::verif::CACHE_OFF.store(false, std::sync::atomic::Ordering::Relaxed);
            let mut tt_diff: i64 = -1;
            let mut tt_diff_example = String::new();
            if off || spec.contains('q') {
                expected_valid = false; // the cache was emptied at every probe / the writes were not recorded: nothing to compare from here on
            } else if expected_valid {
                for w in &trace {
                    let b = w.3;
                    expected.insert(w.0, (w.1, w.2, b, enc_ply(&w.4)));
                }
                let tt = TRANSPOSITION_TABLE.read().unwrap();
                let mut d = 0i64;
                for (zk, e) in tt.iter() {
                    let key = zk.verif_u64();
                    let bcode: u8 = match e.bound {
                        crate::board::transposition_table::Bounds::Exact => 0,
                        crate::board::transposition_table::Bounds::Lower => 1,
                        crate::board::transposition_table::Bounds::Upper => 2,
                    };
                    let got = (e.score, e.depth, bcode, enc_ply(&e.best_ply));
                    if expected.get(&key) != Some(&got) {
                        d += 1;
                        if tt_diff_example.is_empty() {
                            tt_diff_example = format!("key {key}: table {:?}, observed writes say {:?}", got, expected.get(&key));
                        }
                    }
                }
                if tt.len() != expected.len() && d == 0 {
                    d = (tt.len() as i64 - expected.len() as i64).abs();
                    tt_diff_example = format!("table holds {} entries, the observed writes {}", tt.len(), expected.len());
                }
                tt_diff = d;
            }
            let (bm, bs, n, sd) = search.verif_result();
            // the legal moves of the searched position by the engine's own generator (so that the legality of the answer can be
            // judged on the engine alone, whatever move the model would have chosen)
            let legal_txt = catch_unwind(AssertUnwindSafe(|| {
                board.clone().get_legal_moves().iter().map(|m| format!("\"{}\"", m.to_notation())).collect::<Vec<_>>().join(",")
            }))
            .unwrap_or_default();
            let writes: Vec<String> = trace
                .iter()
                .map(|w| {
                    format!(
                        "[{},{},{},{},{},{},{},{}]",
                        w.0,
                        w.1,
                        w.2,
                        w.3,
                        enc_ply(&w.4),
                        w.5,
                        w.6.map_or(-1i128, |x| i128::from(x)),
                        u8::from(w.7)
                    )
                })
                .collect();
            println!(
                "RESULT {{\"panic\":{},\"spec\":\"{}\",\"timer\":{},\"cut\":{},\"cut_loads\":{},\"cut_reads\":{},\"best\":{},\"score\":{},\"nodes\":{},\"seldepth\":{},\"tt_diff\":{},\"tt_diff_example\":\"{}\",\"legal\":[{}],\"writes\":[{}]}}",
                r.is_err(),
                spec,
                timer,
                cut,
                cut_l,
                cut_r,
                bm.map_or("null".to_string(), |p| enc_ply(&p)),
                bs.map_or("null".to_string(), |x| x.to_string()),
                n,
                sd,
                tt_diff,
                tt_diff_example.replace('"', "'"),
                legal_txt,
                writes.join(",")
            );
        }
        println!("END {k}");
        k += 1;
    }
}


/// FEN of a board (placement from get_piece, rights from castle_status, en passant square from
/// the file and the side to move, clocks)
fn to_fen(b: &Board) -> String {
    let mut rows = Vec::new();
    for r in (0..8u8).rev() {
        let mut row = String::new();
        let mut empty = 0;
        for f in 0..8u8 {
            match b.get_piece(Square { rank: r, file: f }) {
                None => empty += 1,
                Some(k) => {
                    if empty > 0 {
                        row.push_str(&empty.to_string());
                        empty = 0;
                    }
                    let c = match k {
                        Kind::Pawn(_) => 'p',
                        Kind::King(_) => 'k',
                        Kind::Queen(_) => 'q',
                        Kind::Rook(_) => 'r',
                        Kind::Bishop(_) => 'b',
                        Kind::Knight(_) => 'n',
                    };
                    row.push(if k.get_color() == Color::White { c.to_ascii_uppercase() } else { c });
                }
            }
        }
        if empty > 0 {
            row.push_str(&empty.to_string());
        }
        rows.push(row);
    }
    let mut rights = String::new();
    for (k, c) in [
        (CastlingKind::WhiteKingside, 'K'),
        (CastlingKind::WhiteQueenside, 'Q'),
        (CastlingKind::BlackKingside, 'k'),
        (CastlingKind::BlackQueenside, 'q'),
    ] {
        if b.castle_status(k) == CastlingStatus::Available {
            rights.push(c);
        }
    }
    if rights.is_empty() {
        rights.push('-');
    }
    let ep = b.verif_en_passant_file().map_or("-".to_string(), |f| {
        format!("{}{}", (b'a' + f) as char, if b.current_turn == Color::White { 6 } else { 3 })
    });
    format!(
        "{} {} {} {} {} {}",
        rows.join("/"),
        if b.current_turn == Color::White { "w" } else { "b" },
        rights,
        ep,
        b.get_halfmove_clock(),
        b.fullmove_counter
    )
}

/// randfens <seed> <maxlen>: stdin lines of FENs -> the FEN of the position after a random legal
/// walk from each (same generator as randwalk)
fn cmd_randfens(args: &[String]) {
    let seed: u64 = args.first().and_then(|s| s.parse().ok()).unwrap_or(1);
    let maxlen: usize = args.get(1).and_then(|s| s.parse().ok()).unwrap_or(30);
    let mut rng = Rng(seed);
    let mut o = out();
    for line in std::io::stdin().lock().lines() {
        let fen = line.unwrap();
        if fen.trim().is_empty() {
            continue;
        }
        let r = catch_unwind(AssertUnwindSafe(|| {
            let mut b = Board::from_fen(fen.trim());
            let len = rng.below(maxlen + 1);
            for _ in 0..len {
                let legal = b.get_legal_moves();
                if legal.is_empty() {
                    break;
                }
                let caps: Vec<&Ply> = legal.iter().filter(|m| m.captured_piece.is_some() || m.promoted_to.is_some()).collect();
                let pick = if !caps.is_empty() && rng.below(3) == 0 { *caps[rng.below(caps.len())] } else { legal[rng.below(legal.len())] };
                b.make_move(pick);
            }
            to_fen(&b)
        }));
        match r {
            Ok(s) => writeln!(o, "{s}").unwrap(),
            Err(_) => writeln!(o, "PANIC").unwrap(),
        }
    }
}


/// tofen: stdin lines "FEN | moves" -> FEN of the position after the moves (or PANIC)
fn cmd_tofen() {
    let mut o = out();
    for line in std::io::stdin().lock().lines() {
        let line = line.unwrap();
        let (fen, moves) = match line.split_once('|') {
            Some((f, m)) => (f.trim().to_string(), m.trim().to_string()),
            None => (line.trim().to_string(), String::new()),
        };
        let r = catch_unwind(AssertUnwindSafe(|| {
            let mut b = Board::from_fen(&fen);
            for m in moves.split_whitespace() {
                let p = b.find_move(m).expect("illegal move");
                b.make_move(p);
            }
            to_fen(&b)
        }));
        match r {
            Ok(s) => writeln!(o, "{s}").unwrap(),
            Err(_) => writeln!(o, "PANIC").unwrap(),
        }
    }
}


/// accepts: stdin lines "FEN | s1 s2 ..." -> the strings find_move accepts (or "-")
fn cmd_accepts() {
    let mut o = out();
    for line in std::io::stdin().lock().lines() {
        let line = line.unwrap();
        let (fen, strs) = match line.split_once('|') {
            Some((f, m)) => (f.trim().to_string(), m.trim().to_string()),
            None => continue,
        };
        let r = catch_unwind(AssertUnwindSafe(|| {
            let mut b = Board::from_fen(&fen);
            let mut acc: Vec<&str> = Vec::new();
            for s in strs.split_whitespace() {
                if b.find_move(s).is_ok() {
                    acc.push(s);
                }
            }
            if acc.is_empty() { "-".to_string() } else { acc.join(" ") }
        }));
        match r {
            Ok(s) => writeln!(o, "{s}").unwrap(),
            Err(_) => writeln!(o, "PANIC").unwrap(),
        }
    }
}

/// backward: stdin lines "FEN".  Backward analysis in ONE cache: for the position R, some of its legal moves m (at most 6) and some
/// replies r (at most 4): search R+m+r, then R+m, then R, each to depth 2 WITHOUT clearing the cache in between (the cache then holds
/// ROOT entries of the successors when their predecessor is searched — a GUI stepping backwards through a game).  Every search must
/// name a legal move of the position searched.  Output: {"searches":n,"bad":[{"moves":"m r","best":".."}]}
fn cmd_backward() {
    use crate::board::transposition_table::TRANSPOSITION_TABLE;
    use crate::search::Search;
    let mut o = out();
    for line in std::io::stdin().lock().lines() {
        let fen = line.unwrap().trim().to_string();
        if fen.is_empty() {
            continue;
        }
        let r = catch_unwind(AssertUnwindSafe(|| {
            TRANSPOSITION_TABLE.write().unwrap().clear();
            *crate::search::verif::TRACE.lock().unwrap() = None;
            let mut b = Board::from_fen(&fen);
            let mut n = 0u32;
            let mut bad: Vec<String> = Vec::new();
            let mut probe = |b: &mut Board, path: &str, bad: &mut Vec<String>, n: &mut u32| {
                let legal = b.get_legal_moves();
                if legal.is_empty() {
                    return;
                }
                let mut search = Search::new(b, None);
                search.search(&SimpleEvaluator, Some(2));
                *n += 1;
                let (bm, _, _, _) = search.verif_result();
                let ok = bm.is_some_and(|c| legal.iter().any(|m| m.start == c.start && m.dest == c.dest && m.promoted_to == c.promoted_to));
                if !ok {
                    bad.push(format!("{{\"moves\":\"{}\",\"best\":\"{}\"}}", path, bm.map_or("none".to_string(), |c| c.to_notation())));
                }
            };
            let ms = b.get_legal_moves();
            for m in ms.iter().take(6) {
                b.make_move(*m);
                let rs = b.get_legal_moves();
                for r in rs.iter().take(4) {
                    b.make_move(*r);
                    probe(&mut b, &format!("{} {}", m.to_notation(), r.to_notation()), &mut bad, &mut n);
                    b.unmake_move();
                }
                probe(&mut b, &m.to_notation(), &mut bad, &mut n);
                b.unmake_move();
            }
            probe(&mut b, "", &mut bad, &mut n);
            TRANSPOSITION_TABLE.write().unwrap().clear();
            format!("{{\"searches\":{},\"bad\":[{}]}}", n, bad.join(","))
        }));
        match r {
            Ok(s) => writeln!(o, "{s}").unwrap(),
            Err(_) => writeln!(o, "{{\"panic\":true}}").unwrap(),
        }
    }
}

/// playable: stdin lines "FEN | m1 m2 ..." -> index of the first move that is not a legal move when the line is played from the
/// position (through find_move, i.e. the engine's own legal-move generator, which C01 ties to the rules), or -1 when all are
fn cmd_playable() {
    let mut o = out();
    for line in std::io::stdin().lock().lines() {
        let line = line.unwrap();
        let (fen, ms) = match line.split_once('|') {
            Some((f, m)) => (f.trim().to_string(), m.trim().to_string()),
            None => continue,
        };
        let r = catch_unwind(AssertUnwindSafe(|| {
            let mut b = Board::from_fen(&fen);
            for (i, m) in ms.split_whitespace().enumerate() {
                match b.find_move(m) {
                    Ok(p) => b.make_move(p),
                    Err(_) => return i as i64,
                }
            }
            -1
        }));
        match r {
            Ok(v) => writeln!(o, "{v}").unwrap(),
            Err(_) => writeln!(o, "PANIC").unwrap(),
        }
    }
}

/// The reference value of spec/Game.v written directly against the engine's board API: full-width negamax, no windows, no
/// ordering, no cache (check extension, capture quiescence with stand-pat, fifty-move / repetition draws, mate by distance,
/// ply cap).  Exponential: for sparse positions.
fn ref_vq(b: &mut Board, ply: u32) -> i32 {
    if ply == 255 {
        return 0;
    }
    let mut best = i32::from(SimpleEvaluator.evaluate(b));
    for m in b.get_filtered_moves(Ply::is_capture) {
        if b.is_legal_move(m).is_err() {
            continue;
        }
        b.make_move(m);
        let v = -ref_vq(b, ply + 1);
        b.unmake_move();
        if v > best {
            best = v;
        }
    }
    best
}

fn ref_v(b: &mut Board, depth: u32, ply: u32) -> i32 {
    if ply == 255 {
        return 0;
    }
    if b.get_halfmove_clock() >= 100 {
        return 0;
    }
    if b.position_reached(b.zkey) {
        return 0;
    }
    let in_check = b.is_in_check(b.current_turn);
    let depth = if in_check { depth + 1 } else { depth };
    if depth == 0 {
        return ref_vq(b, ply);
    }
    let mut best: Option<i32> = None;
    for m in b.get_all_moves() {
        if b.is_legal_move(m).is_err() {
            continue;
        }
        b.make_move(m);
        let v = -ref_v(b, depth - 1, ply + 1);
        b.unmake_move();
        best = Some(best.map_or(v, |x| x.max(v)));
    }
    match best {
        Some(v) => v,
        None => {
            if in_check {
                -32768 + ply as i32
            } else {
                0
            }
        }
    }
}

/// The same value by textbook fail-soft alpha-beta (no cache, no ordering, no re-searches): used where the plain recursion is
/// too slow; cross-checked against it at smaller depths on every run.
fn ref_ab_q(b: &mut Board, alpha: i32, beta: i32, ply: u32) -> i32 {
    if ply == 255 {
        return 0;
    }
    let mut best = i32::from(SimpleEvaluator.evaluate(b));
    if best >= beta {
        return best;
    }
    let mut a = alpha.max(best);
    for m in b.get_filtered_moves(Ply::is_capture) {
        if b.is_legal_move(m).is_err() {
            continue;
        }
        b.make_move(m);
        let v = -ref_ab_q(b, -beta, -a, ply + 1);
        b.unmake_move();
        if v > best {
            best = v;
        }
        if best >= beta {
            break;
        }
        a = a.max(best);
    }
    best
}

fn ref_ab(b: &mut Board, depth: u32, alpha: i32, beta: i32, ply: u32) -> i32 {
    if ply == 255 {
        return 0;
    }
    if b.get_halfmove_clock() >= 100 {
        return 0;
    }
    if b.position_reached(b.zkey) {
        return 0;
    }
    let in_check = b.is_in_check(b.current_turn);
    let depth = if in_check { depth + 1 } else { depth };
    if depth == 0 {
        return ref_ab_q(b, alpha, beta, ply);
    }
    let mut best: Option<i32> = None;
    let mut a = alpha;
    for m in b.get_all_moves() {
        if b.is_legal_move(m).is_err() {
            continue;
        }
        b.make_move(m);
        let v = -ref_ab(b, depth - 1, -beta, -a, ply + 1);
        b.unmake_move();
        best = Some(best.map_or(v, |x| x.max(v)));
        if v >= beta {
            break;
        }
        a = a.max(v);
    }
    match best {
        Some(v) => v,
        None => {
            if in_check {
                -32768 + ply as i32
            } else {
                0
            }
        }
    }
}

/// refvalue: stdin lines "FEN | moves | depth[a]" (a = by the alpha-beta reference) -> {"vroot": v|null, "moves": [[ply, value], ...]} (values of the root moves)
fn cmd_refvalue() {
    let mut o = out();
    for line in std::io::stdin().lock().lines() {
        let line = line.unwrap();
        let parts: Vec<&str> = line.split('|').collect();
        if parts.len() < 3 {
            continue;
        }
        let fen = parts[0].trim().to_string();
        let moves = parts[1].trim().to_string();
        let dtxt = parts[2].trim().to_string();
        let use_ab = dtxt.ends_with('a');
        let depth: u32 = dtxt.trim_end_matches('a').parse().unwrap_or(1);
        let r = catch_unwind(AssertUnwindSafe(|| {
            let mut b = Board::from_fen(&fen);
            for m in moves.split_whitespace() {
                let p = b.find_move(m).expect("bad move");
                b.make_move(p);
            }
            let mut vals: Vec<String> = Vec::new();
            let mut best: Option<i32> = None;
            for m in b.get_all_moves() {
                if b.is_legal_move(m).is_err() {
                    continue;
                }
                b.make_move(m);
                let v = if use_ab {
                    -ref_ab(&mut b, depth.saturating_sub(1), -100_000, 100_000, 1)
                } else {
                    -ref_v(&mut b, depth.saturating_sub(1), 1)
                };
                b.unmake_move();
                vals.push(format!("[{},{}]", enc_ply(&m), v));
                best = Some(best.map_or(v, |x| x.max(v)));
            }
            format!("{{\"vroot\":{},\"moves\":[{}]}}", best.map_or("null".to_string(), |v| v.to_string()), vals.join(","))
        }));
        match r {
            Ok(s) => writeln!(o, "{s}").unwrap(),
            Err(_) => writeln!(o, "{{\"panic\":true}}").unwrap(),
        }
    }
}

// ---- a mate oracle over the engine's own board API (mirrors model/ChessSearch.v: is_mated, mating_moves, wins_in, keeps_mate,
// allows_mate_in_one) and a hunt for violations of the three mate clauses with the cache ON ----
fn legal_moves_of(b: &mut Board) -> Vec<Ply> {
    b.get_legal_moves()
}
fn o_is_mated(b: &mut Board) -> bool {
    legal_moves_of(b).is_empty() && b.is_in_check(b.current_turn)
}
fn o_wins_in(n: u32, b: &mut Board) -> bool {
    if n == 0 {
        return false;
    }
    for m in legal_moves_of(b) {
        b.make_move(m);
        let ok = if o_is_mated(b) {
            true
        } else {
            let rs = legal_moves_of(b);
            if rs.is_empty() {
                false
            } else {
                let mut all = true;
                for r in rs {
                    b.make_move(r);
                    let w = o_wins_in(n - 1, b);
                    b.unmake_move();
                    if !w {
                        all = false;
                        break;
                    }
                }
                all
            }
        };
        b.unmake_move();
        if ok {
            return true;
        }
    }
    false
}
/// memoised forced-mate solver (key, n) -> bool with a work budget: Some(true/false) = decided, None = budget exhausted
struct Solver {
    memo: std::collections::HashMap<(u64, u32), bool>,
    budget: u64,
}
impl Solver {
    fn new(budget: u64) -> Self {
        Self { memo: std::collections::HashMap::new(), budget }
    }
    /// the side to move can force mate within n of its own moves
    fn wins(&mut self, n: u32, b: &mut Board) -> Option<bool> {
        if n == 0 {
            return Some(false);
        }
        let k = (b.zkey.verif_u64(), n);
        if let Some(v) = self.memo.get(&k) {
            return Some(*v);
        }
        if self.budget == 0 {
            return None;
        }
        self.budget -= 1;
        let mut res = false;
        let mut moves = legal_moves_of(b);
        // checking moves first
        moves.sort_by_key(|m| {
            b.make_move(*m);
            let c = b.is_in_check(b.current_turn);
            b.unmake_move();
            !c
        });
        for m in moves {
            b.make_move(m);
            let r = self.lost(n - 1, b);
            b.unmake_move();
            match r {
                None => return None,
                Some(true) => {
                    res = true;
                    break;
                }
                Some(false) => {}
            }
        }
        self.memo.insert(k, res);
        Some(res)
    }
    /// the side to move is mated, or has a move and every move leaves the opponent a forced mate within n moves
    fn lost(&mut self, n: u32, b: &mut Board) -> Option<bool> {
        let rs = legal_moves_of(b);
        if rs.is_empty() {
            return Some(b.is_in_check(b.current_turn));
        }
        if n == 0 {
            return Some(false);
        }
        for r in rs {
            b.make_move(r);
            let w = self.wins(n, b);
            b.unmake_move();
            match w {
                None => return None,
                Some(false) => return Some(false),
                Some(true) => {}
            }
        }
        Some(true)
    }
    /// iterative deepening: Some(true) as soon as some level <= max proves it
    fn lost_within(&mut self, max: u32, b: &mut Board) -> Option<bool> {
        for n in 0..=max {
            match self.lost(n, b) {
                None => return None,
                Some(true) => return Some(true),
                Some(false) => {}
            }
        }
        Some(false)
    }
}

fn o_keeps_mate(n: u32, b: &mut Board, m: Ply) -> bool {
    b.make_move(m);
    let ok = if o_is_mated(b) {
        true
    } else {
        let rs = legal_moves_of(b);
        if rs.is_empty() {
            false
        } else {
            let mut all = true;
            for r in rs {
                b.make_move(r);
                let w = o_wins_in(n, b);
                b.unmake_move();
                if !w {
                    all = false;
                    break;
                }
            }
            all
        }
    };
    b.unmake_move();
    ok
}
fn o_mates(b: &mut Board, m: Ply) -> bool {
    b.make_move(m);
    let r = o_is_mated(b);
    b.unmake_move();
    r
}
fn o_allows_mate_in_one(b: &mut Board, m: Ply) -> bool {
    b.make_move(m);
    let mut any = false;
    for r in legal_moves_of(b) {
        if o_mates(b, r) {
            any = true;
            break;
        }
    }
    b.unmake_move();
    any
}

/// matehunt: stdin lines "FEN | d3;d4,d3;..." (sequences separated by ';', searches of one sequence share the cache, which is
/// emptied before each sequence).  For every search of depth >= 3 the chosen move is judged by the oracle.  Output per line:
/// {"facts":[mate1, mate2, avoidable], "violations":[{"seq":..,"k":..,"move":..,"clause":..}]}
fn cmd_matehunt() {
    use crate::board::transposition_table::TRANSPOSITION_TABLE;
    use crate::search::Search;
    let mut o = out();
    for line in std::io::stdin().lock().lines() {
        let line = line.unwrap();
        let parts: Vec<&str> = line.split('|').collect();
        if parts.len() < 2 {
            continue;
        }
        let fen = parts[0].trim().to_string();
        let seqs = parts[1].trim().to_string();
        let r = catch_unwind(AssertUnwindSafe(|| {
            let mut b = Board::from_fen(&fen);
            let legal = legal_moves_of(&mut b);
            if legal.is_empty() {
                return "{\"facts\":null,\"violations\":[]}".to_string();
            }
            let mating: Vec<Ply> = legal.iter().copied().filter(|m| o_mates(&mut b, *m)).collect();
            let win2 = mating.is_empty() && o_wins_in(2, &mut b);
            let allows: Vec<bool> = legal.iter().map(|m| o_allows_mate_in_one(&mut b, *m)).collect();
            let avoidable = allows.iter().any(|x| *x) && allows.iter().any(|x| !*x);
            let mut viol: Vec<String> = Vec::new();
            let interesting = !mating.is_empty() || win2 || avoidable;
            let mut mate_scores = 0u32;
            {
                // positions without any of the three facts are still searched (two sequences): a mate SCORE must never be a lie
                // (props/C12sound.v: score >= 32000 => the chosen move forces mate; score <= -32000 => the position is lost)
                for seq in seqs.split(';').enumerate().filter(|(i, _)| interesting || *i == 0 || *i == 2).map(|(_, x)| x) {
                    TRANSPOSITION_TABLE.write().unwrap().clear();
                    for (k, d) in seq.split(',').enumerate() {
                        // "d<N>" or "d<N>n<budget>": a search cut by a node budget only PREPARES the cache (an earlier, interrupted
                        // search of the same position); its own answer is judged for lying mate scores only
                        let d = d.trim().trim_start_matches('d');
                        let (dtxt, ntxt) = d.split_once('n').map_or((d, None), |(a, b)| (a, Some(b)));
                        let budget: Option<u64> = ntxt.and_then(|x| x.parse().ok());
                        let depth: u8 = if budget.is_some() { 0 } else { dtxt.parse().unwrap_or(3) };
                        let sdepth: u8 = dtxt.parse().unwrap_or(3);
                        let limits = budget.map(|n| crate::search::limits::SearchLimits::new().nodes(Some(n)));
                        let mut search = Search::new(&b, limits);
                        *crate::search::verif::TRACE.lock().unwrap() = None;
                        search.search(&SimpleEvaluator, Some(sdepth));
                        let (bm, bs, _, _) = search.verif_result();
                        let Some(c) = bm else { continue };
                        let mut clause = 0;
                        if mating.is_empty() {
                            if let Some(sc) = bs {
                                // the distance the score claims (mate at ply 32767 - sc / sc + 32768), plus three moves of slack for
                                // ply-relative scores reused at other plies; 40 = undecided (solver budget exhausted), not judged
                                if sc >= 32000 {
                                    mate_scores += 1;
                                    let claimed = (32767 - i32::from(sc) + 1) / 2;
                                    let mut sv = Solver::new(3_000_000);
                                    b.make_move(c);
                                    let r = sv.lost_within((claimed + 2).max(1) as u32, &mut b);
                                    b.unmake_move();
                                    clause = match r {
                                        Some(true) => 0,
                                        Some(false) => 4,
                                        None => 44,
                                    };
                                } else if sc <= -32000 {
                                    mate_scores += 1;
                                    let claimed = (i32::from(sc) + 32768) / 2;
                                    let mut sv = Solver::new(3_000_000);
                                    let r = sv.lost_within((claimed + 3).max(1) as u32, &mut b);
                                    clause = match r {
                                        Some(true) => 0,
                                        Some(false) => 5,
                                        None => 44,
                                    };
                                }
                            }
                        }
                        if clause != 0 {
                            viol.push(format!("{{\"seq\":\"{seq}\",\"k\":{k},\"move\":\"{}\",\"clause\":{clause}}}", c.to_notation()));
                            continue;
                        }
                        if depth < 3 {
                            continue;
                        }
                        if !mating.is_empty() {
                            if !mating.iter().any(|m| m.start == c.start && m.dest == c.dest && m.promoted_to == c.promoted_to) {
                                clause = 1;
                            }
                        } else if win2 && !o_keeps_mate(1, &mut b, c) {
                            // strict reading failed (the mate in two is not kept); lenient: some forced mate within 2..4 more moves
                            clause = if o_keeps_mate(2, &mut b, c) {
                                20
                            } else if o_keeps_mate(3, &mut b, c) {
                                30
                            } else if o_keeps_mate(4, &mut b, c) {
                                40
                            } else {
                                2
                            };
                        }
                        if clause == 0 && avoidable && o_allows_mate_in_one(&mut b, c) {
                            clause = 3;
                        }
                        if clause != 0 {
                            viol.push(format!("{{\"seq\":\"{seq}\",\"k\":{k},\"move\":\"{}\",\"clause\":{clause}}}", c.to_notation()));
                        }
                    }
                }
            }
            TRANSPOSITION_TABLE.write().unwrap().clear();
            format!(
                "{{\"facts\":[{},{},{}],\"mate_scores\":{},\"violations\":[{}]}}",
                u8::from(!mating.is_empty()),
                u8::from(win2),
                u8::from(avoidable),
                mate_scores,
                viol.join(",")
            )
        }));
        match r {
            Ok(s) => writeln!(o, "{s}").unwrap(),
            Err(_) => writeln!(o, "{{\"panic\":true}}").unwrap(),
        }
    }
}

/// matefacts: stdin lines "FEN"; output {"mating":[notations],"win2":0/1,"allows":[[notation,0/1],...]} — the driver's mate oracle in
/// the same shape as `mate_facts` of model/ChessSearch.v, so that it can be validated against the Coq oracle
fn cmd_matefacts() {
    let mut o = out();
    for line in std::io::stdin().lock().lines() {
        let fen = line.unwrap().trim().to_string();
        let r = catch_unwind(AssertUnwindSafe(|| {
            let mut b = Board::from_fen(&fen);
            let legal = legal_moves_of(&mut b);
            let mating: Vec<String> = legal.iter().copied().filter(|m| o_mates(&mut b, *m)).map(|m| format!("\"{}\"", m.to_notation())).collect();
            let win2 = o_wins_in(2, &mut b);
            let allows: Vec<String> =
                legal.iter().map(|m| format!("[\"{}\",{}]", m.to_notation(), u8::from(o_allows_mate_in_one(&mut b, *m)))).collect();
            format!("{{\"mating\":[{}],\"win2\":{},\"allows\":[{}]}}", mating.join(","), u8::from(win2), allows.join(","))
        }));
        match r {
            Ok(s) => writeln!(o, "{s}").unwrap(),
            Err(_) => writeln!(o, "{{\"panic\":true}}").unwrap(),
        }
    }
}

pub fn main(args: &[String]) {
    // keep panics quiet: they are reported as outcomes
    std::panic::set_hook(Box::new(|_| {}));
    let cmd = args.first().map(String::as_str).unwrap_or("");
    match cmd {
        "consts" => cmd_consts(),
        "sliders" => cmd_sliders(),
        "occ" => cmd_occ(),
        "walk" => cmd_walk(&args[1..]),
        "fen" => cmd_fen(),
        "accepts" => cmd_accepts(),
        "refvalue" => cmd_refvalue(),
        "matehunt" => cmd_matehunt(),
        "matefacts" => cmd_matefacts(),
        "pairs" => cmd_pairs(),
        "playable" => cmd_playable(),
        "backward" => cmd_backward(),
        "tofen" => cmd_tofen(),
        "randfens" => cmd_randfens(&args[1..]),
        "eval" => cmd_eval(),
        "parse" => cmd_parse(),
        "search" => cmd_search(),
        "randwalk" => cmd_randwalk(&args[1..]),
        _ => {
            eprintln!("unknown verif command: {cmd}");
            std::process::exit(2);
        }
    }
}
