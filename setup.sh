#!/bin/sh
# Build the framework from files on disk only (offline): the engine with the verification
# driver, the generated Coq constants, and the whole Coq development.
set -e
cd "$(dirname "$0")"
python3 - <<'PY'
import sys, os
sys.path.insert(0, os.path.join(os.getcwd(), "lib"))
import common as C
ok, log, t = C.build_engine()
print("engine build:", "ok" if ok else "FAILED", "%.1fs" % t)
if not ok:
    print(log)
    sys.exit(1)
d, err = C.gen_consts()
if d is None:
    print(err)
    sys.exit(1)
ok, log = C.coq_make(["all"], timeout=3400)
print("coq build:", "ok" if ok else "FAILED")
if not ok:
    print(log[-5000:])
    sys.exit(1)
PY
