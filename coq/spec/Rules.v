(* Rules.v — the rules of chess over a mailbox position, in rank/file coordinates only (built on
   Geometry.v).  No bitboards, no magic numbers, no undo records.  This is the specification the
   move generator, the check test and the make-move bookkeeping are compared with (C01, C03). *)
From Coq Require Import NArith ZArith List Lia Bool.
Import ListNotations.
From RCE Require Import lib.Geometry model.Board.

(* a position: 64 cells (a1 = 0 ... h8 = 63), side to move, the four castling rights, the file of
   a pawn that has just advanced two squares (if any), the two move counters *)
Record Pos := mkPos {
  cells : list (option Kind);
  side : Color;
  rights : Rights;
  ep : option nat;
  halfmove : N;
  fullmove : N }.

Definition at_ (c : list (option Kind)) (s : nat) : option Kind := nth s c None.
Definition occupied (c : list (option Kind)) (s : nat) : bool :=
  match at_ c s with Some _ => true | None => false end.
Definition has_color (c : list (option Kind)) (col : Color) (s : nat) : bool :=
  match at_ c s with Some (_, x) => color_eqb x col | None => false end.
Definition has_piece (c : list (option Kind)) (k : Kind) (s : nat) : bool :=
  match at_ c s with Some x => kind_eqb x k | None => false end.

Definition memb (x : nat) (l : list nat) : bool := existsb (Nat.eqb x) l.

(* the squares a piece standing on `from` attacks *)
Definition attack_targets (c : list (option Kind)) (from : nat) (k : Kind) : list nat :=
  match fst k with
  | Pawn => leaper_targets (match snd k with White => wpawn_deltas | Black => bpawn_deltas end) from
  | Knight => leaper_targets knight_deltas from
  | King => leaper_targets king_deltas from
  | Rook => slider_attacks rook_dirs from (occupied c)
  | Bishop => slider_attacks bishop_dirs from (occupied c)
  | Queen => slider_attacks rook_dirs from (occupied c) ++ slider_attacks bishop_dirs from (occupied c)
  end.

(* is square s attacked by a piece of colour col *)
Definition attacked_by (c : list (option Kind)) (col : Color) (s : nat) : bool :=
  existsb (fun from => match at_ c from with
                       | Some k => if color_eqb (snd k) col then memb s (attack_targets c from k) else false
                       | None => false
                       end) (seq 0 64).

(* the side `col` is in check: one of its kings stands on a square attacked by the other side *)
Definition in_check (c : list (option Kind)) (col : Color) : bool :=
  existsb (fun s => if has_piece c (King, col) s then attacked_by c (opposite col) s else false) (seq 0 64).

(* a move of the rules: from, to, promotion piece type *)
Record Move := mkMove { m_from : nat; m_to : nat; m_promo : option PType }.

Definition sq (r f : Z) : nat := mk r f.
Definition forward (col : Color) : Z := match col with White => 1 | Black => -1 end%Z.
Definition start_rank (col : Color) : Z := match col with White => 1 | Black => 6 end%Z.
Definition last_rank (col : Color) : Z := match col with White => 7 | Black => 0 end%Z.
Definition ep_rank (col : Color) : Z := match col with White => 4 | Black => 3 end%Z.

Definition with_promotions (col : Color) (from to : nat) : list Move :=
  if (Geometry.rank to =? last_rank col)%Z
  then map (fun t => mkMove from to (Some t)) [Queen; Rook; Knight; Bishop]
  else [mkMove from to None].

Definition pawn_moves (p : Pos) (from : nat) : list Move :=
  let c := cells p in let col := side p in
  let r := Geometry.rank from in let f := Geometry.file from in
  let d := forward col in
  let one := sq (r + d) f in
  let two := sq (r + 2 * d) f in
  let pushes :=
      if inb (r + d) f && negb (occupied c one) then
        with_promotions col from one ++
        (if (r =? start_rank col)%Z && negb (occupied c two) then [mkMove from two None] else [])
      else [] in
  let captures :=
      flat_map (fun t => if has_color c (opposite col) t then with_promotions col from t else [])
               (leaper_targets (match col with White => wpawn_deltas | Black => bpawn_deltas end) from) in
  let en_passant :=
      match ep p with
      | Some ef =>
        if (r =? ep_rank col)%Z && (Z.abs (f - Z.of_nat ef) =? 1)%Z
        then [mkMove from (sq (r + d) (Z.of_nat ef)) None] else []
      | None => []
      end in
  pushes ++ captures ++ en_passant.

(* castling: king and rook on their home squares, the right still held, the squares between them
   empty, and the king neither in check nor passing over nor arriving on an attacked square *)
Definition castle_moves (p : Pos) (from : nat) : list Move :=
  let c := cells p in let col := side p in
  let home := match col with White => 4 | Black => 60 end%nat in
  if Nat.eqb from home && has_piece c (King, col) home then
    let enemy := opposite col in
    let ks := (* kingside *)
        if get_right (rights p) (match col with White => WK | Black => BK end)
           && has_piece c (Rook, col) (home + 3)
           && negb (occupied c (home + 1)) && negb (occupied c (home + 2))
           && negb (attacked_by c enemy home) && negb (attacked_by c enemy (home + 1))
           && negb (attacked_by c enemy (home + 2))
        then [mkMove home (home + 2) None] else [] in
    let qs :=
        if get_right (rights p) (match col with White => WQ | Black => BQ end)
           && has_piece c (Rook, col) (home - 4)
           && negb (occupied c (home - 1)) && negb (occupied c (home - 2)) && negb (occupied c (home - 3))
           && negb (attacked_by c enemy home) && negb (attacked_by c enemy (home - 1))
           && negb (attacked_by c enemy (home - 2))
        then [mkMove home (home - 2) None] else [] in
    ks ++ qs
  else [].

Definition piece_moves (p : Pos) (from : nat) (k : Kind) : list Move :=
  let c := cells p in
  match fst k with
  | Pawn => pawn_moves p from
  | King => map (fun t => mkMove from t None)
                (filter (fun t => negb (has_color c (side p) t)) (attack_targets c from k))
            ++ castle_moves p from
  | _ => map (fun t => mkMove from t None)
             (filter (fun t => negb (has_color c (side p) t)) (attack_targets c from k))
  end.

Definition pseudo_moves (p : Pos) : list Move :=
  flat_map (fun from => match at_ (cells p) from with
                        | Some k => if color_eqb (snd k) (side p) then piece_moves p from k else []
                        | None => []
                        end) (seq 0 64).

Fixpoint set_cell (c : list (option Kind)) (s : nat) (v : option Kind) : list (option Kind) :=
  match c, s with
  | [], _ => []
  | _ :: t, O => v :: t
  | h :: t, S s' => h :: set_cell t s' v
  end.

Definition is_castle (c : list (option Kind)) (m : Move) : bool :=
  match at_ c (m_from m) with
  | Some (King, _) => (Z.abs (Geometry.file (m_from m) - Geometry.file (m_to m)) =? 2)%Z
  | _ => false
  end.
Definition is_ep (p : Pos) (m : Move) : bool :=
  match at_ (cells p) (m_from m) with
  | Some (Pawn, _) => negb (Geometry.file (m_from m) =? Geometry.file (m_to m))%Z
                      && negb (occupied (cells p) (m_to m))
  | _ => false
  end.
Definition is_double_push (c : list (option Kind)) (m : Move) : bool :=
  match at_ c (m_from m) with
  | Some (Pawn, _) => (Z.abs (Geometry.rank (m_from m) - Geometry.rank (m_to m)) =? 2)%Z
  | _ => false
  end.
Definition is_capture_move (p : Pos) (m : Move) : bool := occupied (cells p) (m_to m) || is_ep p m.

(* rights lost when a king or rook leaves, or anything arrives on, a home square *)
Definition touch_rights (r : Rights) (s : nat) : Rights :=
  let r := if Nat.eqb s 4 then clear_right (clear_right r WK) WQ else r in
  let r := if Nat.eqb s 60 then clear_right (clear_right r BK) BQ else r in
  let r := if Nat.eqb s 0 then clear_right r WQ else r in
  let r := if Nat.eqb s 7 then clear_right r WK else r in
  let r := if Nat.eqb s 56 then clear_right r BQ else r in
  if Nat.eqb s 63 then clear_right r BK else r.

(* play a move *)
Definition apply (p : Pos) (m : Move) : Pos :=
  let c := cells p in
  let col := side p in
  let mover := at_ c (m_from m) in
  let placed := match m_promo m, mover with
                | Some t, _ => Some (t, col)
                | None, k => k
                end in
  let c1 := set_cell c (m_from m) None in
  let c2 := if is_ep p m then set_cell c1 (sq (Geometry.rank (m_from m)) (Geometry.file (m_to m))) None else c1 in
  let c3 := set_cell c2 (m_to m) placed in
  let c4 := if is_castle c m then
              (if Nat.ltb (m_from m) (m_to m)
               then set_cell (set_cell c3 (m_from m + 3) None) (m_from m + 1) (Some (Rook, col))
               else set_cell (set_cell c3 (m_from m - 4) None) (m_from m - 1) (Some (Rook, col)))
            else c3 in
  let pawn_move := match mover with Some (Pawn, _) => true | _ => false end in
  mkPos c4 (opposite col)
        (touch_rights (touch_rights (rights p) (m_from m)) (m_to m))
        (if is_double_push c m then Some (Z.to_nat (Geometry.file (m_to m))) else None)
        (if pawn_move || is_capture_move p m then 0 else halfmove p + 1)%N
        (match col with Black => fullmove p + 1 | White => fullmove p end)%N.

Definition legal (p : Pos) (m : Move) : bool := negb (in_check (cells (apply p m)) (side p)).
Definition legal_moves (p : Pos) : list Move := filter (legal p) (pseudo_moves p).

Definition checkmate (p : Pos) : bool :=
  in_check (cells p) (side p) && match legal_moves p with [] => true | _ => false end.
Definition stalemate (p : Pos) : bool :=
  negb (in_check (cells p) (side p)) && match legal_moves p with [] => true | _ => false end.

(* number of leaf nodes of the legal-move tree (validates this file against published totals) *)
Fixpoint perft (d : nat) (p : Pos) : N :=
  match d with
  | O => 1%N
  | S d' => fold_left (fun acc m => (acc + perft d' (apply p m))%N) (legal_moves p) 0%N
  end.
