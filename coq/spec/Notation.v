(* Notation.v — coordinate notation of a move of the rules (UCI "long algebraic"): file letter and
   rank digit of the start square, the same for the destination square, and for a promotion the
   letter of the new piece.  Written over Geometry's rank/file only; independent of the engine's
   own `to_notation`. *)
From Coq Require Import NArith ZArith List Ascii String.
Import ListNotations.
From RCE Require Import lib.Geometry model.Board spec.Rules.

Definition file_letter (f : Z) : ascii := ascii_of_nat (97 + Z.to_nat f).   (* 0 -> "a" *)
Definition rank_digit (r : Z) : ascii := ascii_of_nat (49 + Z.to_nat r).    (* 0 -> "1" *)
Definition square_name (s : nat) : string :=
  String (file_letter (Geometry.file s)) (String (rank_digit (Geometry.rank s)) EmptyString).
Definition promo_letter_rules (t : option PType) : string :=
  match t with
  | Some Queen => "q" | Some Rook => "r" | Some Bishop => "b" | Some Knight => "n"
  | _ => ""
  end%string.
Definition to_notation_rules (m : Move) : string :=
  (square_name (m_from m) ++ square_name (m_to m) ++ promo_letter_rules (m_promo m))%string.
