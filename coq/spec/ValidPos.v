(* ValidPos.v — which positions of Rules.v are positions of a chess game, said over the mailbox
   only (no bitboards): 64 cells; at most one king a side; a castling right only with that king and
   rook on their home squares; an en-passant file only behind a pawn of the side that has just
   moved standing on its fourth rank with the two squares it came over empty; no pawn on the first
   or last rank; the side that has just moved is not in check; counters within the engine's 16 bits;
   at most 16 non-king men a side.  This is the rules-level reading of the computable hypotheses
   `wf_rules` / `chess_inv` of the theorems about the bitboard model. *)
From Coq Require Import NArith ZArith List Bool.
Import ListNotations.
From RCE Require Import lib.Geometry model.Board spec.Rules.

Definition count_piece (c : list (option Kind)) (k : Kind) : nat :=
  length (filter (fun s => has_piece c k s) (seq 0 64)).
Definition men (c : list (option Kind)) (col : Color) : nat :=
  length (filter (fun s => match at_ c s with
                           | Some (King, _) => false
                           | Some (_, x) => color_eqb x col
                           | None => false
                           end) (seq 0 64)).

Definition rights_valid (p : Pos) : bool :=
  let c := cells p in let r := rights p in
  (if r_wk r then has_piece c (King, White) 4 && has_piece c (Rook, White) 7 else true)
  && (if r_wq r then has_piece c (King, White) 4 && has_piece c (Rook, White) 0 else true)
  && (if r_bk r then has_piece c (King, Black) 60 && has_piece c (Rook, Black) 63 else true)
  && (if r_bq r then has_piece c (King, Black) 60 && has_piece c (Rook, Black) 56 else true).

Definition ep_valid (p : Pos) : bool :=
  match ep p with
  | None => true
  | Some f =>
    Nat.ltb f 8 &&
    match side p with
    | White => has_piece (cells p) (Pawn, Black) (32 + f) && negb (occupied (cells p) (40 + f))
               && negb (occupied (cells p) (48 + f))
    | Black => has_piece (cells p) (Pawn, White) (24 + f) && negb (occupied (cells p) (16 + f))
               && negb (occupied (cells p) (8 + f))
    end
  end.

Definition no_pawn_on_ends (c : list (option Kind)) : bool :=
  forallb (fun s => match at_ c s with Some (Pawn, _) => false | _ => true end)
          (seq 0 8 ++ seq 56 8).

Definition valid_pos (p : Pos) : bool :=
  Nat.eqb (length (cells p)) 64
  && Nat.leb (count_piece (cells p) (King, White)) 1 && Nat.leb (count_piece (cells p) (King, Black)) 1
  && rights_valid p && ep_valid p && no_pawn_on_ends (cells p)
  && negb (in_check (cells p) (opposite (side p)))
  && N.ltb (halfmove p) 65536 && N.ltb (fullmove p) 65536
  && Nat.leb (men (cells p) White) 16 && Nat.leb (men (cells p) Black) 16.
