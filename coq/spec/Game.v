(* Game.v — the reference value of the engine's own look-ahead game: plain full-width negamax,
   no windows, no ordering, no cache.  Full width to the nominal depth, one extra ply whenever the
   side to move is in check, capture-only quiescence with stand-pat at the horizon, immediate
   draw (0) on the fifty-move rule or a repeated position, mate scored by distance from the
   root (MIN + ply), and the ply cap (a node at ply 255 is worth 0, as the code's own
   `info.depth == Depth::MAX` test makes it). *)
From Coq Require Import NArith ZArith List Lia Bool.
Import ListNotations.
From RCE Require Import model.Search.
Open Scope Z_scope.

Section Game.
  Variables pos mv : Type.
  Variable moves : pos -> list mv.
  Variable legal : pos -> mv -> bool.
  Variable make : pos -> mv -> pos.
  Variable in_check : pos -> bool.
  Variable evalf : pos -> Z.
  Variable is_cap : mv -> bool.
  Variable halfmove : pos -> N.
  Variable repeated : pos -> bool.

  Definition maxl (l : list Z) (d : Z) : Z := fold_left Z.max l d.

  (* quiescence value: the better of standing pat and the best legal capture *)
  Fixpoint Vq (fuel : nat) (p : pos) (ply : nat) : Z :=
    match fuel with
    | O => 0
    | S f =>
      if Nat.eqb ply PLY_MAX then 0
      else maxl (map (fun m => - Vq f (make p m) (S ply))
                     (filter (legal p) (filter is_cap (moves p)))) (evalf p)
    end.

  Fixpoint V (fuel : nat) (depth : nat) (p : pos) (ply : nat) : Z :=
    match fuel with
    | O => 0
    | S f =>
      if Nat.eqb ply PLY_MAX then 0
      else if N.leb 100 (halfmove p) then 0
      else if repeated p then 0
      else
        let depth := if in_check p then S depth else depth in
        match depth with
        | O => Vq f p ply
        | S dm1 =>
          match map (fun m => - V f dm1 (make p m) (S ply)) (filter (legal p) (moves p)) with
          | [] => if in_check p then SCORE_MIN + Z.of_nat ply else 0
          | x :: t => maxl t x
          end
        end
    end.

  (* the root: value of a move, value of the position *)
  Definition move_value (depth : nat) (p : pos) (m : mv) : Z := - V FUEL (pred depth) (make p m) 1.
  Definition Vroot (depth : nat) (p : pos) : option Z :=
    match map (move_value depth p) (filter (legal p) (moves p)) with
    | [] => None
    | x :: t => Some (maxl t x)
    end.
End Game.
