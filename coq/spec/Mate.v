(* Mate.v — "the side to move can force checkmate" / "the side to move cannot avoid being checkmated", said over the bare game
   (move list, legality, make, check) with no bound on the length of the mate, no scores, no search, no cache, no draw rules.
   Used by props/C12sound.v: what a mate score of the engine MEANS. *)
From Coq Require Import List Bool.
Import ListNotations.

Section MateSpec.
  Variables pos mv : Type.
  Variable moves : pos -> list mv.
  Variable legal : pos -> mv -> bool.
  Variable make : pos -> mv -> pos.
  Variable in_check : pos -> bool.

  Definition lmoves (p : pos) : list mv := filter (legal p) (moves p).

  (* Won p : the side to move has a move after which the opponent is Lost.
     Lost p: the side to move is checkmated, or has a legal move and every legal move leads to a position Won for the opponent. *)
  Inductive Won : pos -> Prop :=
  | Won_by : forall p m, In m (lmoves p) -> Lost (make p m) -> Won p
  with Lost : pos -> Prop :=
  | Lost_mated : forall p, lmoves p = [] -> in_check p = true -> Lost p
  | Lost_all : forall p, lmoves p <> [] -> (forall m, In m (lmoves p) -> Won (make p m)) -> Lost p.

  (* the bounded, computable version (the oracle the checks evaluate): forced mate within n own moves *)
  Definition is_mated_b (p : pos) : bool := match lmoves p with [] => in_check p | _ => false end.
  Fixpoint wins_within (n : nat) (p : pos) : bool :=
    match n with
    | O => false
    | S k => existsb (fun m => let q := make p m in
                               if is_mated_b q then true
                               else match lmoves q with
                                    | [] => false
                                    | rs => forallb (fun r => wins_within k (make q r)) rs
                                    end) (lmoves p)
    end.
  (* after the move m the opponent is mated or every reply leaves a forced mate within n more moves *)
  Definition keeps_within (n : nat) (p : pos) (m : mv) : bool :=
    let q := make p m in
    if is_mated_b q then true
    else match lmoves q with [] => false | rs => forallb (fun r => wins_within n (make q r)) rs end.
End MateSpec.
