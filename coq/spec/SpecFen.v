(* SpecFen.v — an independent FEN reader over the mailbox position of Rules.v: the placement is
   read rank by rank (rank 8 first), each rank must describe exactly eight files, the remaining
   fields are read by their FEN meaning.  It shares nothing with the engine's index arithmetic.
   Accepts 6-field strings and 4-field strings (clocks default to 0 and 1). *)
From Coq Require Import NArith List Bool Ascii String.
Import ListNotations.
From RCE Require Import model.Board spec.Rules.
Open Scope string_scope.

Fixpoint split_on (sep : ascii) (s : string) (cur : string) : list string :=
  match s with
  | EmptyString => [cur]
  | String c t => if Ascii.eqb c sep then cur :: split_on sep t "" else split_on sep t (cur ++ String c "")
  end.

Definition piece_of_char (c : ascii) : option Kind :=
  match c with
  | "P" => Some (Pawn, White) | "N" => Some (Knight, White) | "B" => Some (Bishop, White)
  | "R" => Some (Rook, White) | "Q" => Some (Queen, White) | "K" => Some (King, White)
  | "p" => Some (Pawn, Black) | "n" => Some (Knight, Black) | "b" => Some (Bishop, Black)
  | "r" => Some (Rook, Black) | "q" => Some (Queen, Black) | "k" => Some (King, Black)
  | _ => None
  end%char.

(* one rank: a list of cells, file a first *)
Fixpoint rank_cells (s : string) : option (list (option Kind)) :=
  match s with
  | EmptyString => Some []
  | String c t =>
    match rank_cells t with
    | None => None
    | Some rest =>
      match piece_of_char c with
      | Some k => Some (Some k :: rest)
      | None => let n := nat_of_ascii c in
                if Nat.leb 49 n && Nat.leb n 56 then Some (List.app (repeat (@None Kind) (n - 48)) rest) else None
      end
    end
  end.
Definition rank8 (s : string) : option (list (option Kind)) :=
  match rank_cells s with
  | Some l => if Nat.eqb (List.length l) 8 then Some l else None
  | None => None
  end.

(* the eight rank strings, rank 8 first; the cell list is a1..h1, a2..h2, ..., a8..h8 *)
Definition placement_cells (s : string) : option (list (option Kind)) :=
  match split_on "/" s "" with
  | [r8; r7; r6; r5; r4; r3; r2; r1] =>
    match rank8 r1, rank8 r2, rank8 r3, rank8 r4, rank8 r5, rank8 r6, rank8 r7, rank8 r8 with
    | Some c1, Some c2, Some c3, Some c4, Some c5, Some c6, Some c7, Some c8 =>
      Some (c1 ++ c2 ++ c3 ++ c4 ++ c5 ++ c6 ++ c7 ++ c8)%list
    | _, _, _, _, _, _, _, _ => None
    end
  | _ => None
  end.

Definition side_of (s : string) : option Color :=
  if String.eqb s "w" then Some White else if String.eqb s "b" then Some Black else None.

(* castling availability: "-" or a non-empty string over KQkq without repetition *)
Fixpoint rights_chars (s : string) (r : Rights) : option Rights :=
  match s with
  | EmptyString => Some r
  | String c t =>
    match c with
    | "K"%char => if r_wk r then None else rights_chars t (mkRights true (r_wq r) (r_bk r) (r_bq r))
    | "Q"%char => if r_wq r then None else rights_chars t (mkRights (r_wk r) true (r_bk r) (r_bq r))
    | "k"%char => if r_bk r then None else rights_chars t (mkRights (r_wk r) (r_wq r) true (r_bq r))
    | "q"%char => if r_bq r then None else rights_chars t (mkRights (r_wk r) (r_wq r) (r_bk r) true)
    | _ => None
    end
  end.
Definition rights_of (s : string) : option Rights :=
  if String.eqb s "-" then Some (mkRights false false false false)
  else if String.eqb s "" then None else rights_chars s (mkRights false false false false).

(* en-passant target square: "-" or file letter + the rank behind the pawn that just moved
   (6 when White is to move, 3 when Black is to move) *)
Definition ep_of (side : Color) (s : string) : option (option nat) :=
  if String.eqb s "-" then Some None
  else match s with
       | String f (String r EmptyString) =>
         let n := nat_of_ascii f in
         if Nat.leb 97 n && Nat.leb n 104
            && Ascii.eqb r (match side with White => "6" | Black => "3" end)%char
         then Some (Some (n - 97)%nat) else None
       | _ => None
       end.

(* a decimal number without sign, at most 5 digits and at most 65535 *)
Fixpoint decimal (s : string) (acc : N) : option N :=
  match s with
  | EmptyString => Some acc
  | String c t => let n := nat_of_ascii c in
                  if Nat.leb 48 n && Nat.leb n 57 then decimal t (acc * 10 + N.of_nat (n - 48))%N else None
  end.
Definition number (s : string) : option N :=
  if String.eqb s "" then None
  else if Nat.ltb 5 (String.length s) then None
  else match decimal s 0 with Some v => if N.leb v 65535 then Some v else None | None => None end.

Definition fields_of (s : string) : list string := filter (fun x => negb (String.eqb x "")) (split_on " " s "").

Definition parse (s : string) : option Pos :=
  match fields_of s with
  | [pl; sd; cr; e] =>
    match placement_cells pl, side_of sd with
    | Some c, Some col =>
      match rights_of cr, ep_of col e with
      | Some r, Some ef => Some (mkPos c col r ef 0 1)
      | _, _ => None
      end
    | _, _ => None
    end
  | [pl; sd; cr; e; hm; fm] =>
    match placement_cells pl, side_of sd with
    | Some c, Some col =>
      match rights_of cr, ep_of col e, number hm, number fm with
      | Some r, Some ef, Some h, Some f => Some (mkPos c col r ef h f)
      | _, _, _, _ => None
      end
    | _, _ => None
    end
  | _ => None
  end.
