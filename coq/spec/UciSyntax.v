(* UciSyntax.v — the syntax of the engine-to-GUI lines of the UCI protocol that this engine emits:
     info depth <n> [seldepth <n>] nodes <n> [time <n>] [nps <n>] [score (cp <int> | mate <int>)] pv <move>*
     bestmove <move>
   tokens separated by one or more spaces; <move> = file rank file rank [q|r|b|n]. *)
From Coq Require Import NArith List Bool Ascii String.
Import ListNotations.
Open Scope string_scope.

Fixpoint split_sp (s : string) (cur : string) : list string :=
  match s with
  | EmptyString => [cur]
  | String c t => if Ascii.eqb c " "%char then cur :: split_sp t "" else split_sp t (cur ++ String c "")
  end.
Definition tokens_sp (s : string) : list string := filter (fun x => negb (String.eqb x "")) (split_sp s "").

Definition is_digit (c : ascii) : bool := let n := nat_of_ascii c in Nat.leb 48 n && Nat.leb n 57.
Fixpoint all_digits (s : string) : bool :=
  match s with EmptyString => true | String c t => is_digit c && all_digits t end.
Definition is_number (s : string) : bool := negb (String.eqb s "") && all_digits s.
Definition is_int (s : string) : bool :=
  match s with String "-"%char t => is_number t | _ => is_number s end.
Definition is_file (c : ascii) : bool := let n := nat_of_ascii c in Nat.leb 97 n && Nat.leb n 104.
Definition is_rank (c : ascii) : bool := let n := nat_of_ascii c in Nat.leb 49 n && Nat.leb n 56.
Definition is_promo (c : ascii) : bool :=
  Ascii.eqb c "q"%char || Ascii.eqb c "r"%char || Ascii.eqb c "b"%char || Ascii.eqb c "n"%char.
Definition is_move (s : string) : bool :=
  match s with
  | String a (String b (String c (String d EmptyString))) => is_file a && is_rank b && is_file c && is_rank d
  | String a (String b (String c (String d (String e EmptyString)))) =>
    is_file a && is_rank b && is_file c && is_rank d && is_promo e
  | _ => false
  end.

(* optional "<kw> <number>" *)
Definition opt_num (kw : string) (l : list string) : list string :=
  match l with
  | k :: v :: t => if String.eqb k kw && is_number v then t else l
  | _ => l
  end.
Definition opt_score (l : list string) : option (list string) :=
  match l with
  | "score" :: k :: v :: t =>
    if (String.eqb k "cp" || String.eqb k "mate") && is_int v then Some t else None
  | _ => Some l
  end.
Definition valid_info (l : list string) : bool :=
  match l with
  | "info" :: "depth" :: d :: t =>
    is_number d &&
    match opt_num "seldepth" t with
    | "nodes" :: n :: t2 =>
      is_number n &&
      match opt_score (opt_num "nps" (opt_num "time" t2)) with
      | Some ("pv" :: pv) => forallb is_move pv
      | _ => false
      end
    | _ => false
    end
  | _ => false
  end.
Definition valid_bestmove (l : list string) : bool :=
  match l with ["bestmove"; m] => is_move m | _ => false end.
