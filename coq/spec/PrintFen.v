(* PrintFen.v — writing a position of Rules.v as a FEN string (six fields).  Specification-level
   counterpart of SpecFen.parse; shares nothing with the engine.  Ranks are written 8 first, empty
   squares as run lengths, castling availability in the order KQkq, the en-passant target square as
   file letter + rank 6 (White to move) or 3 (Black to move), the two counters in decimal. *)
From Coq Require Import NArith List Bool Ascii String.
Import ListNotations.
From RCE Require Import model.Board spec.Rules.
Open Scope string_scope.

Definition char_of_piece (k : Kind) : ascii :=
  match k with
  | (Pawn, White) => "P" | (Knight, White) => "N" | (Bishop, White) => "B"
  | (Rook, White) => "R" | (Queen, White) => "Q" | (King, White) => "K"
  | (Pawn, Black) => "p" | (Knight, Black) => "n" | (Bishop, Black) => "b"
  | (Rook, Black) => "r" | (Queen, Black) => "q" | (King, Black) => "k"
  end%char.

Definition run_digit (run : nat) : string :=
  match run with O => "" | _ => String (ascii_of_nat (48 + run)) "" end.

(* one rank, file a first; `run` = empty squares seen since the last piece *)
Fixpoint rank_string (cs : list (option Kind)) (run : nat) : string :=
  match cs with
  | [] => run_digit run
  | None :: t => rank_string t (S run)
  | Some k :: t => run_digit run ++ String (char_of_piece k) (rank_string t 0)
  end.

Definition rank_of_cells (c : list (option Kind)) (r : nat) : list (option Kind) := firstn 8 (skipn (8 * r) c).
Definition placement_string (c : list (option Kind)) : string :=
  String.concat "/" (map (fun r => rank_string (rank_of_cells c r) 0) [7; 6; 5; 4; 3; 2; 1; 0]%nat).

Definition side_string (s : Color) : string := match s with White => "w" | Black => "b" end.
Definition rights_string (r : Rights) : string :=
  let s := (if r_wk r then "K" else "") ++ (if r_wq r then "Q" else "")
           ++ (if r_bk r then "k" else "") ++ (if r_bq r then "q" else "") in
  if String.eqb s "" then "-" else s.
Definition ep_string (s : Color) (e : option nat) : string :=
  match e with
  | None => "-"
  | Some f => String (ascii_of_nat (97 + f)) (String (match s with White => "6" | Black => "3" end)%char "")
  end.

(* decimal digits, most significant first *)
Fixpoint dec_digits (fuel : nat) (n : N) (acc : string) : string :=
  match fuel with
  | O => acc
  | S f => let acc' := String (ascii_of_N (48 + n mod 10)) acc in
           if (n / 10 =? 0)%N then acc' else dec_digits f (n / 10) acc'
  end.
Definition decimal_string (n : N) : string := dec_digits 20 n "".

Definition print (p : Pos) : string :=
  placement_string (cells p) ++ " " ++ side_string (side p) ++ " " ++ rights_string (rights p) ++ " "
  ++ ep_string (side p) (ep p) ++ " " ++ decimal_string (halfmove p) ++ " " ++ decimal_string (fullmove p).

(* the positions a FEN can describe *)
Definition describable (p : Pos) : Prop :=
  List.length (cells p) = 64%nat
  /\ (match ep p with Some f => (f < 8)%nat | None => True end)
  /\ (halfmove p <= 65535)%N /\ (fullmove p <= 65535)%N.
