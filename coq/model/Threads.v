(* Threads.v — the input thread x search threads protocol of uci.rs / search.rs as a labelled
   transition system.  Shared state: one running flag (Arc<AtomicBool>) per search, created true
   by Search::new; Uci.search_running (the flag of the latest search); Uci.join_handle (the latest
   thread).  Atomics are modelled as sequentially consistent single steps.
   The two booleans of Variant select the code that is modelled: `rearm` = Search::search stores
   `true` into its flag at entry (the defect D8, removed by a fix: commit), `old_go` = go is
   refused whenever the previous thread has not exited yet (the defect D9).  The repaired tree
   is Variant false false. *)
From Coq Require Import List Lia Bool Arith.
Import ListNotations.

Record Variant := mkVariant { rearm : bool; old_go : bool }.
Definition fixed : Variant := mkVariant false false.

(* program counter of a search thread *)
Inductive Pc :=
| Spawned        (* thread::spawn done, Search::search not entered yet *)
| Running        (* inside iter_deep: polls its flag at every node *)
| Finishing      (* left the iteration loop (limits, depth reached, or flag seen false) *)
| Cleared        (* stop(): flag cleared, bestmove not printed yet *)
| Printed        (* bestmove line written *)
| Exited.        (* closure returned: JoinHandle::is_finished() *)

Inductive Cmd := CmdGo | CmdStop | CmdIsReady | CmdPosition.

Inductive Ev :=
| EvBestmove (k : nat)      (* thread k printed its bestmove *)
| EvReadyOk
| EvBusy                    (* "Search is already running" on stderr: the go was refused *)
| EvAccepted (k : nat).     (* go accepted: thread k spawned *)

Record State := mkState {
  flags : list bool;         (* flag of search k *)
  pcs : list Pc;             (* thread k *)
  latest : option nat;       (* Uci.search_running / Uci.join_handle: the latest search *)
  pending : list Cmd;        (* lines not yet processed by the input thread *)
  log : list Ev              (* newest first *)
}.
Definition init (cmds : list Cmd) : State := mkState [] [] None cmds [].

Definition flag (s : State) (k : nat) : bool := nth k (flags s) false.
Definition pc (s : State) (k : nat) : Pc := nth k (pcs s) Exited.
Definition is_exited (p : Pc) : bool := match p with Exited => true | _ => false end.

Fixpoint set_nth {A} (l : list A) (k : nat) (x : A) : list A :=
  match l, k with
  | [], _ => []
  | _ :: t, O => x :: t
  | h :: t, S k' => h :: set_nth t k' x
  end.

Definition set_flag (s : State) (k : nat) (v : bool) : State :=
  mkState (set_nth (flags s) k v) (pcs s) (latest s) (pending s) (log s).
Definition set_pc (s : State) (k : nat) (p : Pc) : State :=
  mkState (flags s) (set_nth (pcs s) k p) (latest s) (pending s) (log s).
Definition add_log (s : State) (e : Ev) : State :=
  mkState (flags s) (pcs s) (latest s) (pending s) (e :: log s).
Definition pop_cmd (s : State) : State :=
  mkState (flags s) (pcs s) (latest s) (tl (pending s)) (log s).

Definition spawn (s : State) : State :=
  let k := length (pcs s) in
  mkState (flags s ++ [true]) (pcs s ++ [Spawned]) (Some k) (tl (pending s)) (EvAccepted k :: log s).

(* labels: the input thread processes its next line; thread k takes its next step, `fin` says
   whether a Running thread decides by its own limits that it is done *)
Inductive Label := LInput | LThread (k : nat) (fin : bool).

(* None = the step is not enabled in this state (a blocked join, an exited thread, no line left) *)
Definition step (v : Variant) (s : State) (l : Label) : option State :=
  match l with
  | LInput =>
    match pending s with
    | [] => None
    | CmdIsReady :: _ => Some (add_log (pop_cmd s) EvReadyOk)
    | CmdPosition :: _ => Some (pop_cmd s)
    | CmdStop :: _ =>
      match latest s with
      | Some k => Some (set_flag (pop_cmd s) k false)
      | None => Some (pop_cmd s)
      end
    | CmdGo :: _ =>
      match latest s with
      | None => Some (spawn s)
      | Some k =>
        if old_go v then
          (if is_exited (pc s k) then Some (spawn s) else Some (add_log (pop_cmd s) EvBusy))
        else
          if flag s k && negb (is_exited (pc s k)) then Some (add_log (pop_cmd s) EvBusy)
          else if is_exited (pc s k) then Some (spawn s)     (* join returns *)
          else None                                           (* join blocks until thread k exits *)
      end
    end
  | LThread k fin =>
    if Nat.ltb k (length (pcs s)) then
      match pc s k with
      | Spawned => Some (set_pc (if rearm v then set_flag s k true else s) k Running)
      | Running => if negb (flag s k) || fin then Some (set_pc s k Finishing) else Some s
      | Finishing => Some (set_pc (set_flag s k false) k Cleared)
      | Cleared => Some (add_log (set_pc s k Printed) (EvBestmove k))
      | Printed => Some (set_pc s k Exited)
      | Exited => None
      end
    else None
  end.

(* run a schedule; labels that are not enabled are skipped (the actor could not move) *)
Fixpoint run (v : Variant) (s : State) (ls : list Label) : State :=
  match ls with
  | [] => s
  | l :: t => match step v s l with Some s' => run v s' t | None => run v s t end
  end.

Inductive Reach (v : Variant) (cmds : list Cmd) : State -> Prop :=
| R0 : Reach v cmds (init cmds)
| RS : forall s l s', Reach v cmds s -> step v s l = Some s' -> Reach v cmds s'.

(* observables *)
Definition count_bestmoves (s : State) (k : nat) : nat :=
  length (filter (fun e => match e with EvBestmove j => Nat.eqb j k | _ => false end) (log s)).
Definition total_bestmoves (s : State) : nat :=
  length (filter (fun e => match e with EvBestmove _ => true | _ => false end) (log s)).
Definition total_accepted (s : State) : nat :=
  length (filter (fun e => match e with EvAccepted _ => true | _ => false end) (log s)).
Definition total_busy (s : State) : nat :=
  length (filter (fun e => match e with EvBusy => true | _ => false end) (log s)).
Definition all_exited (s : State) : bool := forallb is_exited (pcs s).
(* how many of its own steps thread k still needs before it has exited, once its flag is false *)
Definition steps_left (p : Pc) : nat :=
  match p with Spawned => 5 | Running => 4 | Finishing => 3 | Cleared => 2 | Printed => 1 | Exited => 0 end.
