(* Movegen.v — executable model of move generation and check detection:
   piece/{pawn,king,knight,rook,bishop,queen}.rs get_moveset, piece.rs Kind::get_moveset /
   Kind::get_attacks, board.rs get_all_moves, get_attacked_squares, is_in_check, castling_ability,
   no_pieces_between_castling, no_checks_castling, is_legal_move, get_legal_moves, find_move,
   ply.rs to_notation.
   Slider attack sets are computed by sliding along precomputed ray lists; that this is what the
   magic lookup returns for every occupancy is theorem C06 (see proofs/MovegenTables.v). *)
From Coq Require Import NArith ZArith List Lia Bool Ascii String.
Import ListNotations.
From RCE Require Import lib.Bits lib.Geometry generated.Consts model.Tables model.Board.
Open Scope N_scope.

(* ray squares as lists, [square][direction], direction order N NE E SE S SW W NW *)
Definition ray_lists_tbl : list (list (list nat)) :=
  Eval vm_compute in map (fun s => map (fun d => ray_list s d) dir8) (seq 0 64).
Definition ray_sq (s d : nat) : list nat := nth d (nth s ray_lists_tbl []) [].
Definition slide_attacks (ds : list nat) (s : nat) (occ : N) : N :=
  set_of (flat_map (fun d => slide (tb occ) (ray_sq s d)) ds).
Definition rook_attacks (s : nat) (occ : N) : N := slide_attacks [0; 2; 4; 6]%nat s occ.
Definition bishop_attacks (s : nat) (occ : N) : N := slide_attacks [1; 3; 5; 7]%nat s occ.
Definition queen_attacks (s : nat) (occ : N) : N := N.lor (rook_attacks s occ) (bishop_attacks s occ).

Definition knight_tbl : list N := Eval vm_compute in map knight_model (seq 0 64).
Definition king_tbl : list N := Eval vm_compute in map king_model (seq 0 64).
Definition wpawn_tbl : list N := Eval vm_compute in map wpawn_model (seq 0 64).
Definition bpawn_tbl : list N := Eval vm_compute in map bpawn_model (seq 0 64).
Definition knight_attacks (s : nat) : N := nth s knight_tbl 0.
Definition king_attacks (s : nat) : N := nth s king_tbl 0.
Definition pawn_attacks (s : nat) (c : Color) : N :=
  match c with White => nth s wpawn_tbl 0 | Black => nth s bpawn_tbl 0 end.

(* Kind::get_attacks *)
Definition piece_attacks (k : Kind) (s : nat) (b : Board) : N :=
  match fst k with
  | Pawn => pawn_attacks s (snd k)
  | King => king_attacks s
  | Queen => queen_attacks s (all_pieces (bbs b))
  | Rook => rook_attacks s (all_pieces (bbs b))
  | Bishop => bishop_attacks s (all_pieces (bbs b))
  | Knight => knight_attacks s
  end.

(* get_attacked_squares(color): squares attacked by the opponent of `color` *)
Definition attacked_squares (b : Board) (c : Color) : N :=
  let attackers := match c with White => black_pieces (bbs b) | Black => white_pieces (bbs b) end in
  fold_left (fun acc s =>
               if tb attackers s then
                 match get_piece b (sq_of_idx s) with
                 | Some k => N.lor acc (piece_attacks k s b)
                 | None => acc      (* .expect(..) panics: excluded by bitboard consistency *)
                 end
               else acc) (seq 0 64) 0.

Definition is_in_check (b : Board) (c : Color) : bool :=
  let king := match c with White => white_king (bbs b) | Black => black_king (bbs b) end in
  nonempty (N.land king (attacked_squares b c)).

Definition no_pieces_between (b : Board) (k : CastlingKind) : bool :=
  N.eqb (N.land (all_pieces (bbs b))
                (match k with WK => 0x60 | WQ => 0xE | BK => 0x6000000000000000 | BQ => 0x0E00000000000000 end)) 0.
Definition no_checks_castling (b : Board) (k : CastlingKind) : bool :=
  N.eqb (N.land (attacked_squares b (current_turn b))
                (match k with WK => 0x70 | WQ => 0x1C | BK => 0x7000000000000000 | BQ => 0x1C00000000000000 end)) 0.
(* castling_ability for a kind of the side to move (the wrong-side Err is never requested) *)
Definition castling_ability (b : Board) (k : CastlingKind) : bool :=
  castle_status b k && (no_pieces_between b k && no_checks_castling b k).

Definition same_pieces (b : Board) (c : Color) : N :=
  match c with White => white_pieces (bbs b) | Black => black_pieces (bbs b) end.

Definition plies_to (sq : Square) (k : Kind) (targets : N) : list Ply :=
  map (fun t => ply_new sq (sq_of_idx t) k) (asc_bits targets).

(* pawn.rs *)
Definition explode_promotion (p : Ply) (c : Color) (back_rank : nat) : list Ply :=
  if Nat.eqb (rank (p_dest p)) back_rank then
    map (fun t => set_promoted (ply_new (p_start p) (p_dest p) (p_piece p)) (Some (t, c)))
        [Queen; Rook; Knight; Bishop]
  else [p].

Definition pawn_moveset (sq : Square) (b : Board) (c : Color) : list Ply :=
  let dir := match c with White => NORTH | Black => SOUTH end in
  let starting_rank := match c with White => 1 | Black => 6 end%nat in
  let ep_rank := match c with White => 4 | Black => 3 end%nat in
  let back_rank := match c with White => 7 | Black => 0 end%nat in
  let enemy := same_pieces b (opposite c) in
  let i := idx sq in
  let caps := plies_to sq (Pawn, c) (N.land (pawn_attacks i c) enemy) in
  let origin := bb_shl 1 (N.of_nat i) in
  let next_mask := N.land (match c with White => bb_shl origin 8 | Black => shr64 origin 8 end)
                          (all_pieces (bbs b)) in
  let dnext_mask := N.land (match c with White => bb_shl origin 16 | Black => shr64 origin 16 end)
                           (all_pieces (bbs b)) in
  let single := if N.eqb next_mask 0 then [ply_new sq (sq_add sq dir) (Pawn, c)] else [] in
  let double := if Nat.eqb (rank sq) starting_rank && N.eqb next_mask 0 && N.eqb dnext_mask 0
                then [set_flags (ply_new sq (sq_add (sq_add sq dir) dir) (Pawn, c)) false false true]
                else [] in
  let ep_to (d : Square) :=
      match ep_file b with
      | Some f => if Nat.eqb f (file d)
                  then [set_captured (set_flags (ply_new sq d (Pawn, c)) false true false)
                                     (Some (Pawn, opposite c))]
                  else []
      | None => []
      end in
  let eps := if Nat.eqb (rank sq) ep_rank
             then ep_to (sq_add (sq_add sq dir) EAST) ++ ep_to (sq_add (sq_add sq dir) WEST)
             else [] in
  flat_map (fun p => explode_promotion p c back_rank) (caps ++ single ++ double ++ eps).

Definition castle_ply (sq dest : Square) (c : Color) : Ply :=
  set_flags (ply_new sq dest (King, c)) true false false.

(* king.rs *)
Definition king_moveset (sq : Square) (b : Board) (c : Color) : list Ply :=
  let base := plies_to sq (King, c) (N.land (king_attacks (idx sq)) (not64 (same_pieces b c))) in
  let w := if sq_eqb sq (mkSq 0 4) && color_eqb c White then
             (if castling_ability b WK then [castle_ply sq (mkSq 0 6) c] else []) ++
             (if castling_ability b WQ then [castle_ply sq (mkSq 0 2) c] else [])
           else [] in
  let k := if sq_eqb sq (mkSq 7 4) && color_eqb c Black then
             (if castling_ability b BK then [castle_ply sq (mkSq 7 6) c] else []) ++
             (if castling_ability b BQ then [castle_ply sq (mkSq 7 2) c] else [])
           else [] in
  base ++ w ++ k.

Definition simple_moveset (attacks : N) (sq : Square) (b : Board) (k : Kind) : list Ply :=
  plies_to sq k (N.land attacks (not64 (same_pieces b (snd k)))).

(* piece.rs Kind::get_moveset with its sanity filter *)
Definition ply_sane (m : Ply) : bool :=
  sq_valid (p_start m) && sq_valid (p_dest m) && negb (sq_eqb (p_start m) (p_dest m)).
Definition get_moveset (k : Kind) (sq : Square) (b : Board) : list Ply :=
  let c := snd k in
  let i := idx sq in
  filter ply_sane
    match fst k with
    | Pawn => pawn_moveset sq b c
    | King => king_moveset sq b c
    | Queen => simple_moveset (queen_attacks i (all_pieces (bbs b))) sq b k
    | Rook => simple_moveset (rook_attacks i (all_pieces (bbs b))) sq b k
    | Bishop => simple_moveset (bishop_attacks i (all_pieces (bbs b))) sq b k
    | Knight => simple_moveset (knight_attacks i) sq b k
    end.

(* board.rs get_all_moves: fills captured_piece *)
Definition fill_captured (b : Board) (m : Ply) : Ply :=
  if p_ep m then set_captured m (get_piece b (ep_capture_square (p_start m) (p_dest m)))
  else set_captured m (get_piece b (p_dest m)).
Definition get_all_moves (b : Board) : list Ply :=
  flat_map (fun i =>
              let sq := sq_of_idx i in
              match get_piece b sq with
              | Some k => if color_eqb (current_turn b) (snd k)
                          then map (fill_captured b) (get_moveset k sq b) else []
              | None => []
              end) (seq 0 64).

(* is_legal_move: make, test own king, unmake *)
Definition is_legal_move (b : Board) (m : Ply) : bool :=
  negb (is_in_check (make_move b m) (snd (p_piece m))).
Definition get_legal_moves (b : Board) : list Ply := filter (is_legal_move b) (get_all_moves b).
Definition captures_only (b : Board) : list Ply := filter is_capture (get_all_moves b).

(* ply.rs to_notation *)
Definition file_char (f : nat) : ascii := ascii_of_nat (97 + f).
Definition rank_char (r : nat) : ascii := ascii_of_nat (49 + r).
Definition sq_str (s : Square) : string := String (file_char (file s)) (String (rank_char (rank s)) EmptyString).
Definition to_notation (m : Ply) : string :=
  (sq_str (p_start m) ++ sq_str (p_dest m) ++
   match p_promoted m with
   | Some (Queen, _) => "q" | Some (Rook, _) => "r" | Some (Bishop, _) => "b" | Some (Knight, _) => "n"
   | _ => ""
   end)%string.
Definition find_move (b : Board) (notation : string) : option Ply :=
  find (fun m => String.eqb (to_notation m) notation) (get_legal_moves b).

(* The Rust get_legal_moves takes &mut self: every legality probe makes and unmakes the move
   on the live board.  This version threads the board the way the code does, so that "asking
   for the legal moves does not change the position" is a statement about the model (C02). *)
Definition is_legal_move_st (b : Board) (m : Ply) : bool * option Board :=
  let b' := make_move b m in
  (negb (is_in_check b' (snd (p_piece m))), unmake_move b').
Fixpoint retain_legal (b : Board) (ms : list Ply) : list Ply * option Board :=
  match ms with
  | [] => ([], Some b)
  | m :: t =>
    match is_legal_move_st b m with
    | (ok, Some b1) => let (l, r) := retain_legal b1 t in ((if ok then m :: l else l), r)
    | (_, None) => ([], None)
    end
  end.
Definition get_legal_moves_st (b : Board) : list Ply * option Board := retain_legal b (get_all_moves b).

(* the promotion suffix of the notation *)
Definition promo_letter (p : option Kind) : string :=
  match p with
  | Some (Queen, _) => "q" | Some (Rook, _) => "r" | Some (Bishop, _) => "b" | Some (Knight, _) => "n"
  | _ => ""
  end%string.
