(* Search.v — executable model of search.rs (iter_deep, alpha_beta_start, alpha_beta, quiescence,
   limits_exceeded, store_killers, get_pv, the score part of log_uci_info), search/move_orderer.rs
   (score_move, the selection-sort iterator) and the transposition table, as a state-passing
   function over an ABSTRACT game (Section variables): positions are persistent values, make
   returns the new position.  That the Rust code, which mutates one board and unmakes, computes
   the same thing is property C02.  The clock and the stop flag are oracles: `clock k` is the k-th
   reading of start.elapsed() in ms, `ext_stop k` says whether the k-th load of the shared flag
   already sees a stop from the input thread.
   Recursion is on explicit fuel; the code's own ply cap (info.depth == Depth::MAX returns at ply
   255) keeps fuel 256 from ever running out (the out-of-fuel value is never produced; see
   proofs).  Mirrors the tree AFTER the fix: commits (see known_findings.json). *)
From Coq Require Import NArith ZArith List Lia Bool FMapPositive.
Import ListNotations.
Open Scope Z_scope.

Inductive Bound := Exact | Lower | Upper.

Record Limits := mkLimits {
  l_nodes : option N;
  l_movetime : option N;
  l_any_clock : bool;          (* any of wtime/winc/btime/binc given *)
  l_timer : N                  (* time_management_timer: time/20 + inc/2 of the side to move *)
}.
Definition no_limits : Limits := mkLimits None None false 0.

Definition SCORE_MIN : Z := -32768.
Definition SCORE_MAX : Z := 32767.
Definition sneg (a : Z) : Z := if a =? SCORE_MIN then SCORE_MAX else - a.    (* i16::saturating_neg *)
Definition PLY_MAX : nat := 255.

Section Search.
  Variables pos mv : Type.
  Variable moves : pos -> list mv.            (* Board::get_all_moves, engine order *)
  Variable legal : pos -> mv -> bool.         (* Board::is_legal_move *)
  Variable make : pos -> mv -> pos.
  Variable in_check : pos -> bool.            (* is_in_check(current_turn) *)
  Variable evalf : pos -> Z.                  (* Evaluator::evaluate *)
  Variable is_cap is_promo : mv -> bool.
  Variable cap_score : mv -> N.               (* MVV_LVA table entry of a capture *)
  Variable mv_eqb : mv -> mv -> bool.
  Variable key : pos -> N.
  Variable halfmove : pos -> N.
  Variable repeated : pos -> bool.            (* position_reached(zkey) *)
  Variable default_mv : mv.                   (* Ply::default() *)

  Variable lim : Limits.
  Variable clock : nat -> N.
  Variable ext_stop : nat -> bool.
  Variable tt_on : bool.                      (* false: the guarded hook empties the cache before every probe *)

  Record TTEntry := mkE { e_score : Z; e_depth : nat; e_bound : Bound; e_best : mv }.
  (* one observed cache write: key, entry, node counter, flag seen at that moment *)
  Definition WriteEv : Type := N * TTEntry * N * bool.

  Record St := mkSt {
    tt : PositiveMap.t TTEntry;
    kill : PositiveMap.t (option mv * option mv);
    nodes : N;
    seldepth : nat;
    running : bool;                 (* the flag as this thread last wrote it *)
    reads : nat;                    (* clock readings so far *)
    loads : nat;                    (* flag loads so far *)
    best_move : option mv;
    best_score : option Z;
    trace : list WriteEv            (* newest first *)
  }.
  Definition init_st : St :=
    mkSt (PositiveMap.empty _) (PositiveMap.empty _) 0 0 true 0 0 None None [].

  Definition set_tt (s : St) t := mkSt t (kill s) (nodes s) (seldepth s) (running s) (reads s) (loads s) (best_move s) (best_score s) (trace s).
  Definition set_kill (s : St) k := mkSt (tt s) k (nodes s) (seldepth s) (running s) (reads s) (loads s) (best_move s) (best_score s) (trace s).
  Definition set_running (s : St) r := mkSt (tt s) (kill s) (nodes s) (seldepth s) r (reads s) (loads s) (best_move s) (best_score s) (trace s).
  Definition tick_read (s : St) := mkSt (tt s) (kill s) (nodes s) (seldepth s) (running s) (S (reads s)) (loads s) (best_move s) (best_score s) (trace s).
  Definition tick_load (s : St) := mkSt (tt s) (kill s) (nodes s) (seldepth s) (running s) (reads s) (S (loads s)) (best_move s) (best_score s) (trace s).
  Definition set_best (s : St) m v := mkSt (tt s) (kill s) (nodes s) (seldepth s) (running s) (reads s) (loads s) m v (trace s).
  (* a node is entered: nodes += 1, seldepth = max(seldepth, ply) when asked *)
  Definition enter_node (s : St) (ply : nat) (upd_sel : bool) :=
    mkSt (tt s) (kill s) (nodes s + 1)%N (if upd_sel then Nat.max (seldepth s) ply else seldepth s)
         (running s) (reads s) (loads s) (best_move s) (best_score s) (trace s).

  Definition kpos (k : N) : positive := N.succ_pos k.
  Definition flag_now (s : St) : bool := running s && negb (ext_stop (loads s)).
  Definition tt_insert (s : St) (k : N) (e : TTEntry) : St :=
    mkSt (PositiveMap.add (kpos k) e (tt s)) (kill s) (nodes s) (seldepth s) (running s) (reads s) (loads s)
         (best_move s) (best_score s) ((k, e, nodes s, flag_now s) :: trace s).
  Definition tt_get (s : St) (k : N) : option TTEntry := PositiveMap.find (kpos k) (tt s).

  (* Search::is_running *)
  Definition is_running (s : St) : bool * St := (flag_now s, tick_load s).

  (* Search::limits_exceeded at ply `ply` *)
  Definition limits_exceeded (s : St) (ply : nat) : bool * St :=
    if Nat.eqb ply PLY_MAX then (true, s)
    else
      let nodes_hit := match l_nodes lim with Some n => N.leb n (nodes s) | None => false end in
      if nodes_hit then (true, set_running s false)
      else
        let '(mt_hit, s1) :=
            match l_movetime lim with
            | Some mt => (N.leb mt (clock (reads s)), tick_read s)
            | None => (false, s)
            end in
        if mt_hit then (true, set_running s1 false)
        else
          let t := clock (reads s1) in
          let s2 := tick_read s1 in
          ((match l_movetime lim with Some mt => N.leb mt t | None => false end)
           || (l_any_clock lim && N.leb (l_timer lim) t), s2).

  (* `!self.is_running() || self.limits_exceeded(start)` *)
  Definition aborted (s : St) (ply : nat) : bool * St :=
    let (r, s1) := is_running s in
    if negb r then (true, s1) else limits_exceeded s1 ply.

  (* ---- move ordering (move_orderer.rs) ---- *)
  Definition SCORE_TT : N := 18446744073709551615%N.
  Definition okill_eqb (m : mv) (k : option mv) : bool := match k with Some x => mv_eqb m x | None => false end.
  Definition score_move (tt_best : option mv) (killers : option mv * option mv) (m : mv) : N :=
    if okill_eqb m tt_best then SCORE_TT
    else
      let c := if is_cap m then (4000 + cap_score m)%N else 0%N in
      let p := if is_promo m then 3000%N else 0%N in
      let q := if negb (is_cap m) && negb (is_promo m)
               then (if okill_eqb m (fst killers) then 2000%N
                     else if okill_eqb m (snd killers) then 1000%N else 0%N)
               else 0%N in
      (c + p + q)%N.

  (* one `next()` of the selection-sort iterator: the first maximal element is swapped to the
     front; returns it and the remaining list in the engine's (post-swap) order *)
  Fixpoint first_max (best_i : nat) (best : N) (i : nat) (l : list (mv * N)) : nat :=
    match l with
    | [] => best_i
    | (_, sc) :: t => if N.ltb best sc then first_max i sc (S i) t else first_max best_i best (S i) t
    end.
  Fixpoint replace_nth {A} (n : nat) (x : A) (l : list A) : list A :=
    match l, n with
    | [], _ => []
    | _ :: t, O => x :: t
    | h :: t, S k => h :: replace_nth k x t
    end.
  Definition select_next (l : list (mv * N)) : option ((mv * N) * list (mv * N)) :=
    match l with
    | [] => None
    | h :: t =>
      let bi := first_max 0 (snd h) 1 t in
      match bi with
      | O => Some (h, t)
      | S k => let b := nth k t h in Some (b, replace_nth k h t)
      end
    end.
  Fixpoint sel_sort (fuel : nat) (l : list (mv * N)) : list mv :=
    match fuel with
    | O => []
    | S f => match select_next l with
             | None => []
             | Some (b, rest) => fst b :: sel_sort f rest
             end
    end.
  Definition order_moves (s : St) (p : pos) (ply : nat) (ms : list mv) : list mv :=
    let tt_best := match tt_get s (key p) with Some e => Some (e_best e) | None => None end in
    let killers := match PositiveMap.find (Pos.of_succ_nat ply) (kill s) with
                   | Some k => k | None => (None, None) end in
    sel_sort (length ms) (map (fun m => (m, score_move tt_best killers m)) ms).

  (* Search::store_killers at ply *)
  Definition store_killers (s : St) (ply : nat) (m : mv) : St :=
    if is_cap m || is_promo m then s
    else
      let k := match PositiveMap.find (Pos.of_succ_nat ply) (kill s) with Some k => k | None => (None, None) end in
      if okill_eqb m (fst k) then s
      else set_kill s (PositiveMap.add (Pos.of_succ_nat ply) (Some m, fst k) (kill s)).

  (* the cache probe of alpha_beta: Some v = return v at once; else the narrowed window *)
  Definition probe (s : St) (p : pos) (depth : nat) (alpha beta : Z) : option Z * Z * Z :=
    match tt_get s (key p) with
    | Some e =>
      if Nat.leb depth (e_depth e) then
        match e_bound e with
        | Exact => (Some (e_score e), alpha, beta)
        | Lower => let a := Z.max alpha (e_score e) in
                   if a >=? beta then (Some (e_score e), a, beta) else (None, a, beta)
        | Upper => let b := Z.min beta (e_score e) in
                   if alpha >=? b then (Some (e_score e), alpha, b) else (None, alpha, b)
        end
      else (None, alpha, beta)
    | None => (None, alpha, beta)
    end.

  (* ---- quiescence ---- *)
  Fixpoint quiescence (fuel : nat) (s : St) (p : pos) (alpha_start beta : Z) (ply : nat) : Z * St :=
    match fuel with
    | O => (0, s)
    | S f =>
      let (ab, s) := aborted s ply in
      if ab then (0, s)
      else
        let score := evalf p in
        if score >=? beta then (beta, s)
        else
          let alpha := if score >? alpha_start then score else alpha_start in
          let ms := filter is_cap (moves p) in
          (fix loop (ms : list mv) (s : St) (alpha : Z) : Z * St :=
             match ms with
             | [] => (alpha, s)
             | m :: t =>
               if negb (legal p m) then loop t s alpha
               else
                 let s := enter_node s (S ply) true in
                 let (r, s) := quiescence f s (make p m) (sneg beta) (sneg alpha) (S ply) in
                 let sc := sneg r in
                 if sc >=? beta then (beta, s)
                 else loop t s (if sc >? alpha then sc else alpha)
             end) (order_moves s p ply ms) s alpha
    end.

  (* the score of one child as alpha_beta / alpha_beta_start compute it (PVS) *)
  Definition child_score (rec : St -> pos -> Z -> Z -> St * Z) (s : St) (c : pos) (alpha beta : Z) (pvs : bool)
    : St * Z :=
    if pvs then
      let (s1, r1) := rec s c (sneg alpha - 1) (sneg alpha) in
      let sc := sneg r1 in
      if (alpha <? sc) && (sc <? beta) then
        let (s2, r2) := rec s1 c (sneg beta) (sneg alpha) in (s2, sneg r2)
      else (s1, sc)
    else
      let (s1, r1) := rec s c (sneg beta) (sneg alpha) in (s1, sneg r1).

  (* ---- alpha_beta ---- *)
  Fixpoint alpha_beta (fuel : nat) (s : St) (p : pos) (alpha_start beta_start : Z) (depth ply : nat) : Z * St :=
    match fuel with
    | O => (0, s)
    | S f =>
      let (ab, s) := aborted s ply in
      if ab then (0, s)
      else if N.leb 100 (halfmove p) then (0, s)
      else if repeated p then (0, s)
      else
        let s := if tt_on then s else set_tt s (PositiveMap.empty _) in
        match probe s p depth alpha_start beta_start with
        | (Some v, _, _) => (v, s)
        | (None, alpha0, beta) =>
          let depth := if in_check p then S depth else depth in
          match depth with
          | O => quiescence f s p alpha0 beta ply
          | S dm1 =>
            let ms := moves p in
            let best0 := match ms with m :: _ => m | [] => default_mv end in
            (fix loop (ms : list mv) (s : St) (alpha : Z) (best : mv) (pvs : bool) (cnt : nat) : Z * St :=
               match ms with
               | [] =>
                 match cnt with
                 | O => ((if in_check p then SCORE_MIN + Z.of_nat ply else 0), s)
                 | _ => (alpha, tt_insert s (key p)
                                          (mkE alpha depth (if alpha <=? alpha_start then Upper else Exact) best))
                 end
               | m :: t =>
                 if negb (legal p m) then loop t s alpha best pvs cnt
                 else
                   let s := enter_node s (S ply) true in
                   let (s, sc) := child_score (fun s c a b => let (r, s') := alpha_beta f s c a b dm1 (S ply) in (s', r))
                                              s (make p m) alpha beta pvs in
                   (* after the repair of D4: a child that came back interrupted is not used *)
                   let (ab, s) := aborted s ply in
                   if ab then (0, s)
                   else if sc >=? beta then
                     (beta, store_killers (tt_insert s (key p) (mkE sc depth Lower m)) ply m)
                   else if sc >? alpha then loop t s sc m true (S cnt)
                   else loop t s alpha best pvs (S cnt)
               end) (order_moves s p ply ms) s alpha0 best0 false O
          end
        end
    end.

  Definition FUEL : nat := 300.

  (* ---- alpha_beta_start (the root, ply 0) ---- *)
  Definition alpha_beta_start (s : St) (p : pos) (depth : nat) : St :=
    let ms := moves p in
    match ms with
    | [] => s
    | m0 :: _ =>
      (fix loop (ms : list mv) (s : St) (alpha : Z) (best : mv) (pvs : bool) (cnt : nat) : St :=
         match ms with
         | [] =>
           match cnt with
           | O => s
           | _ =>
             let (ab, s) := aborted s 0 in
             if ab then s
             else set_best (tt_insert s (key p) (mkE alpha depth Exact best)) (Some best) (Some alpha)
           end
         | m :: t =>
           if negb (legal p m) then loop t s alpha best pvs cnt
           else
             let s := enter_node s 1 false in
             let (s, sc) := child_score (fun s c a b => let (r, s') := alpha_beta FUEL s c a b (pred depth) 1 in (s', r))
                                        s (make p m) alpha SCORE_MAX pvs in
             let (ab, s) := aborted s 0 in
             if ab then
               (* keep a partial result only if it beats the previous iteration *)
               match best_score s with
               | Some bs => if alpha >? bs then set_best s (Some best) (Some alpha) else s
               | None => s
               end
             else if sc >? alpha then loop t s sc m true (S cnt)
             else loop t s alpha best pvs (S cnt)
         end) (order_moves s p 0 ms) s SCORE_MIN m0 false O
    end.

  (* ---- get_pv: follow best moves through the cache while they are legal ---- *)
  Fixpoint get_pv (s : St) (p : pos) (len : nat) : list mv :=
    match len with
    | O => []
    | S n => match tt_get s (key p) with
             | Some e => if legal p (e_best e) then e_best e :: get_pv s (make p (e_best e)) n else []
             | None => []
             end
    end.

  Inductive ScoreKind := Cp | MateWin | MateLoss | NoScore.
  Inductive Output :=
  | Info (depth seldepth : nat) (nodes : N) (kind : ScoreKind) (score : Z) (pv : list mv)
  | Bestmove (m : mv).

  Definition info_line (s : St) (depth : nat) (pv : list mv) : Output :=
    match best_score s with
    | Some sc =>
      if sc <=? SCORE_MIN + 255 + 1 then Info depth (seldepth s) (nodes s) MateLoss (Z.of_nat ((length pv + 1) / 2)) pv
      else if sc >=? SCORE_MAX - 255 then Info depth (seldepth s) (nodes s) MateWin (Z.of_nat ((length pv + 1) / 2)) pv
      else Info depth (seldepth s) (nodes s) Cp sc pv
    | None => Info depth (seldepth s) (nodes s) NoScore 0 pv      (* score_str is empty *)
    end.

  (* ---- iter_deep: depths d, d+1, ... while n iterations remain ---- *)
  Fixpoint iter_loop (n : nat) (d : nat) (s : St) (p : pos) (out : list Output) : St * list Output :=
    match n with
    | O => (s, out)
    | S n' =>
      let s := alpha_beta_start s p d in
      let (ab, s) := aborted s 0 in
      if ab then (s, out)
      else iter_loop n' (S d) s p (info_line s d (get_pv s p d) :: out)
    end.

  (* the move announced: the last completed (or usable partial) result, else (after the repair
     of D2) the first legal move, else the null move *)
  Definition announced (s : St) (p : pos) : mv :=
    match best_move s with
    | Some m => m
    | None => match filter (legal p) (moves p) with m :: _ => m | [] => default_mv end
    end.

  (* Search::search with max_depth (None = 255); output oldest first *)
  Definition search (s0 : St) (p : pos) (max_depth : option nat) : St * list Output :=
    let n := match max_depth with Some d => d | None => 255%nat end in
    let (s, out) := iter_loop n 1 s0 p [] in
    (set_running s false, rev (Bestmove (announced s p) :: out)).
End Search.
