(* Wf.v — boolean well-formedness of a model board and the precondition under which
   make_move / unmake_move are meaningful.  Both are *computable*: the correspondence run
   evaluates them on every position and every move it visits, so the hypotheses of the
   theorems are demonstrably met, and proofs/WfProofs.v shows they are preserved by play. *)
From Coq Require Import NArith ZArith List Lia Bool.
Import ListNotations.
From RCE Require Import lib.Bits model.Board.
Open Scope N_scope.

Definition lt64 (x : N) : bool := N.ltb x 18446744073709551616.

Definition piece_boards (p : PBB) : list N :=
  [white_pawns p; white_king p; white_queens p; white_rooks p; white_knights p; white_bishops p;
   black_pawns p; black_king p; black_queens p; black_rooks p; black_knights p; black_bishops p].

Fixpoint pairwise_disjoint (l : list N) : bool :=
  match l with
  | [] => true
  | x :: t => forallb (fun y => N.eqb (N.land x y) 0) t && pairwise_disjoint t
  end.

(* the twelve boards are 64-bit, pairwise disjoint, and the three unions are what
   recompute_combinations would make them *)
Definition pbb_wf (p : PBB) : bool :=
  forallb lt64 (piece_boards p) && pairwise_disjoint (piece_boards p)
  && N.eqb (white_pieces p) (white_union p) && N.eqb (black_pieces p) (black_union p)
  && N.eqb (all_pieces p) (N.lor (white_pieces p) (black_pieces p)).

(* the en-passant file is exactly "the last record is a double pawn push", as unmake_move
   reconstructs it *)
Definition ep_consistent (b : Board) : bool :=
  match ep_file b with
  | Some f => p_dpp (last_ply b) && Nat.eqb f (file (p_dest (last_ply b))) && Nat.ltb f 8
  | None => negb (p_dpp (last_ply b))
  end.

Definition wfb (b : Board) : bool :=
  pbb_wf (bbs b) && ep_consistent b && N.ltb (fullmove b) 65536
  && match history b with [] => false | _ => true end
  && N.ltb (p_halfmove (last_ply b)) 65536.

Definition is_none {A} (o : option A) : bool := match o with None => true | Some _ => false end.

(* what every move produced by get_all_moves satisfies (proved in proofs/WfProofs.v and
   evaluated on every visited move): the squares are on the board, the moving piece stands on
   the start square and belongs to the side to move, `captured` is exactly what stands on the
   capture square (the destination, or the passed pawn for en passant) and is not the mover's
   own piece, the destination is otherwise empty, a promotion is a pawn's, and a castling move
   has its rook on the corner and the rook's and king's destinations empty *)
Definition move_okb (b : Board) (m : Ply) : bool :=
  let s := p_start m in let d := p_dest m in let k := p_piece m in
  sq_valid s && sq_valid d && negb (sq_eqb s d)
  && okind_eqb (get_piece b s) (Some k)
  && color_eqb (snd k) (current_turn b)
  && match p_captured m with
     | Some c => negb (color_eqb (snd c) (snd k))
     | None => true
     end
  && (if p_ep m
      then ptype_eqb (fst k) Pawn && negb (is_none (p_captured m))
           && okind_eqb (get_piece b (ep_capture_square s d)) (p_captured m)
           && is_none (get_piece b d) && negb (sq_eqb (ep_capture_square s d) d)
           && negb (sq_eqb (ep_capture_square s d) s)
      else okind_eqb (get_piece b d) (p_captured m))
  && match p_promoted m with
     | Some (t, c) => ptype_eqb (fst k) Pawn && color_eqb c (snd k)
                      && negb (ptype_eqb t Pawn) && negb (ptype_eqb t King)
     | None => true
     end
  && (if p_castles m
      then ptype_eqb (fst k) King && is_none (p_captured m) && is_none (p_promoted m) && negb (p_ep m)
           && match castle_rook_squares d with
              | Some (rs, rd) => okind_eqb (get_piece b rs) (Some (Rook, snd k)) && is_none (get_piece b rd)
                                 && negb (sq_eqb rs s) && negb (sq_eqb rd d) && negb (sq_eqb rs d)
                                 && negb (sq_eqb rd s)
              | None => false
              end
      else true)
  && (if p_dpp m then ptype_eqb (fst k) Pawn && Nat.ltb (file d) 8 else true).
