(* ChessSearch.v — the abstract search of Search.v instantiated with the chess model. *)
From Coq Require Import NArith ZArith List Bool FMapPositive String.
Import ListNotations.
From RCE Require Import lib.Bits model.Board model.Movegen model.Eval model.Fen model.Search model.CasesBoard.
Open Scope N_scope.

(* MVV_LVA_TABLE[attacker][victim] = victim * 6 + attacker, where the lookups compare whole Kinds
   against WHITE pieces and fall back to index 0 (so black attackers / black victims index 0) *)
Definition attacker_idx (k : Kind) : N :=
  match k with
  | (King, White) => 0 | (Queen, White) => 1 | (Rook, White) => 2 | (Bishop, White) => 3
  | (Knight, White) => 4 | (Pawn, White) => 5 | _ => 0
  end.
Definition victim_idx (k : Kind) : N :=
  match k with
  | (Pawn, White) => 0 | (Knight, White) => 1 | (Bishop, White) => 2 | (Rook, White) => 3
  | (Queen, White) => 4 | _ => 0
  end.
Definition cap_score (m : Ply) : N :=
  match p_captured m with
  | Some v => victim_idx v * 6 + attacker_idx (p_piece m)
  | None => 0
  end.

Definition c_in_check (b : Board) : bool := is_in_check b (current_turn b).
Definition c_repeated (b : Board) : bool := position_reached b (zkey b).

Definition CSt := St Ply.
Definition c_search (lim : Limits) (clock : nat -> N) (ext_stop : nat -> bool) (tt_on : bool)
           (s0 : CSt) (b : Board) (max_depth : option nat) : CSt * list (Output Ply) :=
  search Board Ply get_all_moves is_legal_move make_move c_in_check evaluate is_capture is_promotion
         cap_score ply_eqb zkey halfmove_clock c_repeated ply_default lim clock ext_stop tt_on
         s0 b max_depth.

(* ---- encoders for the correspondence ---- *)
Definition enc_bound (b : Bound) : N := match b with Exact => 0 | Lower => 1 | Upper => 2 end.
Definition enc_z (z : Z) : N * N := if (z <? 0)%Z then (1, Z.to_N (- z)) else (0, Z.to_N z).
Definition enc_write (w : WriteEv Ply) :=
  match w with
  | (k, e, n, f) => (k, enc_z (e_score _ e), N.of_nat (e_depth _ e), enc_bound (e_bound _ e),
                     enc_ply (e_best _ e), n, enc_bool f)
  end.
Definition enc_out (o : Output Ply) :=
  match o with
  | Info _ d sd n k sc pv =>
    (1, N.of_nat d, N.of_nat sd, n, (match k with Cp => 0 | MateWin => 1 | MateLoss => 2 | NoScore => 3 end), enc_z sc,
     map enc_ply pv)
  | Bestmove _ m => (2, 0, 0, 0, 0, (0, 0), [enc_ply m])
  end.

(* one search spec: depth, optional node budget, cache on/off *)
Definition run_spec (tt0 : PositiveMap.t (TTEntry Ply)) (b : Board) (depth : nat) (budget : option N)
           (tt_on : bool) :=
  let lim := mkLimits budget None false 0 in
  let s0 := set_tt _ (init_st Ply) tt0 in
  let '(s, out) := c_search lim (fun _ => 0) (fun _ => false) tt_on s0 b (Some depth) in
  (s,
   (match best_move _ s with Some m => Some (enc_ply m) | None => None end,
    match best_score _ s with Some v => Some (enc_z v) | None => None end,
    nodes _ s, N.of_nat (seldepth _ s), map enc_write (rev (trace _ s)), map enc_out out)).

(* a case: position (FEN + moves), then searches sharing the cache in sequence *)
Fixpoint run_specs (tt0 : PositiveMap.t (TTEntry Ply)) (b : Board) (specs : list (nat * option N * bool)) :=
  match specs with
  | [] => []
  | (d, bud, on) :: t => let '(s, r) := run_spec tt0 b d bud on in r :: run_specs (tt _ s) b t
  end.
Definition search_case (fen : string) (ms : list string) (specs : list (nat * option N * bool)) :=
  match from_fen fen with
  | None => None
  | Some b0 => match play b0 ms with
               | None => None
               | Some b => Some (run_specs (PositiveMap.empty _) b specs)
               end
  end.

(* a search interrupted through an ORACLE rather than a node budget: kind 0 = a stop from the
   input thread first seen by the flag load number `idx` (0-based); kind 1 = the game clock
   (wtime/btime given, time-management budget 30000 ms) found expired by the clock reading number
   `idx`; kind 2 = movetime 30000 found expired by the clock reading number `idx`; kind 3 = no limit
   at all while the clock jumps by 10^10 ms at reading number `idx` (nothing may change).  The engine
   side counts its flag loads and clock readings (guarded counters) and reports the index at
   which the driver forced the interruption; this runs the model with exactly that oracle. *)
Definition run_cut (b : Board) (depth : nat) (kind : N) (idx : N) (tt_on : bool) :=
  let lim := match kind with
             | 1%N => mkLimits None None true 30000
             | 2%N => mkLimits None (Some 30000%N) false 0
             | _ => no_limits
             end in
  let clock := fun k : nat => if (kind =? 0)%N then 0%N
                              else if (idx <=? N.of_nat k)%N then (if (kind =? 3)%N then 10000000000%N else 60000%N) else 0%N in
  let ext_stop := fun k : nat => if (kind =? 0)%N then (idx <=? N.of_nat k)%N else false in
  let '(s, out) := c_search lim clock ext_stop tt_on (init_st Ply) b (Some depth) in
  (match best_move _ s with Some m => Some (enc_ply m) | None => None end,
   match best_score _ s with Some v => Some (enc_z v) | None => None end,
   nodes _ s, N.of_nat (seldepth _ s), map enc_write (rev (trace _ s)), map enc_out out).
Definition cut_case (fen : string) (ms : list string) (depth : nat) (kind idx : N) (tt_on : bool) :=
  match from_fen fen with
  | None => None
  | Some b0 => match play b0 ms with
               | None => None
               | Some b => Some [run_cut b depth kind idx tt_on]
               end
  end.

(* the reference value on the chess model (exponential: only for small depths / sparse positions) *)
From RCE Require Import spec.Game.
Definition c_Vroot (depth : nat) (b : Board) : option (N * N) :=
  match Vroot Board Ply get_all_moves is_legal_move make_move c_in_check evaluate is_capture
              halfmove_clock c_repeated depth b with
  | Some v => Some (enc_z v) | None => None end.
Definition c_move_value (depth : nat) (b : Board) (m : Ply) : N * N :=
  enc_z (move_value Board Ply get_all_moves is_legal_move make_move c_in_check evaluate is_capture
                    halfmove_clock c_repeated depth b m).
Definition vroot_case (fen : string) (ms : list string) (depth : nat) :=
  match from_fen fen with
  | None => None
  | Some b0 => match play b0 ms with
               | None => None
               | Some b => Some (c_Vroot depth b,
                                 map (fun m => (enc_ply m, c_move_value depth b m)) (get_legal_moves b))
               end
  end.

(* ---- a small mate oracle on the chess model (for the C12 check) ---- *)
Definition is_mated (b : Board) : bool :=
  match get_legal_moves b with [] => is_in_check b (current_turn b) | _ => false end.
Definition mating_moves (b : Board) : list Ply := filter (fun m => is_mated (make_move b m)) (get_legal_moves b).
(* the side to move can force mate within n of its own moves *)
Fixpoint wins_in (n : nat) (b : Board) : bool :=
  match n with
  | O => false
  | S k => existsb (fun m => let b1 := make_move b m in
                             if is_mated b1 then true
                             else match get_legal_moves b1 with
                                  | [] => false
                                  | rs => forallb (fun r => wins_in k (make_move b1 r)) rs
                                  end) (get_legal_moves b)
  end.
(* after move m (given by notation) the opponent, now to move, is lost within n more moves of ours *)
Definition keeps_mate (n : nat) (b : Board) (m : Ply) : bool :=
  let b1 := make_move b m in
  if is_mated b1 then true
  else match get_legal_moves b1 with [] => false | rs => forallb (fun r => wins_in n (make_move b1 r)) rs end.
Definition allows_mate_in_one (b : Board) (m : Ply) : bool :=
  match mating_moves (make_move b m) with [] => false | _ => true end.
(* per position: notations of mating moves; whether a mate in <= 2 exists; for every legal move
   whether it allows the opponent a mate in one *)
Definition mate_facts (fen : string) (ms : list string) :=
  match from_fen fen with
  | None => None
  | Some b0 => match play b0 ms with
               | None => None
               | Some b => Some (map to_notation (mating_moves b), wins_in 2 b,
                                 map (fun m => (to_notation m, allows_mate_in_one b m)) (get_legal_moves b))
               end
  end.
(* does the move given by notation keep a forced mate within n more moves of the mover *)
Definition keeps_mate_case (fen : string) (ms : list string) (mv : string) (n : nat) : option bool :=
  match from_fen fen with
  | None => None
  | Some b0 => match play b0 ms with
               | None => None
               | Some b => match find_move b mv with Some m => Some (keeps_mate n b m) | None => None end
               end
  end.
