(* Abs.v — the abstraction from the model board to the rules-level position of spec/Rules.v. *)
From Coq Require Import NArith List Bool.
Import ListNotations.
From RCE Require Import lib.Bits model.Board spec.Rules.

Definition abs (b : Board) : Pos :=
  mkPos (map (fun i => get_piece b (sq_of_idx i)) (seq 0 64)) (current_turn b)
        (p_rights (last_ply b)) (ep_file b) (halfmove_clock b) (Board.fullmove b).
Definition move_of (m : Ply) : Move :=
  mkMove (idx (p_start m)) (idx (p_dest m)) (match p_promoted m with Some k => Some (fst k) | None => None end).

(* what every query of the engine reads: the bitboards, side, en-passant file, and the rights and
   clock carried by the last undo record, the move number *)
Definition core (b : Board) : PBB * Color * option nat * Rights * N * N :=
  (bbs b, current_turn b, ep_file b, p_rights (last_ply b), p_halfmove (last_ply b), Board.fullmove b).
