(* Abs.v — the abstraction from the model board to the rules-level position of spec/Rules.v. *)
From Coq Require Import NArith List Bool.
Import ListNotations.
From RCE Require Import lib.Bits model.Board spec.Rules.

Definition abs (b : Board) : Pos :=
  mkPos (map (fun i => get_piece b (sq_of_idx i)) (seq 0 64)) (current_turn b)
        (p_rights (last_ply b)) (ep_file b) (halfmove_clock b) (Board.fullmove b).
Definition move_of (m : Ply) : Move :=
  mkMove (idx (p_start m)) (idx (p_dest m)) (match p_promoted m with Some k => Some (fst k) | None => None end).

(* what every query of the engine reads: the bitboards, side, en-passant file, and the rights and
   clock carried by the last undo record, the move number *)
Definition core (b : Board) : PBB * Color * option nat * Rights * N * N :=
  (bbs b, current_turn b, ep_file b, p_rights (last_ply b), p_halfmove (last_ply b), Board.fullmove b).

(* the flags the engine stores in a move agree with the rules' classification of that move *)
Definition flags_ok (b : Board) (m : Ply) : bool :=
  let p := abs b in let mv := move_of m in
  Bool.eqb (p_castles m) (is_castle (cells p) mv)
  && Bool.eqb (p_ep m) (is_ep p mv)
  && Bool.eqb (p_dpp m) (is_double_push (cells p) mv)
  && Bool.eqb (is_capture m) (is_capture_move p mv).
