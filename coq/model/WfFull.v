(* WfFull.v — the legality side conditions of a position that the rules-level theorems (C01,
   C03) need on top of Wf.wfb: castling rights only with king and rook at home, the en-passant
   file only behind a pawn that can have just advanced two squares, and the side that has just
   moved not left in check.  All boolean, evaluated on every visited position, and preserved by
   legal play (proofs/RulesProofs.v). *)
From Coq Require Import NArith List Bool.
Import ListNotations.
From RCE Require Import lib.Bits model.Board model.Movegen model.Wf.

Definition has (b : Board) (r f : nat) (k : Kind) : bool := okind_eqb (get_piece b (mkSq r f)) (Some k).
Definition empty_sq (b : Board) (r f : nat) : bool := is_none (get_piece b (mkSq r f)).

Definition rights_consistent (b : Board) : bool :=
  let r := p_rights (last_ply b) in
  (if r_wk r then has b 0 4 (King, White) && has b 0 7 (Rook, White) else true)
  && (if r_wq r then has b 0 4 (King, White) && has b 0 0 (Rook, White) else true)
  && (if r_bk r then has b 7 4 (King, Black) && has b 7 7 (Rook, Black) else true)
  && (if r_bq r then has b 7 4 (King, Black) && has b 7 0 (Rook, Black) else true).

(* with White to move the pawn that just moved is Black's: it stands on rank 5 (index 4), and the
   two squares it passed over / started from are empty; mirrored for Black to move *)
Definition ep_target_ok (b : Board) : bool :=
  match ep_file b with
  | None => true
  | Some f =>
    Nat.ltb f 8 &&
    match current_turn b with
    | White => has b 4 f (Pawn, Black) && empty_sq b 5 f && empty_sq b 6 f
    | Black => has b 3 f (Pawn, White) && empty_sq b 2 f && empty_sq b 1 f
    end
  end.

Definition no_pawn_on_back_ranks (b : Board) : bool :=
  N.eqb (N.land (N.lor (white_pawns (bbs b)) (black_pawns (bbs b))) 0xff000000000000ff) 0.

Definition wf_full (b : Board) : bool :=
  wfb b && rights_consistent b && ep_target_ok b && no_pawn_on_back_ranks b
  && negb (is_in_check b (opposite (current_turn b))).

(* at most one king per colour (two kings of one colour would make "the king has moved" ambiguous:
   the engine revokes castling rights on ANY king move, the rules on a move from e1/e8) *)
Definition kings_ok (b : Board) : bool :=
  Nat.leb (popcount (white_king (bbs b))) 1 && Nat.leb (popcount (black_king (bbs b))) 1.

(* the hypothesis of the rules-level theorems *)
Definition wf_rules (b : Board) : bool := wf_full b && kings_ok b.
