(* Eval.v — executable model of evaluate/simple_evaluator.rs: material of the side to move
   minus material of the opponent, in i16 with saturating add/sub; `count as i16 * value` is the
   wrapping i16 product of the release build.  Piece values come from generated/Consts.v (read
   off the running engine). *)
From Coq Require Import NArith ZArith List Lia Bool.
Import ListNotations.
From RCE Require Import lib.Bits generated.Consts model.Board.
Open Scope Z_scope.

Definition i16_sat (z : Z) : Z := Z.max (-32768) (Z.min 32767 z).
Definition i16_wrap (z : Z) : Z := (z + 32768) mod 65536 - 32768.

Definition piece_values : list (PType * Z) :=
  [(Queen, Z.of_N val_queen); (Rook, Z.of_N val_rook); (Bishop, Z.of_N val_bishop);
   (Knight, Z.of_N val_knight); (Pawn, Z.of_N val_pawn)].

(* get_piece_count(kind) as i16 * value *)
Definition term (p : PBB) (c : Color) (tv : PType * Z) : Z :=
  i16_wrap (i16_wrap (Z.of_nat (popcount (bb_get p (fst tv, c)))) * snd tv).

Definition evaluate (b : Board) : Z :=
  let c := current_turn b in
  let s1 := fold_left (fun s tv => i16_sat (s + term (bbs b) c tv)) piece_values 0 in
  fold_left (fun s tv => i16_sat (s - term (bbs b) (opposite c) tv)) piece_values s1.

(* colour mirror: ranks flipped (byte swap of every bitboard), colours and side to move swapped *)
Definition byte (x : N) (i : N) : N := N.land (N.shiftr x (8 * i)) 255.
Definition bswap64 (x : N) : N :=
  fold_left (fun acc i => N.lor acc (N.shiftl (byte x i) (8 * (7 - i)))) [0; 1; 2; 3; 4; 5; 6; 7]%N 0%N.
Definition mirror_bbs (p : PBB) : PBB :=
  mkPBB (bswap64 (black_pawns p)) (bswap64 (black_king p)) (bswap64 (black_queens p))
        (bswap64 (black_rooks p)) (bswap64 (black_knights p)) (bswap64 (black_bishops p))
        (bswap64 (white_pawns p)) (bswap64 (white_king p)) (bswap64 (white_queens p))
        (bswap64 (white_rooks p)) (bswap64 (white_knights p)) (bswap64 (white_bishops p))
        (bswap64 (black_pieces p)) (bswap64 (white_pieces p)) (bswap64 (all_pieces p)).
(* only placement and side to move matter to the evaluator *)
Definition mirror_board (b : Board) : Board :=
  mkBoard (opposite (current_turn b)) (fullmove b) (ep_file b) (history b) (pos_hist b)
          (mirror_bbs (bbs b)) (zkey b).
Definition swap_turn (b : Board) : Board :=
  mkBoard (opposite (current_turn b)) (fullmove b) (ep_file b) (history b) (pos_hist b) (bbs b) (zkey b).

(* number of non-king pieces of a colour as the evaluator counts them *)
Definition material_count (p : PBB) (c : Color) : nat :=
  (popcount (bb_get p (Queen, c)) + popcount (bb_get p (Rook, c)) + popcount (bb_get p (Bishop, c))
   + popcount (bb_get p (Knight, c)) + popcount (bb_get p (Pawn, c)))%nat.
Definition material_bounded (b : Board) : bool :=
  Nat.leb (material_count (bbs b) White) 16 && Nat.leb (material_count (bbs b) Black) 16.
Definition boards_lt64 (p : PBB) : bool :=
  forallb (fun x => N.ltb x 18446744073709551616)
          [white_pawns p; white_king p; white_queens p; white_rooks p; white_knights p; white_bishops p;
           black_pawns p; black_king p; black_queens p; black_rooks p; black_knights p; black_bishops p].
(* the values the theorems are stated for: positive and small enough that 16 pieces cannot
   overflow an i16 (true of the generated constants; re-checked on every run) *)
Definition values_ok : bool :=
  forallb (fun tv => (0 <? snd tv) && (snd tv <=? 2000)) piece_values.
