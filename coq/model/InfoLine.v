(* InfoLine.v — the text of an info line exactly as Search::log_uci_info formats it (search.rs), and
   the bestmove line.  Decimal printing is Rust's Display for unsigned / signed integers. *)
From Coq Require Import NArith ZArith List Bool Ascii String.
Import ListNotations.
From RCE Require Import model.Board model.Movegen model.Search.
Open Scope string_scope.

Definition digit_char (d : N) : ascii := ascii_of_N (48 + d).
(* decimal digits, most significant first; fuel = number of binary digits is enough *)
Fixpoint dec_aux (fuel : nat) (n : N) (acc : string) : string :=
  match fuel with
  | O => acc
  | S f => let acc' := String (digit_char (n mod 10)) acc in
           if N.ltb n 10 then acc' else dec_aux f (n / 10) acc'
  end.
Definition N_dec (n : N) : string := dec_aux (S (N.to_nat (N.size n))) n "".
Definition Z_dec (z : Z) : string :=
  match z with
  | Z0 => "0"
  | Zpos p => N_dec (Npos p)
  | Zneg p => "-" ++ N_dec (Npos p)
  end.

Definition join_sp (l : list string) : string := String.concat " " l.

(* the five fragments; an absent fragment is the empty string, and the format string puts single
   spaces between them regardless (so absent fragments leave double spaces, as on the real engine) *)
Definition depth_str (depth seldepth : nat) : string :=
  match seldepth with
  | O => "depth " ++ N_dec (N.of_nat depth)
  | _ => "depth " ++ N_dec (N.of_nat depth) ++ " seldepth " ++ N_dec (N.of_nat seldepth)
  end.
Definition score_str (best_score : option Z) (pv_len : nat) : string :=
  match best_score with
  | Some s =>
    if (s <=? SCORE_MIN + 255 + 1)%Z then "score mate -" ++ N_dec (N.of_nat ((pv_len + 1) / 2))
    else if (s >=? SCORE_MAX - 255)%Z then "score mate " ++ N_dec (N.of_nat ((pv_len + 1) / 2))
    else "score cp " ++ Z_dec s
  | None => ""
  end.
Definition time_str (t : option N) : string :=
  match t with Some x => if N.ltb 0 x then "time " ++ N_dec x else "" | None => "" end.
Definition nps_str (nodes : N) (t : option N) : string :=
  match t with Some x => if N.ltb 0 x then "nps " ++ N_dec (nodes * 1000 / x) else "" | None => "" end.

Definition info_string (depth seldepth : nat) (nodes : N) (t : option N) (best_score : option Z)
           (pv : list string) : string :=
  "info " ++ depth_str depth seldepth ++ " " ++ ("nodes " ++ N_dec nodes) ++ " " ++ time_str t ++ " "
  ++ nps_str nodes t ++ " " ++ score_str best_score (List.length pv) ++ " pv " ++ join_sp pv.

Definition bestmove_string (m : Ply) : string := "bestmove " ++ to_notation m.

