(* Board.v — executable model of the position: board/piece.rs (Color, Kind), board/square.rs,
   board/ply.rs (Ply), board/ply/castling.rs, board/piece_bitboards.rs, board/zkey.rs (incremental
   toggles and the from-scratch key) and board.rs (add/remove/move/undo_move_piece, make_move,
   make_move_castling_checks, unmake_move, castle_status, ...).  Mirrors the Rust code function
   by function; u8/u16/u64 arithmetic is written with its wrap. *)
From Coq Require Import NArith ZArith List Lia Bool.
Import ListNotations.
From RCE Require Import lib.Bits generated.Consts generated.ZTable.
Open Scope N_scope.

Inductive Color := White | Black.
Inductive PType := Pawn | King | Queen | Rook | Bishop | Knight.   (* order of `usize::from(Kind)` *)
Definition Kind : Type := PType * Color.

Definition opposite (c : Color) : Color := match c with White => Black | Black => White end.
Definition color_eqb (a b : Color) : bool :=
  match a, b with White, White | Black, Black => true | _, _ => false end.
Definition ptype_idx (p : PType) : nat :=
  match p with Pawn => 0 | King => 1 | Queen => 2 | Rook => 3 | Bishop => 4 | Knight => 5 end%nat.
Definition ptype_eqb (a b : PType) : bool := Nat.eqb (ptype_idx a) (ptype_idx b).
Definition color_idx (c : Color) : nat := match c with White => 0 | Black => 1 end%nat.
Definition kind_eqb (a b : Kind) : bool := ptype_eqb (fst a) (fst b) && color_eqb (snd a) (snd b).
Definition okind_eqb (a b : option Kind) : bool :=
  match a, b with
  | None, None => true
  | Some x, Some y => kind_eqb x y
  | _, _ => false
  end.

(* Square { rank: u8, file: u8 } *)
Record Square := mkSq { rank : nat; file : nat }.
Definition sq_of_idx (i : nat) : Square := mkSq (i / 8) (i mod 8).     (* From<u8>: value>>3, value%8 *)
Definition idx (s : Square) : nat := (rank s * 8 + file s)%nat.         (* rank*8+file *)
Definition sq_eqb (a b : Square) : bool := Nat.eqb (rank a) (rank b) && Nat.eqb (file a) (file b).
Definition sq_valid (s : Square) : bool := Nat.ltb (rank s) 8 && Nat.ltb (file s) 8.
(* Square + Delta: (i16::from(x) + i16::from(d)) as u8 *)
Definition u8_add (x : nat) (d : Z) : nat := Z.to_nat ((Z.of_nat x + d) mod 256).
Definition sq_add (s : Square) (d : Z * Z) : Square := mkSq (u8_add (rank s) (fst d)) (u8_add (file s) (snd d)).
Definition NORTH : Z * Z := (1, 0)%Z.
Definition SOUTH : Z * Z := (-1, 0)%Z.
Definition EAST : Z * Z := (0, 1)%Z.
Definition WEST : Z * Z := (0, -1)%Z.
(* Square::get_mask = get_rank_mask & get_file_mask *)
Definition sq_mask (s : Square) : N :=
  N.land (shl64 0xFF (N.of_nat (rank s) * 8)) (shl64 0x0101010101010101 (N.of_nat (file s))).

(* castling.rs *)
Record Rights := mkRights { r_wk : bool; r_wq : bool; r_bk : bool; r_bq : bool }.   (* true = Available *)
Definition all_rights : Rights := mkRights true true true true.
Definition rights_eqb (a b : Rights) : bool :=
  Bool.eqb (r_wk a) (r_wk b) && Bool.eqb (r_wq a) (r_wq b) &&
  Bool.eqb (r_bk a) (r_bk b) && Bool.eqb (r_bq a) (r_bq b).
Inductive CastlingKind := WK | WQ | BK | BQ.
Definition ck_idx (k : CastlingKind) : nat := match k with WK => 0 | WQ => 1 | BK => 2 | BQ => 3 end%nat.
Definition get_right (r : Rights) (k : CastlingKind) : bool :=
  match k with WK => r_wk r | WQ => r_wq r | BK => r_bk r | BQ => r_bq r end.
Definition clear_right (r : Rights) (k : CastlingKind) : Rights :=
  match k with
  | WK => mkRights false (r_wq r) (r_bk r) (r_bq r)
  | WQ => mkRights (r_wk r) false (r_bk r) (r_bq r)
  | BK => mkRights (r_wk r) (r_wq r) false (r_bq r)
  | BQ => mkRights (r_wk r) (r_wq r) (r_bk r) false
  end.

(* ply.rs *)
Record Ply := mkPly {
  p_start : Square; p_dest : Square; p_piece : Kind;
  p_captured : option Kind; p_promoted : option Kind;
  p_castles : bool; p_ep : bool; p_dpp : bool;
  p_halfmove : N; p_rights : Rights }.
Definition ply_new (s d : Square) (k : Kind) : Ply :=
  mkPly s d k None None false false false 0 all_rights.
Definition ply_default : Ply := ply_new (mkSq 0 0) (mkSq 0 0) (Pawn, White).
Definition set_captured (p : Ply) (c : option Kind) : Ply :=
  mkPly (p_start p) (p_dest p) (p_piece p) c (p_promoted p) (p_castles p) (p_ep p) (p_dpp p)
        (p_halfmove p) (p_rights p).
Definition set_promoted (p : Ply) (c : option Kind) : Ply :=
  mkPly (p_start p) (p_dest p) (p_piece p) (p_captured p) c (p_castles p) (p_ep p) (p_dpp p)
        (p_halfmove p) (p_rights p).
Definition set_flags (p : Ply) (castles ep dpp : bool) : Ply :=
  mkPly (p_start p) (p_dest p) (p_piece p) (p_captured p) (p_promoted p) castles ep dpp
        (p_halfmove p) (p_rights p).
Definition set_clock_rights (p : Ply) (h : N) (r : Rights) : Ply :=
  mkPly (p_start p) (p_dest p) (p_piece p) (p_captured p) (p_promoted p) (p_castles p) (p_ep p)
        (p_dpp p) h r.
Definition ply_eqb (a b : Ply) : bool :=
  sq_eqb (p_start a) (p_start b) && sq_eqb (p_dest a) (p_dest b) && kind_eqb (p_piece a) (p_piece b)
  && okind_eqb (p_captured a) (p_captured b) && okind_eqb (p_promoted a) (p_promoted b)
  && Bool.eqb (p_castles a) (p_castles b) && Bool.eqb (p_ep a) (p_ep b) && Bool.eqb (p_dpp a) (p_dpp b)
  && N.eqb (p_halfmove a) (p_halfmove b) && rights_eqb (p_rights a) (p_rights b).
Definition is_capture (p : Ply) : bool := match p_captured p with Some _ => true | None => false end.
Definition is_promotion (p : Ply) : bool := match p_promoted p with Some _ => true | None => false end.
Definition is_quiet (p : Ply) : bool := negb (is_capture p) && negb (is_promotion p).

(* piece_bitboards.rs *)
Record PBB := mkPBB {
  white_pawns : N; white_king : N; white_queens : N; white_rooks : N; white_knights : N; white_bishops : N;
  black_pawns : N; black_king : N; black_queens : N; black_rooks : N; black_knights : N; black_bishops : N;
  white_pieces : N; black_pieces : N; all_pieces : N }.

Definition bb_get (b : PBB) (k : Kind) : N :=
  match k with
  | (Pawn, White) => white_pawns b | (King, White) => white_king b | (Queen, White) => white_queens b
  | (Rook, White) => white_rooks b | (Knight, White) => white_knights b | (Bishop, White) => white_bishops b
  | (Pawn, Black) => black_pawns b | (King, Black) => black_king b | (Queen, Black) => black_queens b
  | (Rook, Black) => black_rooks b | (Knight, Black) => black_knights b | (Bishop, Black) => black_bishops b
  end.
(* write one of the twelve piece boards, leaving the unions untouched *)
Definition bb_set (b : PBB) (k : Kind) (v : N) : PBB :=
  match k with
  | (Pawn, White) => mkPBB v (white_king b) (white_queens b) (white_rooks b) (white_knights b) (white_bishops b) (black_pawns b) (black_king b) (black_queens b) (black_rooks b) (black_knights b) (black_bishops b) (white_pieces b) (black_pieces b) (all_pieces b)
  | (King, White) => mkPBB (white_pawns b) v (white_queens b) (white_rooks b) (white_knights b) (white_bishops b) (black_pawns b) (black_king b) (black_queens b) (black_rooks b) (black_knights b) (black_bishops b) (white_pieces b) (black_pieces b) (all_pieces b)
  | (Queen, White) => mkPBB (white_pawns b) (white_king b) v (white_rooks b) (white_knights b) (white_bishops b) (black_pawns b) (black_king b) (black_queens b) (black_rooks b) (black_knights b) (black_bishops b) (white_pieces b) (black_pieces b) (all_pieces b)
  | (Rook, White) => mkPBB (white_pawns b) (white_king b) (white_queens b) v (white_knights b) (white_bishops b) (black_pawns b) (black_king b) (black_queens b) (black_rooks b) (black_knights b) (black_bishops b) (white_pieces b) (black_pieces b) (all_pieces b)
  | (Knight, White) => mkPBB (white_pawns b) (white_king b) (white_queens b) (white_rooks b) v (white_bishops b) (black_pawns b) (black_king b) (black_queens b) (black_rooks b) (black_knights b) (black_bishops b) (white_pieces b) (black_pieces b) (all_pieces b)
  | (Bishop, White) => mkPBB (white_pawns b) (white_king b) (white_queens b) (white_rooks b) (white_knights b) v (black_pawns b) (black_king b) (black_queens b) (black_rooks b) (black_knights b) (black_bishops b) (white_pieces b) (black_pieces b) (all_pieces b)
  | (Pawn, Black) => mkPBB (white_pawns b) (white_king b) (white_queens b) (white_rooks b) (white_knights b) (white_bishops b) v (black_king b) (black_queens b) (black_rooks b) (black_knights b) (black_bishops b) (white_pieces b) (black_pieces b) (all_pieces b)
  | (King, Black) => mkPBB (white_pawns b) (white_king b) (white_queens b) (white_rooks b) (white_knights b) (white_bishops b) (black_pawns b) v (black_queens b) (black_rooks b) (black_knights b) (black_bishops b) (white_pieces b) (black_pieces b) (all_pieces b)
  | (Queen, Black) => mkPBB (white_pawns b) (white_king b) (white_queens b) (white_rooks b) (white_knights b) (white_bishops b) (black_pawns b) (black_king b) v (black_rooks b) (black_knights b) (black_bishops b) (white_pieces b) (black_pieces b) (all_pieces b)
  | (Rook, Black) => mkPBB (white_pawns b) (white_king b) (white_queens b) (white_rooks b) (white_knights b) (white_bishops b) (black_pawns b) (black_king b) (black_queens b) v (black_knights b) (black_bishops b) (white_pieces b) (black_pieces b) (all_pieces b)
  | (Knight, Black) => mkPBB (white_pawns b) (white_king b) (white_queens b) (white_rooks b) (white_knights b) (white_bishops b) (black_pawns b) (black_king b) (black_queens b) (black_rooks b) v (black_bishops b) (white_pieces b) (black_pieces b) (all_pieces b)
  | (Bishop, Black) => mkPBB (white_pawns b) (white_king b) (white_queens b) (white_rooks b) (white_knights b) (white_bishops b) (black_pawns b) (black_king b) (black_queens b) (black_rooks b) (black_knights b) v (white_pieces b) (black_pieces b) (all_pieces b)
  end.

Definition white_union (b : PBB) : N :=
  N.lor (N.lor (N.lor (N.lor (N.lor (white_pawns b) (white_knights b)) (white_bishops b)) (white_rooks b)) (white_queens b)) (white_king b).
Definition black_union (b : PBB) : N :=
  N.lor (N.lor (N.lor (N.lor (N.lor (black_pawns b) (black_knights b)) (black_bishops b)) (black_rooks b)) (black_queens b)) (black_king b).

(* recompute_combinations(Some(color)) *)
Definition recompute (b : PBB) (c : Color) : PBB :=
  let w := match c with White => white_union b | Black => white_pieces b end in
  let k := match c with Black => black_union b | White => black_pieces b end in
  mkPBB (white_pawns b) (white_king b) (white_queens b) (white_rooks b) (white_knights b) (white_bishops b)
        (black_pawns b) (black_king b) (black_queens b) (black_rooks b) (black_knights b) (black_bishops b)
        w k (N.lor w k).

Definition pbb_add (b : PBB) (s : Square) (k : Kind) : PBB :=
  recompute (bb_set b k (N.lor (bb_get b k) (sq_mask s))) (snd k).
Definition pbb_remove (b : PBB) (s : Square) (k : Kind) : PBB :=
  recompute (bb_set b k (N.land (bb_get b k) (not64 (sq_mask s)))) (snd k).

Definition nonempty (x : N) : bool := negb (N.eqb x 0).

(* get_piece_kind; Error = the unreachable!() arms *)
Inductive PieceAt := PNone | PSome (k : Kind) | PMalformed.
Definition get_piece_kind (b : PBB) (s : Square) : PieceAt :=
  let m := sq_mask s in
  if nonempty (N.land m (white_pieces b)) then
    if nonempty (N.land m (white_pawns b)) then PSome (Pawn, White)
    else if nonempty (N.land m (white_king b)) then PSome (King, White)
    else if nonempty (N.land m (white_queens b)) then PSome (Queen, White)
    else if nonempty (N.land m (white_rooks b)) then PSome (Rook, White)
    else if nonempty (N.land m (white_knights b)) then PSome (Knight, White)
    else if nonempty (N.land m (white_bishops b)) then PSome (Bishop, White)
    else PMalformed
  else if nonempty (N.land m (black_pieces b)) then
    if nonempty (N.land m (black_pawns b)) then PSome (Pawn, Black)
    else if nonempty (N.land m (black_king b)) then PSome (King, Black)
    else if nonempty (N.land m (black_queens b)) then PSome (Queen, Black)
    else if nonempty (N.land m (black_rooks b)) then PSome (Rook, Black)
    else if nonempty (N.land m (black_knights b)) then PSome (Knight, Black)
    else if nonempty (N.land m (black_bishops b)) then PSome (Bishop, Black)
    else PMalformed
  else PNone.
Definition piece_opt (p : PieceAt) : option Kind := match p with PSome k => Some k | _ => None end.

(* zkey.rs: table layout pieces[color][piece][square], castling[4], en_passant[8], white_turn *)
Definition zt (i : nat) : N := nth i gen_ztable 0.
Definition z_piece (k : Kind) (s : Square) : N :=
  zt (color_idx (snd k) * 384 + ptype_idx (fst k) * 64 + idx s).
Definition z_castle (k : CastlingKind) : N := zt (768 + ck_idx k).
Definition z_ep (f : nat) : N := zt (772 + f).
Definition z_turn : N := zt 780.

(* board.rs *)
Record Board := mkBoard {
  current_turn : Color;
  fullmove : N;                      (* u16 *)
  ep_file : option nat;
  history : list Ply;                (* head = history.last() *)
  pos_hist : list N;                 (* remembered earlier positions (with multiplicity) *)
  bbs : PBB;
  zkey : N }.

Definition last_ply (b : Board) : Ply := match history b with p :: _ => p | [] => ply_default end.
Definition castle_status (b : Board) (k : CastlingKind) : bool := get_right (p_rights (last_ply b)) k.
Definition halfmove_clock (b : Board) : N := p_halfmove (last_ply b).
Definition get_piece (b : Board) (s : Square) : option Kind := piece_opt (get_piece_kind (bbs b) s).

Definition with_bbs_key (b : Board) (p : PBB) (z : N) : Board :=
  mkBoard (current_turn b) (fullmove b) (ep_file b) (history b) (pos_hist b) p z.
Definition with_key (b : Board) (z : N) : Board := with_bbs_key b (bbs b) z.

Definition add_piece (b : Board) (s : Square) (k : Kind) : Board :=
  with_bbs_key b (pbb_add (bbs b) s k) (N.lxor (zkey b) (z_piece k s)).
Definition remove_piece (b : Board) (s : Square) (k : Kind) : Board :=
  with_bbs_key b (pbb_remove (bbs b) s k) (N.lxor (zkey b) (z_piece k s)).

Definition ep_capture_square (start dest : Square) : Square := mkSq (rank start) (file dest).

(* move_piece; the (None, true) arm panics — see move_piece_panics *)
Definition move_piece (b : Board) (start dest : Square) (moving : Kind) (promoted captured : option Kind)
           (ep : bool) : Board :=
  let b1 := remove_piece b start moving in
  let b2 := match captured, ep with
            | Some c, true => remove_piece b1 (ep_capture_square start dest) c
            | Some c, false => remove_piece b1 dest c
            | None, _ => b1
            end in
  add_piece b2 dest (match promoted with Some k => k | None => moving end).
Definition move_piece_panics (captured : option Kind) (ep : bool) : bool :=
  match captured, ep with None, true => true | _, _ => false end.

Definition undo_move_piece (b : Board) (start dest : Square) (moving : Kind) (promoted captured : option Kind)
           (ep : bool) : Board :=
  let b1 := remove_piece b dest (match promoted with Some k => k | None => moving end) in
  let b2 := match captured, ep with
            | Some c, true => add_piece b1 (ep_capture_square start dest) c
            | Some c, false => add_piece b1 dest c
            | None, _ => b1
            end in
  add_piece b2 start moving.

(* rook squares of a castling move by king destination; None = the panic! arm *)
Definition castle_rook_squares (dest : Square) : option (Square * Square) :=
  match rank dest, file dest with
  | 0, 6 => Some (mkSq 0 7, mkSq 0 5)
  | 0, 2 => Some (mkSq 0 0, mkSq 0 3)
  | 7, 6 => Some (mkSq 7 7, mkSq 7 5)
  | 7, 2 => Some (mkSq 7 0, mkSq 7 3)
  | _, _ => None
  end%nat.

(* revoke one right if still available: toggles the key and the flag *)
Definition revoke (st : N * Rights) (k : CastlingKind) : N * Rights :=
  if get_right (snd st) k then (N.lxor (fst st) (z_castle k), clear_right (snd st) k) else st.

(* the two `match` blocks of make_move_castling_checks on (key, rights) *)
Definition castling_revocations (m : Ply) (st : N * Rights) : N * Rights :=
  let st1 :=
    match p_piece m, rank (p_start m), file (p_start m) with
    | (King, White), _, _ => revoke (revoke st WK) WQ
    | (King, Black), _, _ => revoke (revoke st BK) BQ
    | (Rook, White), 0, 0 => revoke st WQ
    | (Rook, White), 0, 7 => revoke st WK
    | (Rook, Black), 7, 0 => revoke st BQ
    | (Rook, Black), 7, 7 => revoke st BK
    | _, _, _ => st
    end%nat in
  match p_captured m, rank (p_dest m), file (p_dest m) with
  | Some (Rook, White), 0, 0 => revoke st1 WQ
  | Some (Rook, White), 0, 7 => revoke st1 WK
  | Some (Rook, Black), 7, 0 => revoke st1 BQ
  | Some (Rook, Black), 7, 7 => revoke st1 BK
  | _, _, _ => st1
  end%nat.

Definition u16_max : N := 65535.
Definition wrap16 (x : N) : N := N.land x u16_max.

Definition switch_turn (b : Board) : Board :=
  mkBoard (opposite (current_turn b)) (fullmove b) (ep_file b) (history b) (pos_hist b) (bbs b)
          (N.lxor (zkey b) z_turn).

(* remove one occurrence *)
Fixpoint remove_one (k : N) (l : list N) : list N :=
  match l with
  | [] => []
  | x :: t => if N.eqb x k then t else x :: remove_one k t
  end.

(* make_move *)
Definition make_move (b : Board) (m0 : Ply) : Board :=
  let ph := zkey b :: pos_hist b in
  let prev := last_ply b in
  let hm := match p_piece m0, p_captured m0 with
            | (Pawn, _), _ => 0
            | _, Some _ => 0
            | _, None => wrap16 (p_halfmove prev + 1)
            end in
  let z1 := match ep_file b with Some f => N.lxor (zkey b) (z_ep f) | None => zkey b end in
  let '(ep', z2) := if p_dpp m0 then (Some (file (p_dest m0)), N.lxor z1 (z_ep (file (p_dest m0))))
                    else (None, z1) in
  let b1 := mkBoard (current_turn b) (fullmove b) ep' (history b) ph (bbs b) z2 in
  let b2 := move_piece b1 (p_start m0) (p_dest m0) (p_piece m0) (p_promoted m0) (p_captured m0) (p_ep m0) in
  let b3 := if p_castles m0 then
              match castle_rook_squares (p_dest m0) with
              | Some (rs, rd) => move_piece b2 rs rd (Rook, current_turn b2) None None false
              | None => b2
              end
            else b2 in
  let '(z3, rights') := castling_revocations m0 (zkey b3, p_rights prev) in
  let m := set_clock_rights m0 hm rights' in
  let b4 := switch_turn (with_key b3 z3) in
  let fm := if color_eqb (current_turn b4) White then wrap16 (fullmove b4 + 1) else fullmove b4 in
  mkBoard (current_turn b4) fm (ep_file b4) (m :: history b4) (pos_hist b4) (bbs b4) (zkey b4).

(* the explicit panic conditions of make_move (release build: u16 arithmetic wraps silently) *)
Definition make_move_panics (b : Board) (m0 : Ply) : bool :=
  move_piece_panics (p_captured m0) (p_ep m0)
  || (p_castles m0 && match castle_rook_squares (p_dest m0) with None => true | Some _ => false end).

Definition toggle_if (c : bool) (z w : N) : N := if c then N.lxor z w else z.

(* unmake_move; None = history.pop() on an empty history (expect panics) *)
Definition unmake_move (b : Board) : option Board :=
  match history b with
  | [] => None
  | old :: rest =>
    let b0 := mkBoard (current_turn b) (fullmove b) (ep_file b) rest (pos_hist b) (bbs b) (zkey b) in
    let b1 := undo_move_piece b0 (p_start old) (p_dest old) (p_piece old) (p_promoted old)
                              (p_captured old) (p_ep old) in
    let b2 := if p_castles old then
                match castle_rook_squares (p_dest old) with
                | Some (rs, rd) => undo_move_piece b1 rs rd (Rook, opposite (current_turn b1)) None None false
                | None => b1
                end
              else b1 in
    (* revert castling rights: compare the popped record with the new last record *)
    let z := zkey b2 in
    let z := toggle_if (negb (Bool.eqb (r_wk (p_rights old)) (castle_status b2 WK))) z (z_castle WK) in
    let z := toggle_if (negb (Bool.eqb (r_wq (p_rights old)) (castle_status b2 WQ))) z (z_castle WQ) in
    let z := toggle_if (negb (Bool.eqb (r_bk (p_rights old)) (castle_status b2 BK))) z (z_castle BK) in
    let z := toggle_if (negb (Bool.eqb (r_bq (p_rights old)) (castle_status b2 BQ))) z (z_castle BQ) in
    let z := match ep_file b2 with Some f => N.lxor z (z_ep f) | None => z end in
    let '(ep', z) := match rest with
                     | l :: _ => if p_dpp l then (Some (file (p_dest l)), N.lxor z (z_ep (file (p_dest l))))
                                 else (None, z)
                     | [] => (None, z)
                     end in
    let fm := if color_eqb (current_turn b2) White then wrap16 (fullmove b2 + u16_max) else fullmove b2 in
    let b3 := switch_turn (mkBoard (current_turn b2) fm ep' (history b2) (pos_hist b2) (bbs b2) z) in
    Some (mkBoard (current_turn b3) (fullmove b3) (ep_file b3) (history b3)
                  (remove_one (zkey b3) (pos_hist b3)) (bbs b3) (zkey b3))
  end.

Definition position_reached (b : Board) (k : N) : bool := existsb (N.eqb k) (pos_hist b).

(* impl From<&Board> for ZKey *)
Definition key_from_scratch (b : Board) : N :=
  let z := fold_left (fun acc i => match get_piece b (sq_of_idx i) with
                                   | Some k => N.lxor acc (z_piece k (sq_of_idx i))
                                   | None => acc end) (seq 0 64) 0 in
  let z := toggle_if (castle_status b WK) z (z_castle WK) in
  let z := toggle_if (castle_status b WQ) z (z_castle WQ) in
  let z := toggle_if (castle_status b BK) z (z_castle BK) in
  let z := toggle_if (castle_status b BQ) z (z_castle BQ) in
  let z := match ep_file b with Some f => N.lxor z (z_ep f) | None => z end in
  toggle_if (color_eqb (current_turn b) White) z z_turn.

(* the starting position (Board::default / BoardBuilder::construct_starting_board().build()) *)
Definition start_bbs : PBB :=
  let wp := 0xFF00 in let wk := 0x10 in let wq := 0x08 in let wr := 0x81 in let wb := 0x24 in let wn := 0x42 in
  let bp := 0x00FF000000000000 in let bk := 0x1000000000000000 in let bq := 0x0800000000000000 in
  let br := 0x8100000000000000 in let bb := 0x2400000000000000 in let bn := 0x4200000000000000 in
  let w := N.lor (N.lor (N.lor (N.lor (N.lor wp wk) wq) wr) wb) wn in
  let k := N.lor (N.lor (N.lor (N.lor (N.lor bp bk) bq) br) bb) bn in
  mkPBB wp wk wq wr wn wb bp bk bq br bn bb w k (N.lor w k).
Definition start_board : Board :=
  let b := mkBoard White 1 None [ply_default] [] start_bbs 0 in
  with_key b (key_from_scratch b).
