(* CasesBoard.v — encoders and case runners the harness evaluates (vm_compute) for the
   board / move-generation / key / FEN correspondence (C01-C05, C07, C08). *)
From Coq Require Import NArith ZArith List Bool Ascii String.
Import ListNotations.
From RCE Require Import lib.Bits generated.Consts model.Tables model.Board model.Movegen model.Fen.
Open Scope N_scope.

Definition enc_bool (b : bool) : N := if b then 1 else 0.
Definition enc_kind (k : Kind) : N := N.of_nat (color_idx (snd k) * 6 + ptype_idx (fst k)).
Definition enc_okind (k : option Kind) : N := match k with Some x => enc_kind x + 1 | None => 0 end.
Definition enc_rights (r : Rights) : N :=
  enc_bool (r_wk r) + 2 * enc_bool (r_wq r) + 4 * enc_bool (r_bk r) + 8 * enc_bool (r_bq r).
Definition enc_sq (s : Square) : N := N.of_nat (rank s) * 8 + N.of_nat (file s).
Definition enc_ply (p : Ply) : list N :=
  [enc_sq (p_start p); enc_sq (p_dest p); enc_kind (p_piece p); enc_okind (p_captured p);
   enc_okind (p_promoted p);
   enc_bool (p_castles p) + 2 * enc_bool (p_ep p) + 4 * enc_bool (p_dpp p);
   p_halfmove p; enc_rights (p_rights p)].
Definition enc_ep (e : option nat) : N := match e with Some f => N.of_nat f + 1 | None => 0 end.
Definition enc_color (c : Color) : N := match c with White => 0 | Black => 1 end.
Definition enc_bbs (b : PBB) : list N :=
  [white_pawns b; white_king b; white_queens b; white_rooks b; white_knights b; white_bishops b;
   black_pawns b; black_king b; black_queens b; black_rooks b; black_knights b; black_bishops b;
   white_pieces b; black_pieces b; all_pieces b].

(* scalar fields, bitboards, both keys *)
Definition enc_core (b : Board) : list N :=
  [enc_color (current_turn b); fullmove b; enc_ep (ep_file b)] ++ enc_bbs (bbs b) ++ [zkey b].
(* full state: core, history oldest first, remembered positions (harness sorts them) *)
Definition enc_state (b : Board) : list N * list (list N) * list N :=
  (enc_core b, map enc_ply (rev (history b)), pos_hist b).
(* the same with the from-scratch key appended to the core *)
Definition enc_state_k (b : Board) : list N * list (list N) * list N :=
  (enc_core b ++ [key_from_scratch b], map enc_ply (rev (history b)), pos_hist b).

Definition board_eqb (a b : Board) : bool :=
  let ea := enc_state a in let eb := enc_state b in
  let leqb := fix leqb (x y : list N) : bool :=
      match x, y with
      | [], [] => true
      | u :: x', v :: y' => N.eqb u v && leqb x' y'
      | _, _ => false
      end in
  let lleqb := fix lleqb (x y : list (list N)) : bool :=
      match x, y with
      | [], [] => true
      | u :: x', v :: y' => leqb u v && lleqb x' y'
      | _, _ => false
      end in
  leqb (fst (fst ea)) (fst (fst eb)) && lleqb (snd (fst ea)) (snd (fst eb)) && leqb (snd ea) (snd eb).

Definition digest (l : list N) : N :=
  fold_left (fun h x => (h * 1000003 + x + 1) mod 2305843009213693951) l 7.

(* per legal move: the move, a digest of (core state ++ last history record) after making it,
   whether unmake restores the whole board, whether the mover's opponent is in check *)
Definition probe_move (b : Board) (m : Ply) : list N * N * N * N :=
  let b' := make_move b m in
  (enc_ply m, digest (enc_core b' ++ enc_ply (last_ply b')),
   match unmake_move b' with Some b'' => enc_bool (board_eqb b'' b) | None => 2 end,
   enc_bool (is_in_check b' (current_turn b'))).
(* the undigested version, for replays *)
Definition probe_move_full (b : Board) (m : Ply) : list N * list N * list N :=
  let b' := make_move b m in (enc_ply m, enc_core b', enc_ply (last_ply b')).

(* make two, unmake two *)
Definition nested_ok (b : Board) (m : Ply) : N :=
  let b1 := make_move b m in
  match get_legal_moves b1 with
  | [] => 1
  | m2 :: _ =>
    match unmake_move (make_move b1 m2) with
    | Some b1' => match unmake_move b1' with
                  | Some b'' => enc_bool (board_eqb b1' b1 && board_eqb b'' b)
                  | None => 2
                  end
    | None => 2
    end
  end.

Record Node := mkNode {
  n_state : list N * list (list N) * list N;
  n_moves : list (list N * N * N * N);
  n_pseudo : N;                 (* number of pseudo-legal moves *)
  n_checks : list N;            (* in check: white, black; attacked squares for white, black *)
  n_nested : list N }.

Definition node_of (b : Board) (deep : bool) : Node :=
  let legal := get_legal_moves b in
  mkNode (enc_state_k b) (map (probe_move b) legal) (N.of_nat (List.length (get_all_moves b)))
         [enc_bool (is_in_check b White); enc_bool (is_in_check b Black);
          attacked_squares b White; attacked_squares b Black]
         (if deep then map (nested_ok b) legal else []).

(* walk: apply the moves by notation through find_move (as Uci::load_position does); a node per
   position.  The trailing option is the notation that was not found, if any. *)
Fixpoint walk_nodes (b : Board) (ms : list string) (deep : bool) : list Node * option string :=
  match ms with
  | [] => ([node_of b deep], None)
  | m :: t =>
    match find_move b m with
    | None => ([node_of b deep], Some m)
    | Some p => let (ns, e) := walk_nodes (make_move b p) t deep in (node_of b deep :: ns, e)
    end
  end.

Definition flat_node (n : Node) :=
  (n_state n, n_moves n, n_pseudo n, n_checks n, n_nested n).

Definition walk_case (fen : string) (ms : list string) (deep : bool) :=
  match from_fen fen with
  | None => None
  | Some b => let (ns, e) := walk_nodes b ms deep in Some (map flat_node ns, e)
  end.

(* position after a move list without the per-node probes (cheap) *)
Fixpoint play (b : Board) (ms : list string) : option Board :=
  match ms with
  | [] => Some b
  | m :: t => match find_move b m with Some p => play (make_move b p) t | None => None end
  end.

(* ---- evaluation cases (C17) ---- *)
From Coq Require Import ZArith.
From RCE Require Import model.Eval.
Definition enc_zz (z : Z) : N * N := if (z <? 0)%Z then (1%N, Z.to_N (- z)) else (0%N, Z.to_N z).
Definition eval_case (fen : string) :=
  match from_fen fen with
  | None => None
  | Some b => Some (enc_zz (evaluate b), enc_zz (evaluate (mirror_board b)), enc_zz (evaluate (swap_turn b)),
                    enc_bool (material_bounded b), enc_bool (boards_lt64 (bbs b)), enc_bbs (mirror_bbs (bbs b)))
  end.
(* ---- FEN cases (C07): the full state the reader builds ---- *)
Definition fen_case (fen : string) :=
  match from_fen fen with None => None | Some b => Some (enc_state_k b) end.
