(* ChessSearchMut.v — the in-place search of SearchMut.v instantiated with the chess model:
   one Board threaded through make_move / unmake_move (model/Board.v), the legality probe of
   Board::is_legal_move (make_move; is_in_check(ply.piece.get_color()); unmake_move). *)
From Coq Require Import NArith ZArith List Bool.
Import ListNotations.
From RCE Require Import lib.Bits model.Board model.Movegen model.Eval model.Search model.SearchMut
  model.ChessSearch.

(* on the board after make_move(m): is the side that moved in check *)
Definition c_left_in_check (b1 : Board) (m : Ply) : bool := is_in_check b1 (snd (p_piece m)).

Definition c_quiescence_mut (lim : Limits) (clock : nat -> N) (ext_stop : nat -> bool) :=
  quiescence_mut Board Ply get_all_moves make_move unmake_move c_left_in_check evaluate is_capture
                 is_promotion cap_score ply_eqb zkey lim clock ext_stop.
Definition c_alpha_beta_mut (lim : Limits) (clock : nat -> N) (ext_stop : nat -> bool) (tt_on : bool) :=
  alpha_beta_mut Board Ply get_all_moves make_move unmake_move c_left_in_check c_in_check evaluate
                 is_capture is_promotion cap_score ply_eqb zkey halfmove_clock c_repeated ply_default
                 lim clock ext_stop tt_on.
Definition c_alpha_beta_start_mut (lim : Limits) (clock : nat -> N) (ext_stop : nat -> bool) (tt_on : bool) :=
  alpha_beta_start_mut Board Ply get_all_moves make_move unmake_move c_left_in_check c_in_check evaluate
                 is_capture is_promotion cap_score ply_eqb zkey halfmove_clock c_repeated ply_default
                 lim clock ext_stop tt_on.
Definition c_search_mut (lim : Limits) (clock : nat -> N) (ext_stop : nat -> bool) (tt_on : bool)
           (s0 : CSt) (b : Board) (max_depth : option nat) : option ((CSt * list (Output Ply)) * Board) :=
  search_mut Board Ply get_all_moves is_legal_move make_move unmake_move c_left_in_check c_in_check
             evaluate is_capture is_promotion cap_score ply_eqb zkey halfmove_clock c_repeated ply_default
             lim clock ext_stop tt_on s0 b max_depth.

(* the persistent counterparts (model/Search.v at the chess model) *)
Definition c_quiescence (lim : Limits) (clock : nat -> N) (ext_stop : nat -> bool) :=
  quiescence Board Ply get_all_moves is_legal_move make_move evaluate is_capture is_promotion cap_score
             ply_eqb zkey lim clock ext_stop.
Definition c_alpha_beta (lim : Limits) (clock : nat -> N) (ext_stop : nat -> bool) (tt_on : bool) :=
  alpha_beta Board Ply get_all_moves is_legal_move make_move c_in_check evaluate is_capture is_promotion
             cap_score ply_eqb zkey halfmove_clock c_repeated ply_default lim clock ext_stop tt_on.
Definition c_alpha_beta_start (lim : Limits) (clock : nat -> N) (ext_stop : nat -> bool) (tt_on : bool) :=
  alpha_beta_start Board Ply get_all_moves is_legal_move make_move c_in_check evaluate is_capture
             is_promotion cap_score ply_eqb zkey halfmove_clock c_repeated ply_default lim clock ext_stop tt_on.
