(* SearchMut.v — the search of search.rs AS THE CODE RUNS IT: one mutable board (`self.board`)
   is threaded through make_move / unmake_move, instead of the persistent positions of
   model/Search.v.  Function by function parallel to model/Search.v (same fuel, same inner
   loops, same state record St, the helpers aborted / order_moves / probe / tt_insert /
   store_killers / enter_node are those of model/Search.v); every value the persistent model
   reads from `p` (moves, in_check, evalf, key, halfmove, repeated) is read here from the CURRENT
   board.  Results are `option`: None as soon as an unmake fails (Board::unmake_move pops an
   empty undo stack = a panic in Rust).

   Where search.rs (line numbers of /repo/src/search.rs) makes and unmakes:
     Board::is_legal_move (board.rs 100-110): make_move; is_in_check(ply.piece.get_color());
                      unmake_move (on both outcomes)                          -> legal_mut
     quiescence       642 is_legal_move, 646 make_move, 652 recursion, 661 unmake_move,
                      664 score >= beta                                       -> quiescence_mut
     alpha_beta       475 is_legal_move, 480 make_move, 486-518 PVS calls, 521 unmake_move,
                      524 abort test (AFTER the unmake), 529 cutoff           -> alpha_beta_mut
     alpha_beta_start 286 is_legal_move, 291 make_move, 296-328 PVS calls, 331 abort test:
                      `return best_ply` at 337 WITHOUT unmaking; otherwise 340 score > alpha,
                      345 unmake_move                                         -> alpha_beta_start_mut
   So an interrupted root iteration leaves `self.board` one move deep.  iter_deep (221) tests
   the abort condition again and breaks; if that second test could come out false the next
   iteration would search the wrong position (iter_loop_mut keeps the board it is handed, so
   the model shows exactly that).  With a monotone clock and a monotone stop flag the second test
   is true whenever the first was (proofs/SearchMutProofs.v).

   get_pv (820-850) and the fallback of iter_deep (239-245) work on a SECOND board,
   `self.original_board`, which the search proper never touches; they are kept as in
   model/Search.v (persistent reads of the root position `p`, through `legal`). *)
From Coq Require Import NArith ZArith List Lia Bool FMapPositive.
Import ListNotations.
From RCE Require Import model.Search.
Open Scope Z_scope.

Section SearchMut.
  Variables pos mv : Type.
  Variable moves : pos -> list mv.            (* Board::get_all_moves, engine order *)
  Variable legal : pos -> mv -> bool.         (* Board::is_legal_move on original_board (get_pv, fallback) *)
  Variable make : pos -> mv -> pos.           (* Board::make_move *)
  Variable unmake : pos -> option pos.        (* Board::unmake_move; None = empty undo stack (panic) *)
  Variable left_in_check : pos -> mv -> bool. (* on the board AFTER make_move(m): is_in_check(m.piece.get_color()) *)
  Variable in_check : pos -> bool.
  Variable evalf : pos -> Z.
  Variable is_cap is_promo : mv -> bool.
  Variable cap_score : mv -> N.
  Variable mv_eqb : mv -> mv -> bool.
  Variable key : pos -> N.
  Variable halfmove : pos -> N.
  Variable repeated : pos -> bool.
  Variable default_mv : mv.

  Variable lim : Limits.
  Variable clock : nat -> N.
  Variable ext_stop : nat -> bool.
  Variable tt_on : bool.

  Local Notation State := (St mv).
  Local Notation abt := (aborted mv lim clock ext_stop).
  Local Notation order := (order_moves pos mv is_cap is_promo cap_score mv_eqb key).
  Local Notation tins := (tt_insert mv ext_stop).
  Local Notation skill := (store_killers mv is_cap is_promo mv_eqb).

  (* Board::is_legal_move on the live board: make, test the mover's king, unmake *)
  Definition legal_mut (b : pos) (m : mv) : option (bool * pos) :=
    let b1 := make b m in
    let ok := negb (left_in_check b1 m) in
    match unmake b1 with
    | Some b' => Some (ok, b')
    | None => None
    end.

  (* ---- quiescence ---- *)
  Fixpoint quiescence_mut (fuel : nat) (s : State) (b : pos) (alpha_start beta : Z) (ply : nat)
    : option (Z * State * pos) :=
    match fuel with
    | O => Some (0, s, b)
    | S f =>
      let (ab, s) := abt s ply in
      if ab then Some (0, s, b)
      else
        let score := evalf b in
        if score >=? beta then Some (beta, s, b)
        else
          let alpha := if score >? alpha_start then score else alpha_start in
          let ms := filter is_cap (moves b) in
          (fix loop (ms : list mv) (s : State) (b : pos) (alpha : Z) : option (Z * State * pos) :=
             match ms with
             | [] => Some (alpha, s, b)
             | m :: t =>
               match legal_mut b m with
               | None => None
               | Some (ok, b) =>
                 if negb ok then loop t s b alpha
                 else
                   let b1 := make b m in
                   let s := enter_node mv s (S ply) true in
                   match quiescence_mut f s b1 (sneg beta) (sneg alpha) (S ply) with
                   | None => None
                   | Some (r, s, b1') =>
                     match unmake b1' with
                     | None => None
                     | Some b =>
                       let sc := sneg r in
                       if sc >=? beta then Some (beta, s, b)
                       else loop t s b (if sc >? alpha then sc else alpha)
                     end
                   end
               end
             end) (order s b ply ms) s b alpha
    end.

  (* child_score of model/Search.v with the board threaded: a re-search runs on the board the
     first search left *)
  Definition child_score_mut (rec : State -> pos -> Z -> Z -> option (State * Z * pos))
             (s : State) (c : pos) (alpha beta : Z) (pvs : bool) : option (State * Z * pos) :=
    if pvs then
      match rec s c (sneg alpha - 1) (sneg alpha) with
      | None => None
      | Some (s1, r1, c1) =>
        let sc := sneg r1 in
        if (alpha <? sc) && (sc <? beta) then
          match rec s1 c1 (sneg beta) (sneg alpha) with
          | None => None
          | Some (s2, r2, c2) => Some (s2, sneg r2, c2)
          end
        else Some (s1, sc, c1)
      end
    else
      match rec s c (sneg beta) (sneg alpha) with
      | None => None
      | Some (s1, r1, c1) => Some (s1, sneg r1, c1)
      end.

  (* ---- alpha_beta ---- *)
  Fixpoint alpha_beta_mut (fuel : nat) (s : State) (b : pos) (alpha_start beta_start : Z) (depth ply : nat)
    : option (Z * State * pos) :=
    match fuel with
    | O => Some (0, s, b)
    | S f =>
      let (ab, s) := abt s ply in
      if ab then Some (0, s, b)
      else if N.leb 100 (halfmove b) then Some (0, s, b)
      else if repeated b then Some (0, s, b)
      else
        let s := if tt_on then s else set_tt mv s (PositiveMap.empty _) in
        match probe pos mv key s b depth alpha_start beta_start with
        | (Some v, _, _) => Some (v, s, b)
        | (None, alpha0, beta) =>
          let depth := if in_check b then S depth else depth in
          match depth with
          | O => quiescence_mut f s b alpha0 beta ply
          | S dm1 =>
            let ms := moves b in
            let best0 := match ms with m :: _ => m | [] => default_mv end in
            (fix loop (ms : list mv) (s : State) (b : pos) (alpha : Z) (best : mv) (pvs : bool) (cnt : nat)
               : option (Z * State * pos) :=
               match ms with
               | [] =>
                 match cnt with
                 | O => Some ((if in_check b then SCORE_MIN + Z.of_nat ply else 0), s, b)
                 | _ => Some (alpha, tins s (key b)
                                          (mkE mv alpha depth (if alpha <=? alpha_start then Upper else Exact) best), b)
                 end
               | m :: t =>
                 match legal_mut b m with
                 | None => None
                 | Some (ok, b) =>
                   if negb ok then loop t s b alpha best pvs cnt
                   else
                     let b1 := make b m in
                     let s := enter_node mv s (S ply) true in
                     match child_score_mut
                             (fun s c a bt => match alpha_beta_mut f s c a bt dm1 (S ply) with
                                              | Some (r, s', c') => Some (s', r, c')
                                              | None => None
                                              end)
                             s b1 alpha beta pvs with
                     | None => None
                     | Some (s, sc, b1') =>
                       (* line 521: unmake first, line 524: then the abort test *)
                       match unmake b1' with
                       | None => None
                       | Some b =>
                         let (ab, s) := abt s ply in
                         if ab then Some (0, s, b)
                         else if sc >=? beta then
                           Some (beta, skill (tins s (key b) (mkE mv sc depth Lower m)) ply m, b)
                         else if sc >? alpha then loop t s b sc m true (S cnt)
                         else loop t s b alpha best pvs (S cnt)
                       end
                     end
                 end
               end) (order s b ply ms) s b alpha0 best0 false O
          end
        end
    end.

  (* ---- alpha_beta_start (the root, ply 0): state and the board as it is left ---- *)
  Definition alpha_beta_start_mut (s : State) (b : pos) (depth : nat) : option (State * pos) :=
    let ms := moves b in
    match ms with
    | [] => Some (s, b)
    | m0 :: _ =>
      (fix loop (ms : list mv) (s : State) (b : pos) (alpha : Z) (best : mv) (pvs : bool) (cnt : nat)
         : option (State * pos) :=
         match ms with
         | [] =>
           match cnt with
           | O => Some (s, b)
           | _ =>
             let (ab, s) := abt s 0 in
             if ab then Some (s, b)
             else Some (set_best mv (tins s (key b) (mkE mv alpha depth Exact best)) (Some best) (Some alpha), b)
           end
         | m :: t =>
           match legal_mut b m with
           | None => None
           | Some (ok, b) =>
             if negb ok then loop t s b alpha best pvs cnt
             else
               let b1 := make b m in
               let s := enter_node mv s 1 false in
               match child_score_mut
                       (fun s c a bt => match alpha_beta_mut FUEL s c a bt (pred depth) 1 with
                                        | Some (r, s', c') => Some (s', r, c')
                                        | None => None
                                        end)
                       s b1 alpha SCORE_MAX pvs with
               | None => None
               | Some (s, sc, b1') =>
                 let (ab, s) := abt s 0 in
                 if ab then
                   (* lines 331-338: returns with the move still made *)
                   Some (match best_score mv s with
                         | Some bs => if alpha >? bs then set_best mv s (Some best) (Some alpha) else s
                         | None => s
                         end, b1')
                 else
                   (* line 345 *)
                   match unmake b1' with
                   | None => None
                   | Some b =>
                     if sc >? alpha then loop t s b sc m true (S cnt)
                     else loop t s b alpha best pvs (S cnt)
                   end
               end
           end
         end) (order s b 0%nat ms) s b SCORE_MIN m0 false O
    end.

  (* ---- iter_deep: `b` is self.board (whatever the previous iteration left), `p` is
     self.original_board ---- *)
  Fixpoint iter_loop_mut (n : nat) (d : nat) (s : State) (b : pos) (p : pos) (out : list (Output mv))
    : option (State * list (Output mv) * pos) :=
    match n with
    | O => Some (s, out, b)
    | S n' =>
      match alpha_beta_start_mut s b d with
      | None => None
      | Some (s, b) =>
        let (ab, s) := abt s 0 in
        if ab then Some (s, out, b)
        else iter_loop_mut n' (S d) s b p (info_line mv s d (get_pv pos mv legal make key s p d) :: out)
      end
    end.

  (* Search::new clones the given board twice (board, original_board); Search::search.
     Returns the state, the output (oldest first) and self.board as the search leaves it. *)
  Definition search_mut (s0 : State) (p : pos) (max_depth : option nat)
    : option ((State * list (Output mv)) * pos) :=
    let n := match max_depth with Some d => d | None => 255%nat end in
    match iter_loop_mut n 1 s0 p p [] with
    | None => None
    | Some (s, out, b) =>
      Some ((set_running mv s false, rev (Bestmove mv (announced pos mv moves legal default_mv s p) :: out)), b)
    end.
End SearchMut.
