(* CasesSpec.v — the abstraction from the model board to the rules-level position, and the
   comparison of the model's move generation / make_move with spec/Rules.v that the harness
   evaluates on every visited position (validation of the refinement theorems' statements, and
   the witness search when they or the correspondence break). *)
From Coq Require Import NArith ZArith List Bool.
Import ListNotations.
From RCE Require Import lib.Bits lib.Geometry model.Board model.Movegen model.Wf model.WfFull spec.Rules model.Abs.

Definition opt_eqb {A} (f : A -> A -> bool) (a b : option A) : bool :=
  match a, b with Some x, Some y => f x y | None, None => true | _, _ => false end.
Definition move_eqb (a b : Move) : bool :=
  Nat.eqb (m_from a) (m_from b) && Nat.eqb (m_to a) (m_to b) && opt_eqb ptype_eqb (m_promo a) (m_promo b).
Fixpoint cells_eqb (a b : list (option Kind)) : bool :=
  match a, b with
  | [], [] => true
  | x :: a', y :: b' => okind_eqb x y && cells_eqb a' b'
  | _, _ => false
  end.
Definition pos_eqb (a b : Pos) : bool :=
  cells_eqb (cells a) (cells b) && color_eqb (side a) (side b) && rights_eqb (rights a) (rights b)
  && opt_eqb Nat.eqb (ep a) (ep b) && N.eqb (halfmove a) (halfmove b) && N.eqb (fullmove a) (fullmove b).

Definition subset (a b : list Move) : bool := forallb (fun x => existsb (move_eqb x) b) a.
Fixpoint nodupb (l : list Move) : bool :=
  match l with [] => true | x :: t => negb (existsb (move_eqb x) t) && nodupb t end.

(* each entry must be true:
   legal sets equal / no duplicates / check status of both colours / make_move refines apply for
   every legal move / move flags and captured piece agree with the rules' classification /
   well-formedness of the board and of every pseudo-legal move (the theorems' hypotheses) *)
Definition spec_check (b : Board) : list bool :=
  let p := abs b in
  let lm := legal_moves p in
  let em := get_legal_moves b in
  let emm := map move_of em in
  [ subset lm emm && subset emm lm;
    nodupb emm;
    Bool.eqb (is_in_check b White) (in_check (cells p) White);
    Bool.eqb (is_in_check b Black) (in_check (cells p) Black);
    forallb (fun m => pos_eqb (abs (make_move b m)) (apply p (move_of m))) em;
    forallb (fun m => Bool.eqb (p_castles m) (is_castle (cells p) (move_of m))
                      && Bool.eqb (p_ep m) (is_ep p (move_of m))
                      && Bool.eqb (p_dpp m) (is_double_push (cells p) (move_of m))
                      && Bool.eqb (is_capture m) (is_capture_move p (move_of m))) em;
    wfb b && forallb (move_okb b) (get_all_moves b);
    (* the rules-level side conditions: informational (probe positions may violate them on purpose) *)
    wf_rules b;
    (* ... and they are preserved by every legal move *)
    negb (wf_rules b) || forallb (fun m => wf_rules (make_move b m)) em ].

From Coq Require Import String.
From RCE Require Import model.Fen.
(* spec_check at every position of a walk *)
Fixpoint spec_walk (b : Board) (ms : list string) : list (list bool) :=
  spec_check b ::
  match ms with
  | [] => []
  | m :: t => match find_move b m with Some p => spec_walk (make_move b p) t | None => [] end
  end.
Definition spec_case (fen : string) (ms : list string) : option (list (list bool)) :=
  match from_fen fen with Some b => Some (spec_walk b ms) | None => None end.
