(* CasesUci.v — encoders / runners evaluated by the harness for the UCI correspondence (C08, C15). *)
From Coq Require Import NArith List Bool Ascii String.
Import ListNotations.
From RCE Require Import lib.Bits model.Board model.Movegen model.Fen model.Uci model.CasesBoard.
Open Scope string_scope.

Definition enc_cmd (o : Outcome Command) : N * list (option N) * list string * option (list string) :=
  match o with
  | Err => (0%N, [], [], None)
  | Panic => (1%N, [], [], None)
  | Ok CUci => (2%N, [], [], None)
  | Ok CIsReady => (3%N, [], [], None)
  | Ok CNewGame => (4%N, [], [], None)
  | Ok (CSetOption n v) => (5%N, [], [n], match v with Some x => Some [x] | None => None end)
  | Ok (CPosition StartPos ms) => (6%N, [], [], ms)
  | Ok (CPosition (FenPos f) ms) => (7%N, [], [f], ms)
  | Ok (CGo l) => (8%N, [g_depth l; g_nodes l; g_movetime l; g_wtime l; g_btime l; g_winc l; g_binc l], [], None)
  | Ok CStop => (9%N, [], [], None)
  | Ok CQuit => (10%N, [], [], None)
  end.
Definition parse_case (line : string) := enc_cmd (parse_command (tokens line)).

(* a session: run the command loop on the lines, report how it ended, the final board and the
   number of readyok answers *)
Definition session_case (lines : list string) :=
  let '(e, s) := uci_loop (S (List.length lines)) init_session lines in
  ((match e with EndQuit => 0 | EndEof => 1 | EndSpin => 2 | EndCrash => 3 end)%N,
   enc_state_k (s_board s), N.of_nat (count_readyok s)).
