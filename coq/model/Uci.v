(* Uci.v — executable model of uci/uci_command.rs (UCICommand::new, parse_option, parse_position,
   parse_go) and of the sequential part of uci.rs (uci_loop, execute_command, load_position).
   Panics are values: every slice and index of the Rust code is modelled by an operation that
   yields Panic when out of bounds, every unwrap/assert by an explicit Panic branch; the theorems
   say Panic is never produced.  Mirrors the tree AFTER the fix: commits.  The search thread is
   abstracted here (Go only records the accepted request); the thread protocol is model/Threads.v.
   Input is ASCII (non-ASCII bytes are outside the model). *)
From Coq Require Import NArith List Lia Bool Ascii String.
Import ListNotations.
From RCE Require Import lib.Bits model.Board model.Movegen model.Fen.
Open Scope string_scope.

Inductive Outcome (A : Type) := Ok (a : A) | Err | Panic.
Arguments Ok {A} a.
Arguments Err {A}.
Arguments Panic {A}.

(* &args[i..j], &args[i..], args[i] *)
Definition slice {A} (l : list A) (i j : nat) : Outcome (list A) :=
  if Nat.leb i j && Nat.leb j (List.length l) then Ok (firstn (j - i) (skipn i l)) else Panic.
Definition slice_from {A} (l : list A) (i : nat) : Outcome (list A) :=
  if Nat.leb i (List.length l) then Ok (skipn i l) else Panic.
Definition index {A} (l : list A) (i : nat) : Outcome A :=
  match nth_error l i with Some x => Ok x | None => Panic end.
Definition bind {A B} (o : Outcome A) (f : A -> Outcome B) : Outcome B :=
  match o with Ok a => f a | Err => Err | Panic => Panic end.

Definition join (l : list string) : string := String.concat " " l.
Definition lower_char (c : ascii) : ascii :=
  let n := nat_of_ascii c in if Nat.leb 65 n && Nat.leb n 90 then ascii_of_nat (n + 32) else c.
Fixpoint to_lower (s : string) : string :=
  match s with EmptyString => EmptyString | String c t => String (lower_char c) (to_lower t) end.

(* str::parse for an unsigned integer type with maximum `max` *)
Fixpoint digits_max (max : N) (s : string) (acc : N) : option N :=
  match s with
  | EmptyString => Some acc
  | String c t =>
    let n := nat_of_ascii c in
    if Nat.leb 48 n && Nat.leb n 57 then
      let v := (acc * 10 + N.of_nat (n - 48))%N in
      if N.leb v max then digits_max max t v else None
    else None
  end.
Definition parse_uint (max : N) (s : string) : option N :=
  match s with
  | EmptyString => None
  | String "+"%char EmptyString => None
  | String "+"%char t => digits_max max t 0
  | _ => digits_max max s 0
  end.
Definition U8_MAX : N := 255.
Definition U64_MAX : N := 18446744073709551615.
Definition U128_MAX : N := 340282366920938463463374607431768211455.

Record GoLimits := mkGo {
  g_depth : option N; g_nodes : option N; g_movetime : option N;
  g_wtime : option N; g_btime : option N; g_winc : option N; g_binc : option N }.
Definition go_empty : GoLimits := mkGo None None None None None None None.

Inductive PosKind := StartPos | FenPos (fen : string).
Inductive Command :=
| CUci | CIsReady | CNewGame
| CSetOption (name : string) (value : option string)
| CPosition (k : PosKind) (moves : option (list string))
| CGo (l : GoLimits)
| CStop | CQuit.

Fixpoint position_of (x : string) (l : list string) (i : nat) : option nat :=
  match l with
  | [] => None
  | h :: t => if String.eqb h x then Some i else position_of x t (S i)
  end.

(* parse_option (args = tokens after "setoption") *)
Definition parse_option (args : list string) : Outcome Command :=
  if Nat.ltb (List.length args) 2 then Err
  else match position_of "name" args 0 with
       | None => Err
       | Some name_idx =>
         if Nat.ltb (List.length args) (name_idx + 2) then Err
         else
           let value_idx := position_of "value" args 0 in
           bind (match value_idx with
                 | Some i => if Nat.ltb i (List.length args)
                             then bind (slice_from args (i + 1)) (fun l => Ok (Some (to_lower (join l))))
                             else Err
                 | None => Ok None
                 end)
                (fun value =>
                   bind (match value_idx with
                         | Some e => if Nat.ltb name_idx e then slice args (name_idx + 1) e else Err
                         | None => slice_from args (name_idx + 1)
                         end)
                        (fun l =>
                           let name := to_lower (join l) in
                           if String.eqb name "" then Err else Ok (CSetOption name value)))
       end.

(* parse_position (args = tokens after "position") *)
Definition parse_position (args : list string) : Outcome Command :=
  match args with
  | [] => Err
  | _ =>
    bind (index args 0)
         (fun a0 =>
            bind (if String.eqb a0 "startpos" then Ok StartPos
                  else if String.eqb a0 "fen" then
                         (if Nat.ltb (List.length args) 7 then Err
                          else bind (slice args 1 7) (fun l => Ok (FenPos (join l))))
                       else Err)
                 (fun kind =>
                    match kind with
                    | StartPos =>
                      if Nat.ltb 2 (List.length args) then
                        bind (index args 1)
                             (fun a1 => if String.eqb a1 "moves"
                                        then bind (slice_from args 2) (fun l => Ok (CPosition kind (Some l)))
                                        else Ok (CPosition kind None))
                      else Ok (CPosition kind None)
                    | FenPos _ =>
                      if Nat.ltb 8 (List.length args) then
                        bind (index args 7)
                             (fun a7 => if String.eqb a7 "moves"
                                        then bind (slice_from args 8) (fun l => Ok (CPosition kind (Some l)))
                                        else Ok (CPosition kind None))
                      else Ok (CPosition kind None)
                    end))
  end.

Definition set_go (l : GoLimits) (kw : string) (v : N) : GoLimits :=
  if String.eqb kw "wtime" then mkGo (g_depth l) (g_nodes l) (g_movetime l) (Some v) (g_btime l) (g_winc l) (g_binc l)
  else if String.eqb kw "btime" then mkGo (g_depth l) (g_nodes l) (g_movetime l) (g_wtime l) (Some v) (g_winc l) (g_binc l)
  else if String.eqb kw "winc" then mkGo (g_depth l) (g_nodes l) (g_movetime l) (g_wtime l) (g_btime l) (Some v) (g_binc l)
  else if String.eqb kw "binc" then mkGo (g_depth l) (g_nodes l) (g_movetime l) (g_wtime l) (g_btime l) (g_winc l) (Some v)
  else if String.eqb kw "depth" then mkGo (Some v) (g_nodes l) (g_movetime l) (g_wtime l) (g_btime l) (g_winc l) (g_binc l)
  else if String.eqb kw "nodes" then mkGo (g_depth l) (Some v) (g_movetime l) (g_wtime l) (g_btime l) (g_winc l) (g_binc l)
  else if String.eqb kw "movetime" then mkGo (g_depth l) (g_nodes l) (Some v) (g_wtime l) (g_btime l) (g_winc l) (g_binc l)
  else l.
Definition go_valued (kw : string) : option N :=      (* the maximum of the value's integer type *)
  if String.eqb kw "wtime" || String.eqb kw "btime" || String.eqb kw "winc" || String.eqb kw "binc"
     || String.eqb kw "movetime" then Some U128_MAX
  else if String.eqb kw "depth" then Some U8_MAX
  else if String.eqb kw "nodes" then Some U64_MAX
  else None.
Definition go_ignored (kw : string) : bool :=
  String.eqb kw "searchmoves" || String.eqb kw "ponder" || String.eqb kw "movestogo" || String.eqb kw "mate".

(* parse_go: `while idx < args.len() { let token = args[idx]; ... idx += 1 }` *)
Fixpoint parse_go_loop (fuel : nat) (args : list string) (i : nat) (l : GoLimits) : Outcome Command :=
  match fuel with
  | O => Panic                                  (* never reached: fuel = length args + 1 *)
  | S f =>
    if Nat.ltb i (List.length args) then
      bind (index args i)
           (fun token =>
              if go_ignored token then parse_go_loop f args (S i) l
              else match go_valued token with
                   | Some max =>
                     match nth_error args (S i) with          (* args.get(idx) *)
                     | None => Err
                     | Some v => match parse_uint max v with
                                 | Some n => parse_go_loop f args (S (S i)) (set_go l token n)
                                 | None => Err
                                 end
                     end
                   | None => if String.eqb token "infinite" then Ok (CGo go_empty) else Err
                   end)
    else Ok (CGo l)
  end.
Definition parse_go (args : list string) : Outcome Command :=
  parse_go_loop (S (List.length args)) args 0 go_empty.

(* UCICommand::new *)
Definition parse_command (args : list string) : Outcome Command :=
  match args with
  | [] => Err
  | _ =>
    bind (index args 0)
         (fun c =>
            if String.eqb c "uci" then Ok CUci
            else if String.eqb c "isready" then Ok CIsReady
            else if String.eqb c "ucinewgame" then Ok CNewGame
            else if String.eqb c "setoption" then bind (slice_from args 1) parse_option
            else if String.eqb c "position" then bind (slice_from args 1) parse_position
            else if String.eqb c "go" then bind (slice_from args 1) parse_go
            else if String.eqb c "stop" then Ok CStop
            else if String.eqb c "quit" then Ok CQuit
            else Err)
  end.

(* ---------------- the sequential session ---------------- *)
Inductive Event :=
| EReadyOk | EUciOk | EErrorLine                    (* what was written *)
| EGo (b : Board) (l : GoLimits) | EStop.            (* requests handed to the search side *)

Record Session := mkSession { s_board : Board; s_events : list Event }.   (* newest first *)
Definition init_session : Session := mkSession start_board [].
Definition emit (s : Session) (e : Event) : Session := mkSession (s_board s) (e :: s_events s).

(* Uci::load_position: apply the moves on a scratch board, commit only on success.
   Panic = Board::from_fen panicked (invalid FEN; the property assumes valid FEN arguments) *)
Fixpoint apply_moves (b : Board) (ms : list string) : Outcome Board :=
  match ms with
  | [] => Ok b
  | m :: t => match find_move b m with
              | Some p => apply_moves (make_move b p) t
              | None => Err
              end
  end.
Definition load_position (k : PosKind) (moves : option (list string)) : Outcome Board :=
  bind (match k with
        | StartPos => Ok start_board
        | FenPos f => match from_fen f with Some b => Ok b | None => Panic end
        end)
       (fun b => apply_moves b (match moves with Some l => l | None => [] end)).

Definition execute (s : Session) (c : Command) : Outcome Session :=
  match c with
  | CUci => Ok (emit s EUciOk)
  | CIsReady => Ok (emit s EReadyOk)
  | CNewGame => Ok (mkSession start_board (s_events s))
  | CPosition k ms => bind (load_position k ms) (fun b => Ok (mkSession b (s_events s)))
  | CGo l => Ok (emit s (EGo (s_board s) l))
  | CStop => Ok (emit s EStop)
  | CSetOption _ _ => Ok (emit s EErrorLine)          (* "Setting options is not implemented yet" *)
  | CQuit => Panic                                     (* unreachable!(): handled by the loop *)
  end.

Definition is_space (c : ascii) : bool :=
  let n := nat_of_ascii c in Nat.eqb n 32 || (Nat.leb 9 n && Nat.leb n 13).
Fixpoint tokens_aux (s : string) (cur : string) (acc : list string) : list string :=
  match s with
  | EmptyString => rev (if String.eqb cur "" then acc else cur :: acc)
  | String c t =>
    if is_space c then tokens_aux t "" (if String.eqb cur "" then acc else cur :: acc)
    else tokens_aux t (cur ++ String c EmptyString) acc
  end.
(* line.trim().split_whitespace() *)
Definition tokens (line : string) : list string := tokens_aux line "" [].

(* one iteration of the command loop on one line *)
Inductive Step := SCont (s : Session) | SQuit | SCrash.
Definition step (s : Session) (line : string) : Step :=
  match parse_command (tokens line) with
  | Panic => SCrash
  | Err => SCont (emit s EErrorLine)                  (* "Failed to parse command" and continue *)
  | Ok CQuit => SQuit
  | Ok c => match execute s c with
            | Panic => SCrash
            | Err => SCont (emit s EErrorLine)        (* "Failed to execute command" and continue *)
            | Ok s' => SCont s'
            end
  end.

Inductive LoopEnd := EndQuit | EndEof | EndSpin | EndCrash.

(* uci_loop: the input is the list of lines still to be read; [] = end of input, where read_line
   returns 0 (after the repair: break).  One unit of fuel per loop iteration; EndSpin = the fuel
   ran out, i.e. the loop did not end. *)
Fixpoint uci_loop (fuel : nat) (s : Session) (input : list string) : LoopEnd * Session :=
  match fuel with
  | O => (EndSpin, s)
  | S f =>
    match input with
    | [] => (EndEof, s)
    | line :: rest =>
      match step s line with
      | SCont s' => uci_loop f s' rest
      | SQuit => (EndQuit, s)
      | SCrash => (EndCrash, s)
      end
    end
  end.

(* bookkeeping for the statements: the lines read before the first quit, and how many of them
   are isready *)
Definition is_cmd (line : string) (c : Command) : bool :=
  match parse_command (tokens line), c with
  | Ok CQuit, CQuit => true
  | Ok CIsReady, CIsReady => true
  | _, _ => false
  end.
Fixpoint before_quit (input : list string) : list string :=
  match input with
  | [] => []
  | l :: t => if is_cmd l CQuit then [] else l :: before_quit t
  end.
Definition count_ready (lines : list string) : nat := List.length (filter (fun l => is_cmd l CIsReady) lines).
Definition count_readyok (s : Session) : nat :=
  List.length (filter (fun e => match e with EReadyOk => true | _ => false end) (s_events s)).
(* every FEN given to a position command is one the reader accepts (the property assumes valid FEN) *)
Definition fens_valid (input : list string) : Prop :=
  forall line f ms, In line input -> parse_command (tokens line) = Ok (CPosition (FenPos f) ms) ->
                    from_fen f <> None.
