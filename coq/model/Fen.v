(* Fen.v — executable model of board/serialize.rs (Board::from_fen and its field readers),
   boardbuilder.rs build() and piece_bitboards/builder.rs build().  None = a panic of the reader
   (unknown character, missing field, number that does not parse, index arithmetic underflow). *)
From Coq Require Import NArith ZArith List Lia Bool Ascii String.
Import ListNotations.
From RCE Require Import lib.Bits model.Board.
Open Scope N_scope.

Definition is_ws (c : ascii) : bool :=
  let n := nat_of_ascii c in
  Nat.eqb n 32 || Nat.eqb n 9 || Nat.eqb n 10 || Nat.eqb n 12 || Nat.eqb n 13.

(* str::split_ascii_whitespace *)
Fixpoint split_ws_aux (s : string) (cur : string) (acc : list string) : list string :=
  match s with
  | EmptyString => rev (if String.eqb cur "" then acc else cur :: acc)
  | String c t =>
    if is_ws c then split_ws_aux t "" (if String.eqb cur "" then acc else cur :: acc)
    else split_ws_aux t (cur ++ String c EmptyString) acc
  end.
Definition split_ws (s : string) : list string := split_ws_aux s "" [].

(* the twelve accumulators of piece_placement, indexed by Kind *)
Definition acc12 := Kind -> N.
Definition acc_empty : acc12 := fun _ => 0.
Definition acc_or (a : acc12) (k : Kind) (m : N) : acc12 :=
  fun k' => if kind_eqb k k' then N.lor (a k') m else a k'.

Definition fen_piece (c : ascii) : option Kind :=
  match c with
  | "P" => Some (Pawn, White) | "K" => Some (King, White) | "Q" => Some (Queen, White)
  | "R" => Some (Rook, White) | "B" => Some (Bishop, White) | "N" => Some (Knight, White)
  | "p" => Some (Pawn, Black) | "k" => Some (King, Black) | "q" => Some (Queen, Black)
  | "r" => Some (Rook, Black) | "b" => Some (Bishop, Black) | "n" => Some (Knight, Black)
  | _ => None
  end%char.

(* piece_placement: idx : u64; mask = 1 << (8*(7 - idx/8) + idx%8) (7 - idx/8 underflows for
   idx >= 64: debug panic, so None) *)
Fixpoint placement (s : string) (i : N) (a : acc12) : option acc12 :=
  match s with
  | EmptyString => Some a
  | String c t =>
    let n := nat_of_ascii c in
    if N.leb 64 i then None
    else match fen_piece c with
         | Some k => placement t (i + 1) (acc_or a k (N.shiftl 1 (8 * (7 - i / 8) + i mod 8)))
         | None =>
           if Nat.leb 49 n && Nat.leb n 56 then placement t (i + N.of_nat (n - 48)) a   (* '1'..'8' *)
           else if Nat.eqb n 47 then (if N.eqb i 0 then None else placement t i a)       (* '/' : idx -= 1; idx += 1 *)
           else None
         end
  end.

Definition build_bbs (a : acc12) : PBB :=
  let g := a in
  let w := N.lor (N.lor (N.lor (N.lor (N.lor (g (Pawn, White)) (g (King, White))) (g (Queen, White)))
                               (g (Rook, White))) (g (Bishop, White))) (g (Knight, White)) in
  let k := N.lor (N.lor (N.lor (N.lor (N.lor (g (Pawn, Black)) (g (King, Black))) (g (Queen, Black)))
                               (g (Rook, Black))) (g (Bishop, Black))) (g (Knight, Black)) in
  mkPBB (g (Pawn, White)) (g (King, White)) (g (Queen, White)) (g (Rook, White)) (g (Knight, White))
        (g (Bishop, White)) (g (Pawn, Black)) (g (King, Black)) (g (Queen, Black)) (g (Rook, Black))
        (g (Knight, Black)) (g (Bishop, Black)) w k (N.lor w k).

Definition fen_turn (s : string) : option Color :=
  match s with
  | EmptyString => Some White
  | String "w"%char _ => Some White
  | String "b"%char _ => Some Black
  | _ => None
  end.

Fixpoint fen_rights (s : string) (r : Rights) : option Rights :=
  match s with
  | EmptyString => Some r
  | String c t =>
    match c with
    | "K"%char => fen_rights t (mkRights true (r_wq r) (r_bk r) (r_bq r))
    | "k"%char => fen_rights t (mkRights (r_wk r) (r_wq r) true (r_bq r))
    | "Q"%char => fen_rights t (mkRights (r_wk r) true (r_bk r) (r_bq r))
    | "q"%char => fen_rights t (mkRights (r_wk r) (r_wq r) (r_bk r) true)
    | "-"%char => fen_rights t r
    | _ => None
    end
  end.

Definition fen_ep (s : string) : option (option nat) :=
  match s with
  | EmptyString => Some None
  | String c _ =>
    let n := nat_of_ascii c in
    if Nat.eqb n 45 then Some None
    else if Nat.leb 97 n && Nat.leb n 104 then Some (Some (n - 97)%nat)
    else None
  end.

(* str::parse::<u16>(): optional '+', at least one digit, no overflow *)
Fixpoint digits (s : string) (acc : N) : option N :=
  match s with
  | EmptyString => Some acc
  | String c t =>
    let n := nat_of_ascii c in
    if Nat.leb 48 n && Nat.leb n 57 then
      let v := acc * 10 + N.of_nat (n - 48) in
      if N.leb v 65535 then digits t v else None
    else None
  end.
Definition parse_u16 (s : string) : option N :=
  match s with
  | EmptyString => None
  | String "+"%char EmptyString => None
  | String "+"%char t => digits t 0
  | _ => digits s 0
  end.

Definition from_fen_fields (fields : list string) : option Board :=
  match fields with
  | f0 :: f1 :: f2 :: f3 :: rest =>
    match placement f0 0 acc_empty, fen_turn f1, fen_rights f2 (mkRights false false false false), fen_ep f3,
          parse_u16 (nth 0 rest "0"%string), parse_u16 (nth 1 rest "1"%string) with
    | Some a, Some turn, Some rights, Some ep, Some hm, Some fm =>
      let ply :=
        match ep with
        | Some f =>
          match turn with
          | White => mkPly (mkSq 1 f) (mkSq 3 f) (Pawn, White) None None false false true hm rights
          | Black => mkPly (mkSq 6 f) (mkSq 4 f) (Pawn, Black) None None false false true hm rights
          end
        | None => mkPly (mkSq 0 0) (mkSq 0 0) (Pawn, turn) None None false false false hm rights
        end in
      let b := mkBoard turn fm ep [ply] [] (build_bbs a) 0 in
      Some (with_key b (key_from_scratch b))
    | _, _, _, _, _, _ => None
    end
  | _ => None
  end.
Definition from_fen (s : string) : option Board := from_fen_fields (split_ws s).
