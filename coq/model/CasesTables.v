(* CasesTables.v — functions the harness evaluates (vm_compute) for the C06 correspondence. *)
From Coq Require Import NArith ZArith List Bool.
Import ListNotations.
From RCE Require Import lib.Bits lib.Geometry generated.Consts model.Tables proofs.TablesProofs.
Open Scope N_scope.

(* engine lookups (square, occupancy, result or None for a panic) that differ from the
   geometric attack set *)
Definition bad_lookups (dirs : list (Z * Z)) (l : list (nat * N * option N)) : list (nat * N) :=
  flat_map (fun c => match c with
                     | (s, occ, Some a) => if N.eqb a (geo dirs s occ) then [] else [(s, occ)]
                     | (s, occ, None) => [(s, occ)]
                     end) l.

(* model values for one random full-board occupancy *)
Definition occ_case (c : nat * N) : list N :=
  let (s, occ) := c in
  [geo rook_dirs s occ; geo bishop_dirs s occ;
   N.lor (geo rook_dirs s occ) (geo bishop_dirs s occ);
   rook_slow s occ; bishop_slow s occ].

(* the mirrored magic lookup itself (slow: rebuilds the square's table) *)
Definition magic_case (c : nat * N) : list (option N) :=
  let (s, occ) := c in [rook_get_attacks s occ; bishop_get_attacks s occ; queen_get_attacks s occ].

(* dumped leaper / ray / mask tables against the geometric specification *)
Definition tables_bad : list (N * nat) :=
  let chk (tag : N) (tbl : list N) (spec : nat -> N) :=
      map (fun s => (tag, s)) (filter (fun s => negb (N.eqb (nth s tbl 0) (spec s))) (seq 0 64)) in
  chk 1 gen_knight (fun s => set_of (leaper_targets knight_deltas s)) ++
  chk 2 gen_king (fun s => set_of (leaper_targets king_deltas s)) ++
  chk 3 gen_wpawn (fun s => set_of (leaper_targets wpawn_deltas s)) ++
  chk 4 gen_bpawn (fun s => set_of (leaper_targets bpawn_deltas s)) ++
  chk 5 gen_rook_masks (fun s => set_of (slider_mask rook_dirs s)) ++
  chk 6 gen_bishop_masks (fun s => set_of (slider_mask bishop_dirs s)) ++
  flat_map (fun d => chk (10 + N.of_nat d) (map (fun r => nth d r 0) gen_rays)
                         (fun s => set_of (ray_list s (nth d dir8 (0,0)%Z)))) (seq 0 8).

(* witnesses for a failing sweep *)
Definition first_bad_rook := first_bad rook_dirs rook_mask_model rook_slow rook_magics rook_bits rook_size.
Definition first_bad_bishop := first_bad bishop_dirs bishop_mask_model bishop_slow bishop_magics bishop_bits bishop_size.
