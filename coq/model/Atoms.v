(* Atoms.v — the key as "XOR of the table words of the atoms present".  An atom is an index into
   the 781-word table: a (colour, piece type, square) triple, one of the four castling rights,
   one of the eight en-passant files, or "White to move". *)
From Coq Require Import NArith List Bool Arith.
Import ListNotations.
From RCE Require Import lib.Bits generated.ZTable model.Board.
Open Scope N_scope.

Definition piece_atom (k : Kind) (i : nat) : nat := (color_idx (snd k) * 384 + ptype_idx (fst k) * 64 + i)%nat.
Definition right_atom (k : CastlingKind) : nat := (768 + ck_idx k)%nat.
Definition ep_atom (f : nat) : nat := (772 + f)%nat.
Definition turn_atom : nat := 780%nat.

Definition atoms (b : Board) : list nat :=
  flat_map (fun i => match get_piece b (sq_of_idx i) with Some k => [piece_atom k i] | None => [] end) (seq 0 64)
  ++ (if castle_status b WK then [right_atom WK] else [])
  ++ (if castle_status b WQ then [right_atom WQ] else [])
  ++ (if castle_status b BK then [right_atom BK] else [])
  ++ (if castle_status b BQ then [right_atom BQ] else [])
  ++ (match ep_file b with Some f => [ep_atom f] | None => [] end)
  ++ (if color_eqb (current_turn b) White then [turn_atom] else []).

Definition xor_atoms (l : list nat) : N := fold_left (fun acc a => N.lxor acc (zt a)) l 0.

Definition memn (a : nat) (l : list nat) : bool := existsb (Nat.eqb a) l.
(* atoms present in exactly one of the two positions *)
Definition sym_diff (l1 l2 : list nat) : list nat :=
  filter (fun a => negb (memn a l2)) l1 ++ filter (fun a => negb (memn a l1)) l2.

(* ---- the finite table condition, decided by computation on the generated table ---- *)
Definition words : list N := gen_ztable.
Definition nwords : nat := 781.

(* all unordered pairs i < j of table indices with the XOR of their words *)
Definition pair_xors : list N :=
  flat_map (fun i => map (fun j => N.lxor (nth i words 0) (nth j words 0)) (seq (S i) (nwords - S i))) (seq 0 nwords).

From Coq Require Import FSets.FSetPositive.
Fixpoint all_distinct_nonzero (l : list N) (seen : PositiveSet.t) : bool :=
  match l with
  | [] => true
  | 0 :: _ => false
  | Npos p :: t => if PositiveSet.mem p seen then false else all_distinct_nonzero t (PositiveSet.add p seen)
  end.
Definition set_of_list (l : list N) : PositiveSet.t :=
  fold_left (fun s x => match x with 0 => s | Npos p => PositiveSet.add p s end) l PositiveSet.empty.

(* (1) the table has 781 words, all non-zero and below 2^64; (2) all pairwise XORs are non-zero and
   pairwise distinct; (3) no word equals the XOR of two words.  Together: no XOR of 1, 2, 3 or 4
   distinct words is 0. *)
Definition table_ok : bool :=
  Nat.eqb (length words) nwords
  && forallb (fun w => negb (N.eqb w 0) && N.ltb w 18446744073709551616) words
  && all_distinct_nonzero pair_xors PositiveSet.empty
  && (let s := set_of_list pair_xors in
      forallb (fun w => match w with 0 => false | Npos p => negb (PositiveSet.mem p s) end) words).
