(* Tables.v — executable model of the attack tables, mirroring the Rust code function by
   function: square/rays.rs init_rays, piece/{rook,bishop}.rs (init_masks, get_attacks_slow,
   init_attacks, get_attacks, Magic::get_blockers_from_index), piece/{knight,king,pawn}.rs
   init_attacks.  Constants (magic multipliers, index widths, table sizes) come from
   generated/Consts.v, i.e. from the engine built from the current tree. *)
From Coq Require Import NArith ZArith List Lia Bool FMapPositive.
Import ListNotations.
From RCE Require Import lib.Bits generated.Consts.
Open Scope N_scope.

Definition FILE_A : N := 0x0101010101010101.
Definition FILE_B : N := 0x0202020202020202.
Definition FILE_G : N := 0x4040404040404040.
Definition FILE_H : N := 0x8080808080808080.
Definition RANK_1 : N := 0x00000000000000ff.
Definition RANK_8 : N := 0xff00000000000000.

(* Bitboard::shift_east / shift_west *)
Definition shift_east (x : N) (n : nat) : N :=
  Nat.iter n (fun o => N.land (bb_shl o 1) (not64 FILE_A)) x.
Definition shift_west (x : N) (n : nat) : N :=
  Nat.iter n (fun o => N.land (shr64 o 1) (not64 FILE_H)) x.
Definition trim_edges (x : N) : N :=
  N.land (N.land (N.land (N.land x (not64 RANK_1)) (not64 RANK_8)) (not64 FILE_A)) (not64 FILE_H).

(* rays.rs init_rays; direction numbering N=0 NE=1 E=2 SE=3 S=4 SW=5 W=6 NW=7 *)
Definition ray_model (idx : nat) (d : nat) : N :=
  let i := N.of_nat idx in
  let rk := i / 8 in
  let fl := i mod 8 in
  match d with
  | 0%nat => shl64 0x0101010101010100 i
  | 1%nat => bb_shl (shift_east 0x8040201008040200 (N.to_nat fl)) (rk * 8)
  | 2%nat => 2 * (N.shiftl 1 (N.lor i 7) - N.shiftl 1 i)
  | 3%nat => shr64 (shift_east 0x0002040810204080 (N.to_nat fl)) ((7 - rk) * 8)
  | 4%nat => shr64 0x0080808080808080 (63 - i)
  | 5%nat => shr64 (shift_west 0x0040201008040201 (N.to_nat (7 - fl))) ((7 - rk) * 8)
  | 6%nat => N.shiftl 1 i - N.shiftl 1 (N.land i 56)
  | 7%nat => bb_shl (shift_west 0x0102040810204000 (N.to_nat (7 - fl))) (rk * 8)
  | _ => 0
  end.

Definition rays_tbl : list (list N) :=
  Eval vm_compute in map (fun s => map (ray_model s) (seq 0 8)) (seq 0 64).
Definition ray (s d : nat) : N := nth d (nth s rays_tbl []) 0.

(* init_masks *)
Definition rook_mask_model (s : nat) : N :=
  N.lor (N.lor (N.lor (N.land (ray s 0) (not64 RANK_8)) (N.land (ray s 2) (not64 FILE_H)))
               (N.land (ray s 4) (not64 RANK_1))) (N.land (ray s 6) (not64 FILE_A)).
Definition bishop_mask_model (s : nat) : N :=
  trim_edges (N.lor (N.lor (N.lor (ray s 1) (ray s 3)) (ray s 5)) (ray s 7)).

(* get_attacks_slow: cut one ray at the first blocker *)
Definition cut (attacks : N) (s d : nat) (blockers : N) (fwd : bool) : N :=
  let rb := N.land (ray s d) blockers in
  if N.eqb rb 0 then attacks
  else let idx := if fwd then tzcnt rb else bsr rb in
       N.land attacks (not64 (ray idx d)).
Definition rook_slow (s : nat) (blockers : N) : N :=
  let a := N.lor (N.lor (N.lor (ray s 0) (ray s 2)) (ray s 4)) (ray s 6) in
  cut (cut (cut (cut a s 0 blockers true) s 2 blockers true) s 4 blockers false) s 6 blockers false.
Definition bishop_slow (s : nat) (blockers : N) : N :=
  let a := N.lor (N.lor (N.lor (ray s 7) (ray s 1)) (ray s 5)) (ray s 3) in
  cut (cut (cut (cut a s 7 blockers true) s 1 blockers true) s 5 blockers false) s 3 blockers false.

(* Magic::get_blockers_from_index: bit k of idx selects the k-th lowest mask bit *)
Fixpoint blockers_from_index (idx : N) (k : nat) (bs : list nat) : N :=
  match bs with
  | [] => 0
  | b :: t => N.lor (if N.testbit idx (N.of_nat k) then bit b else 0)
                    (blockers_from_index idx (S k) t)
  end.

Section Magic.
  Variable mask_of : nat -> N.
  Variable slow : nat -> N -> N.
  Variable magics bitsl : list N.
  Variable size : N.

  Definition magic (s : nat) := nth s magics 0.
  Definition ibits (s : nat) := nth s bitsl 0.
  (* (blockers * MAGIC) >> (64 - INDEX_BITS), wrapping multiply *)
  Definition hash (s : nat) (b : N) : N := N.shiftr (wrap (b * magic s)) (64 - ibits s).

  (* init_attacks: a vector of `size` zeros, written at hash(blockers) for idx in 0..1<<bits,
     in that order (later writes win).  None = a write past the vector (index panic). *)
  Definition build (s : nat) : option (PositiveMap.t N) :=
    let bs := asc_bits (mask_of s) in
    fold_left (fun acc idx =>
                 match acc with
                 | None => None
                 | Some m =>
                   let b := blockers_from_index (N.of_nat idx) 0 bs in
                   let h := hash s b in
                   if N.ltb h size then Some (PositiveMap.add (N.succ_pos h) (slow s b) m)
                   else None
                 end)
              (seq 0 (N.to_nat (N.shiftl 1 (ibits s)))) (Some (PositiveMap.empty N)).

  (* ATTACKS[sq][key]; None = index out of bounds *)
  Definition lookup_tbl (t : PositiveMap.t N) (s : nat) (b : N) : option N :=
    let h := hash s b in
    if N.ltb h size
    then Some match PositiveMap.find (N.succ_pos h) t with Some v => v | None => 0 end
    else None.

  Definition get_attacks (s : nat) (occ : N) : option N :=
    match build s with
    | None => None
    | Some t => lookup_tbl t s (N.land (wrap occ) (mask_of s))
    end.
End Magic.

Definition rook_get_attacks : nat -> N -> option N :=
  get_attacks rook_mask_model rook_slow rook_magics rook_bits rook_size.
Definition bishop_get_attacks : nat -> N -> option N :=
  get_attacks bishop_mask_model bishop_slow bishop_magics bishop_bits bishop_size.
Definition queen_get_attacks (s : nat) (occ : N) : option N :=
  match rook_get_attacks s occ, bishop_get_attacks s occ with
  | Some r, Some b => Some (N.lor r b)
  | _, _ => None
  end.

(* leapers: knight.rs / king.rs / pawn.rs init_attacks.  `origin << k` is Bitboard << u32
   (checked_shl), `origin >> k` the raw shift. *)
Definition knight_model (idx : nat) : N :=
  let o := shl64 1 (N.of_nat idx) in
  N.lor (N.lor (N.lor
    (N.land (N.lor (bb_shl o 15) (shr64 o 17)) (not64 FILE_H))
    (N.land (N.lor (bb_shl o 17) (shr64 o 15)) (not64 FILE_A)))
    (N.land (N.lor (bb_shl o 10) (shr64 o 6)) (not64 (N.lor FILE_A FILE_B))))
    (N.land (N.lor (bb_shl o 6) (shr64 o 10)) (not64 (N.lor FILE_G FILE_H))).
Definition king_model (idx : nat) : N :=
  let o := shl64 1 (N.of_nat idx) in
  N.lor (N.lor
    (N.land (N.lor (N.lor (bb_shl o 7) (shr64 o 1)) (shr64 o 9)) (not64 FILE_H))
    (N.land (N.lor (N.lor (bb_shl o 9) (bb_shl o 1)) (shr64 o 7)) (not64 FILE_A)))
    (N.lor (bb_shl o 8) (shr64 o 8)).
Definition wpawn_model (idx : nat) : N :=
  let o := shl64 1 (N.of_nat idx) in
  N.lor (N.land (bb_shl o 9) (not64 FILE_A)) (N.land (bb_shl o 7) (not64 FILE_H)).
Definition bpawn_model (idx : nat) : N :=
  let o := shl64 1 (N.of_nat idx) in
  N.lor (N.land (shr64 o 9) (not64 FILE_H)) (N.land (shr64 o 7) (not64 FILE_A)).
