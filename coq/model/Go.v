(* Go.v — how a parsed `go` command becomes the limits of a search: Uci::go (max_depth from the
   depth limit) and the time-management budget computed at the start of Search::search
   (own clock / 20 + own increment / 2 for the side to move; missing values count as 0). *)
From Coq Require Import NArith List Bool.
From RCE Require Import model.Board model.Search model.Uci.
Open Scope N_scope.

Definition opt0 (o : option N) : N := match o with Some x => x | None => 0 end.
Definition time_budget (turn : Color) (g : GoLimits) : N :=
  match turn with
  | White => opt0 (g_wtime g) / 20 + opt0 (g_winc g) / 2
  | Black => opt0 (g_btime g) / 20 + opt0 (g_binc g) / 2
  end.
Definition any_clock (g : GoLimits) : bool :=
  match g_wtime g, g_winc g, g_btime g, g_binc g with None, None, None, None => false | _, _, _, _ => true end.
Definition search_limits (turn : Color) (g : GoLimits) : Limits :=
  mkLimits (g_nodes g) (g_movetime g) (any_clock g) (time_budget turn g).
Definition max_depth_of (g : GoLimits) : option nat :=
  match g_depth g with Some d => Some (N.to_nat d) | None => None end.
