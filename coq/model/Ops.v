(* Ops.v — operation sequences over the model board: nested make/unmake probes (what the search
   and the legality filter do) and arbitrary interleavings of moves and take-backs. *)
From Coq Require Import NArith List Bool.
Import ListNotations.
From RCE Require Import lib.Bits model.Board model.Wf.

(* a probe: make a move, run any number of nested probes on the resulting board, unmake *)
Inductive Probe := PNode : Ply -> list Probe -> Probe.

Fixpoint run_probe (b : Board) (p : Probe) : option Board :=
  match p with
  | PNode m cs =>
    if wfb b && move_okb b m then
      match (fix go (cs : list Probe) (x : Board) : option Board :=
               match cs with
               | [] => Some x
               | c :: t => match run_probe x c with Some x' => go t x' | None => None end
               end) cs (make_move b m) with
      | Some b' => unmake_move b'
      | None => None
      end
    else None
  end.

(* interleavings of moves and take-backs; a take-back is only allowed for a move of this sequence *)
Inductive Op := OMake (m : Ply) | OUnmake.
Fixpoint run_ops (b : Board) (depth : nat) (ops : list Op) : option Board :=
  match ops with
  | [] => Some b
  | OMake m :: t => if move_okb b m then run_ops (make_move b m) (S depth) t else None
  | OUnmake :: t =>
    match depth with
    | O => None
    | S d => match unmake_move b with Some b' => run_ops b' d t | None => None end
    end
  end.

Definition KeyOK (b : Board) : Prop := zkey b = key_from_scratch b.

(* the part of a position the key is a function of *)
Definition abs4 (b : Board) : (list (option Kind)) * Color * (bool * bool * bool * bool) * option nat :=
  (map (fun i => get_piece b (sq_of_idx i)) (seq 0 64), current_turn b,
   (castle_status b WK, castle_status b WQ, castle_status b BK, castle_status b BQ), ep_file b).
