(* Play.v — games as move lists over the model board. *)
From Coq Require Import NArith List Bool.
Import ListNotations.
From RCE Require Import model.Board model.Movegen.

Fixpoint play_plies (b : Board) (ms : list Ply) : Board :=
  match ms with [] => b | m :: t => play_plies (make_move b m) t end.
Fixpoint legal_game (b : Board) (ms : list Ply) : Prop :=
  match ms with [] => True | m :: t => In m (get_legal_moves b) /\ legal_game (make_move b m) t end.
(* the keys of the positions a game passes through, before each move *)
Fixpoint keys_along (b : Board) (ms : list Ply) : list N :=
  match ms with [] => [] | m :: t => zkey b :: keys_along (make_move b m) t end.
