(* Geometry.v — the chessboard in rank/file coordinates only.  No bit tricks here: this is
   the specification side of the attack tables (C06) and of the rules of chess (Rules.v). *)
From Coq Require Import NArith ZArith List Lia Bool.
Import ListNotations.

Definition rank (s : nat) : Z := Z.of_nat (s / 8).
Definition file (s : nat) : Z := Z.of_nat (s mod 8).
Definition mk (r f : Z) : nat := Z.to_nat (8 * r + f).
Definition inb (r f : Z) : bool := ((0 <=? r) && (r <? 8) && (0 <=? f) && (f <? 8))%Z.

(* walk from (r,f) in direction (dr,df), at most [fuel] steps, stopping at the edge *)
Fixpoint walk (fuel : nat) (r f dr df : Z) : list nat :=
  match fuel with
  | O => []
  | S k => let r' := (r + dr)%Z in let f' := (f + df)%Z in
           if inb r' f' then mk r' f' :: walk k r' f' dr df else []
  end.

Definition ray_list (s : nat) (d : Z * Z) : list nat := walk 7 (rank s) (file s) (fst d) (snd d).

(* direction order of the engine's Direction enum: N, NE, E, SE, S, SW, W, NW *)
Definition dir8 : list (Z * Z) :=
  [(1,0); (1,1); (0,1); (-1,1); (-1,0); (-1,-1); (0,-1); (1,-1)]%Z.
Definition rook_dirs : list (Z * Z) := [(1,0); (0,1); (-1,0); (0,-1)]%Z.
Definition bishop_dirs : list (Z * Z) := [(1,1); (-1,1); (-1,-1); (1,-1)]%Z.
Definition knight_deltas : list (Z * Z) :=
  [(2,1); (2,-1); (-2,1); (-2,-1); (1,2); (1,-2); (-1,2); (-1,-2)]%Z.
Definition king_deltas : list (Z * Z) := dir8.
Definition wpawn_deltas : list (Z * Z) := [(1,1); (1,-1)]%Z.
Definition bpawn_deltas : list (Z * Z) := [(-1,1); (-1,-1)]%Z.

(* slide along a ray up to and including the first occupied square *)
Fixpoint slide (occ : nat -> bool) (l : list nat) : list nat :=
  match l with
  | [] => []
  | s :: t => if occ s then [s] else s :: slide occ t
  end.

Definition slider_attacks (dirs : list (Z * Z)) (s : nat) (occ : nat -> bool) : list nat :=
  flat_map (fun d => slide occ (ray_list s d)) dirs.
(* the relevance mask of a slider: its rays without their last squares *)
Definition slider_mask (dirs : list (Z * Z)) (s : nat) : list nat :=
  flat_map (fun d => removelast (ray_list s d)) dirs.
(* one-step pieces *)
Definition leaper_targets (ds : list (Z * Z)) (s : nat) : list nat :=
  flat_map (fun d => walk 1 (rank s) (file s) (fst d) (snd d)) ds.

(* slide only looks at the non-last squares of a ray *)
Lemma slide_agree (f g : nat -> bool) l :
  (forall x, In x (removelast l) -> f x = g x) -> slide f l = slide g l.
Proof.
  induction l as [|s t IH]; intros H; [reflexivity|].
  destruct t as [|s' t'].
  - cbn. destruct (f s), (g s); reflexivity.
  - cbn [slide]. assert (Hs : f s = g s) by (apply H; cbn; left; reflexivity).
    rewrite Hs. destruct (g s); [reflexivity|]. f_equal.
    apply IH. intros x Hx. apply H. cbn [removelast]. right. exact Hx.
Qed.

Lemma slide_ext (f g : nat -> bool) l :
  (forall x, In x l -> f x = g x) -> slide f l = slide g l.
Proof.
  intros H. apply slide_agree. intros x Hx. apply H.
  clear -Hx. induction l as [|a [|b t] IH]; cbn in *; [contradiction|contradiction|].
  destruct Hx as [->|Hx]; [left; reflexivity|right; apply IH; exact Hx].
Qed.

Lemma slide_incl occ l x : In x (slide occ l) -> In x l.
Proof.
  induction l as [|s t IH]; cbn; [tauto|].
  destruct (occ s); cbn; intros [H|H]; auto. contradiction.
Qed.

Lemma walk_lt64 fuel : forall r f dr df x, In x (walk fuel r f dr df) -> (x < 64)%nat.
Proof.
  induction fuel as [|k IH]; intros r f dr df x; cbn [walk]; [intros []|].
  destruct (inb (r + dr) (f + df)) eqn:E; [|intros []].
  intros [H|H]; [|eapply IH; exact H]. subst x. unfold inb in E. unfold mk. lia.
Qed.

Lemma ray_list_lt64 s d x : In x (ray_list s d) -> (x < 64)%nat.
Proof. apply walk_lt64. Qed.

Lemma slider_attacks_lt64 dirs s occ x : In x (slider_attacks dirs s occ) -> (x < 64)%nat.
Proof.
  unfold slider_attacks. rewrite in_flat_map. intros [d [_ H]].
  apply slide_incl in H. eapply ray_list_lt64; exact H.
Qed.

Lemma leaper_targets_lt64 ds s x : In x (leaper_targets ds s) -> (x < 64)%nat.
Proof.
  unfold leaper_targets. rewrite in_flat_map. intros [d [_ H]]. eapply walk_lt64; exact H.
Qed.
