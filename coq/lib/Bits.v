(* Bits.v — u64 as N with the wrap written out; bit lists; subsets of a mask.
   Definitions only mention N/nat/list; every lemma here is closed under the global context. *)
From Coq Require Import NArith ZArith List Lia Bool.
Import ListNotations.
Open Scope N_scope.

Definition ones64 : N := 18446744073709551615.
Definition wrap (x : N) : N := N.land x ones64.
Definition not64 (x : N) : N := N.lxor (wrap x) ones64.          (* Rust `!x` on u64 *)

(* bit i as a mask; squares are nat indices 0..63 (a1 = 0, h1 = 7, a8 = 56) *)
Definition bit (i : nat) : N := N.shiftl 1 (N.of_nat i).
Definition tb (x : N) (i : nat) : bool := N.testbit x (N.of_nat i).
Definition set_of (l : list nat) : N := fold_right (fun i acc => N.lor (bit i) acc) 0 l.

(* u64 shifts as the code uses them *)
Definition shl64 (x : N) (k : N) : N := wrap (N.shiftl x k).      (* k < 64: plain `<<` *)
Definition bb_shl (x : N) (k : N) : N :=                           (* Bitboard << u32: checked_shl or 0 *)
  if N.ltb k 64 then wrap (N.shiftl x k) else 0.
Definition shr64 (x : N) (k : N) : N := N.shiftr x k.

(* trailing zeros / index of lowest set bit; 64 for 0 *)
Fixpoint ptz (p : positive) : nat :=
  match p with xO q => S (ptz q) | _ => O end.
Definition tzcnt (x : N) : nat := match x with 0 => 64%nat | Npos p => ptz p end.
(* index of highest set bit (63 - leading_zeros); 0 for 0 — the code never asks for 0 *)
Definition bsr (x : N) : nat := N.to_nat (N.log2 x).
(* x & (x-1): clear the lowest set bit *)
Definition clear_lowest (x : N) : N := N.land x (N.pred x).

Fixpoint ppop (p : positive) : nat :=
  match p with xH => 1%nat | xO q => ppop q | xI q => S (ppop q) end.
Definition popcount (x : N) : nat := match x with 0 => O | Npos p => ppop p end.

(* ascending list of the set bits below 64 — what a drop_forward / trailing_zeros loop yields *)
Definition asc_bits (m : N) : list nat := filter (tb m) (seq 0 64).

(* ------------------------------------------------------------------ *)
Lemma bit_spec i n : N.testbit (bit i) n = N.eqb n (N.of_nat i).
Proof.
  unfold bit. rewrite N.shiftl_1_l, N.pow2_bits_eqb. apply N.eqb_sym.
Qed.

Lemma tb_bit i j : tb (bit i) j = Nat.eqb j i.
Proof.
  unfold tb. rewrite bit_spec.
  destruct (Nat.eqb_spec j i) as [->|H].
  - apply N.eqb_refl.
  - apply N.eqb_neq. intros E. apply Nat2N.inj in E. contradiction.
Qed.

Lemma set_of_spec l n : N.testbit (set_of l) n = existsb (fun i => N.eqb n (N.of_nat i)) l.
Proof.
  induction l as [|i t IH]; cbn [set_of fold_right existsb].
  - apply N.bits_0.
  - rewrite N.lor_spec, bit_spec. fold (set_of t). rewrite IH. reflexivity.
Qed.

Lemma set_of_tb l i : tb (set_of l) i = true <-> In i l.
Proof.
  unfold tb. rewrite set_of_spec, existsb_exists. split.
  - intros [j [Hj He]]. apply N.eqb_eq in He. apply Nat2N.inj in He. subst. exact Hj.
  - intros H. exists i. split; [exact H|apply N.eqb_refl].
Qed.

Lemma set_of_app l1 l2 : set_of (l1 ++ l2) = N.lor (set_of l1) (set_of l2).
Proof.
  induction l1 as [|i t IH]; cbn [set_of fold_right app].
  - reflexivity.
  - fold (set_of (t ++ l2)). fold (set_of t). rewrite IH. apply N.lor_assoc.
Qed.

Lemma ones64_spec n : N.testbit ones64 n = N.ltb n 64.
Proof.
  change ones64 with (N.ones 64).
  destruct (N.ltb_spec n 64) as [H|H].
  - apply N.ones_spec_low. exact H.
  - apply N.ones_spec_high. exact H.
Qed.

Lemma wrap_spec x n : N.testbit (wrap x) n = N.testbit x n && N.ltb n 64.
Proof. unfold wrap. rewrite N.land_spec, ones64_spec. reflexivity. Qed.

Lemma wrap_small x : x < 2^64 -> wrap x = x.
Proof.
  intros H. unfold wrap. change ones64 with (N.ones 64).
  rewrite N.land_ones. apply N.mod_small. exact H.
Qed.

Lemma wrap_lt x : wrap x < 2^64.
Proof.
  unfold wrap. change ones64 with (N.ones 64). rewrite N.land_ones.
  apply N.mod_lt. discriminate.
Qed.

Lemma set_of_lt l : (forall i, In i l -> (i < 64)%nat) -> set_of l < 2^64.
Proof.
  intros H.
  destruct (N.lt_ge_cases (set_of l) (2^64)) as [Hl|Hg]; [exact Hl|exfalso].
  assert (Hne : set_of l <> 0) by (intros E; rewrite E in Hg; cbv in Hg; apply Hg; reflexivity).
  assert (Hb : N.testbit (set_of l) (N.log2 (set_of l)) = true) by (apply N.bit_log2; exact Hne).
  rewrite set_of_spec in Hb. apply existsb_exists in Hb.
  destruct Hb as [i [Hi He]]. apply N.eqb_eq in He. specialize (H i Hi).
  assert (64 <= N.log2 (set_of l)) by (apply N.log2_le_pow2; [lia|exact Hg]).
  lia.
Qed.

(* ------------------------------------------------------------------ *)
(* subsets of a bit list, with completeness *)
Fixpoint subsets (l : list nat) : list N :=
  match l with
  | [] => [0]
  | i :: t => let r := subsets t in r ++ map (N.lor (bit i)) r
  end.

Definition bits_in (b : N) (l : list nat) : Prop :=
  forall n, N.testbit b n = true -> exists i, n = N.of_nat i /\ In i l.

Lemma subsets_complete l : forall b, bits_in b l -> In b (subsets l).
Proof.
  induction l as [|i t IH]; intros b Hb; cbn [subsets].
  - left. symmetry. apply N.bits_inj_0. intros n.
    destruct (N.testbit b n) eqn:E; [|reflexivity].
    destruct (Hb n E) as [j [_ []]].
  - set (b' := N.ldiff b (bit i)).
    destruct (in_dec Nat.eq_dec i t) as [Hit|Hit].
    + apply in_or_app. left. apply IH. intros n Hn.
      destruct (Hb n Hn) as [j [Hj [Hji|Hjt]]].
      * subst j. exists i. split; assumption.
      * exists j. split; assumption.
    + assert (Hbt : bits_in b' t).
      { intros n Hn. unfold b' in Hn. rewrite N.ldiff_spec, bit_spec in Hn.
        apply andb_true_iff in Hn. destruct Hn as [Hn1 Hn2].
        destruct (Hb n Hn1) as [j [Hj [Hji|Hjt]]].
        - subst j n. rewrite N.eqb_refl in Hn2. discriminate.
        - exists j. split; assumption. }
      destruct (N.testbit b (N.of_nat i)) eqn:Ei.
      * apply in_or_app. right. apply in_map_iff. exists b'. split; [|apply IH; exact Hbt].
        apply N.bits_inj. intros n. unfold b'.
        rewrite N.lor_spec, N.ldiff_spec, bit_spec.
        destruct (N.eqb n (N.of_nat i)) eqn:En; cbn.
        -- apply N.eqb_eq in En. subst n. symmetry. exact Ei.
        -- rewrite andb_true_r. reflexivity.
      * apply in_or_app. left. apply IH.
        intros n Hn. destruct (Hb n Hn) as [j [Hj [Hji|Hjt]]].
        -- subst j n. rewrite Hn in Ei. discriminate.
        -- exists j. split; assumption.
Qed.

Lemma land_set_of_bits_in occ l : bits_in (N.land occ (set_of l)) l.
Proof.
  intros n Hn. rewrite N.land_spec in Hn. apply andb_true_iff in Hn. destruct Hn as [_ Hm].
  rewrite set_of_spec in Hm. apply existsb_exists in Hm.
  destruct Hm as [i [Hi He]]. apply N.eqb_eq in He. exists i. split; assumption.
Qed.

(* asc_bits characterisation *)
Lemma asc_bits_In m i : In i (asc_bits m) <-> (i < 64)%nat /\ tb m i = true.
Proof.
  unfold asc_bits. rewrite filter_In, in_seq. split; intros [H1 H2]; split; auto; lia.
Qed.

Lemma asc_bits_NoDup m : NoDup (asc_bits m).
Proof. unfold asc_bits. apply NoDup_filter. apply seq_NoDup. Qed.

Lemma set_of_asc_bits m : m < 2^64 -> set_of (asc_bits m) = m.
Proof.
  intros Hm. apply N.bits_inj. intros n. rewrite set_of_spec.
  destruct (N.testbit m n) eqn:E.
  - apply existsb_exists. exists (N.to_nat n).
    assert (Hn : n < 64).
    { destruct (N.lt_ge_cases n 64) as [H|H]; [exact H|exfalso].
      assert (m <> 0) by (intros ->; rewrite N.bits_0 in E; discriminate).
      assert (n <= N.log2 m).
      { destruct (N.le_gt_cases n (N.log2 m)) as [Hl|Hl]; [exact Hl|].
        rewrite (N.bits_above_log2 m n Hl) in E. discriminate. }
      assert (N.log2 m < 64) by (apply N.log2_lt_pow2; lia). lia. }
    split.
    + apply asc_bits_In. split; [lia|]. unfold tb. rewrite N2Nat.id. exact E.
    + rewrite N2Nat.id. apply N.eqb_refl.
  - destruct (existsb _ _) eqn:Ex; [|reflexivity].
    apply existsb_exists in Ex. destruct Ex as [i [Hi He]].
    apply N.eqb_eq in He. subst n. apply asc_bits_In in Hi.
    destruct Hi as [_ Hi]. unfold tb in Hi. congruence.
Qed.
