(* ThreadsProofs.v — proofs of the C10 statements about the input thread x search threads
   protocol (model/Threads.v).  One global invariant [Inv], preserved by every step of the
   repaired variant [fixed]; every property is derived from it. *)
From Coq Require Import List Lia Bool Arith.
Import ListNotations.
From RCE Require Import model.Threads.

(* ---------- generic list lemmas ---------- *)

Lemma length_set_nth : forall {A} (l : list A) k x, length (set_nth l k x) = length l.
Proof. induction l; destruct k; simpl; auto. Qed.

Lemma nth_set_nth : forall {A} (l : list A) k j x d,
  nth j (set_nth l k x) d = if (j =? k) && (k <? length l) then x else nth j l d.
Proof.
  induction l; intros k j x d.
  - simpl. replace (k <? 0) with false by (symmetry; apply Nat.ltb_ge; lia).
    rewrite Bool.andb_false_r. reflexivity.
  - destruct k, j; simpl; auto.
    rewrite IHl. reflexivity.
Qed.

Lemma nth_set_nth_same : forall {A} (l : list A) k x d,
  k < length l -> nth k (set_nth l k x) d = x.
Proof.
  intros. rewrite nth_set_nth, Nat.eqb_refl.
  apply Nat.ltb_lt in H. rewrite H. reflexivity.
Qed.

Lemma filter_set_nth : forall {A} (f : A -> bool) l k x d,
  k < length l ->
  length (filter f (set_nth l k x)) + (if f (nth k l d) then 1 else 0)
  = length (filter f l) + (if f x then 1 else 0).
Proof.
  induction l; intros k x d Hk; simpl in Hk; [lia|].
  destruct k; simpl.
  - destruct (f a), (f x); simpl; lia.
  - assert (Hk' : k < length l) by lia.
    specialize (IHl k x d Hk'). destruct (f a); simpl; lia.
Qed.

(* ---------- the invariant ---------- *)

Definition pe (p : Pc) : bool := match p with Printed | Exited => true | _ => false end.
Definition cpe (p : Pc) : bool :=
  match p with Cleared | Printed | Exited => true | _ => false end.

Definition Inv (s : State) : Prop :=
  length (flags s) = length (pcs s) /\
  match latest s with None => pcs s = [] | Some k => S k = length (pcs s) end /\
  (forall k, count_bestmoves s k = if (k <? length (pcs s)) && pe (pc s k) then 1 else 0) /\
  (forall k, k < length (pcs s) -> cpe (pc s k) = true -> flag s k = false) /\
  total_accepted s = length (pcs s) /\
  total_bestmoves s = length (filter pe (pcs s)).

Lemma Inv_init : forall cmds, Inv (init cmds).
Proof.
  intros cmds. unfold Inv, init, count_bestmoves, total_accepted, total_bestmoves; cbn.
  repeat split; auto. intros k Hk. lia.
Qed.

(* a step of thread k *)
Lemma thread_step_inv : forall s k p' fl lg,
  Inv s -> k < length (pcs s) ->
  (fl = flags s \/ fl = set_nth (flags s) k false) ->
  (cpe p' = true -> nth k fl false = false) ->
  ((lg = log s /\ pe p' = pe (pc s k)) \/
   (lg = EvBestmove k :: log s /\ pe (pc s k) = false /\ pe p' = true)) ->
  Inv (mkState fl (set_nth (pcs s) k p') (latest s) (pending s) lg).
Proof.
  intros s k p' fl lg (Hl & Hlat & Hc & Hf & Ha & Hb) Hk Hfl Hcp Hlg.
  unfold Inv, count_bestmoves, total_accepted, total_bestmoves, pc, flag in *.
  cbn [flags pcs latest pending log].
  assert (Hkb : (k <? length (pcs s)) = true) by (apply Nat.ltb_lt; auto).
  split; [|split; [|split; [|split; [|split]]]].
  - destruct Hfl; subst; rewrite ?length_set_nth; auto.
  - rewrite length_set_nth. destruct (latest s); auto.
    rewrite Hlat in Hk; simpl in Hk; lia.
  - intros j. rewrite length_set_nth, nth_set_nth.
    destruct (Nat.eqb_spec j k) as [->|Hne].
    + rewrite Hkb. simpl andb.
      destruct Hlg as [[-> He]|[-> [He1 He2]]].
      * rewrite Hc, Hkb, He. reflexivity.
      * simpl filter. rewrite Nat.eqb_refl. simpl length.
        rewrite Hc, Hkb, He1, He2. reflexivity.
    + simpl andb.
      destruct Hlg as [[-> He]|[-> [He1 He2]]].
      * apply Hc.
      * simpl filter. replace (k =? j) with false by (symmetry; apply Nat.eqb_neq; auto).
        apply Hc.
  - intros j Hj. rewrite length_set_nth in Hj. rewrite nth_set_nth.
    destruct (Nat.eqb_spec j k) as [->|Hne].
    + rewrite Hkb. simpl andb. cbv iota. auto.
    + simpl andb. cbv iota. intros Hc'.
      destruct Hfl; subst fl.
      * apply Hf; auto.
      * rewrite nth_set_nth.
        replace (j =? k) with false by (symmetry; apply Nat.eqb_neq; auto).
        simpl. apply Hf; auto.
  - rewrite length_set_nth. destruct Hlg as [[-> _]|[-> _]]; simpl; auto.
  - pose proof (filter_set_nth pe (pcs s) k p' Exited Hk) as HF.
    destruct Hlg as [[-> He]|[-> [He1 He2]]].
    + rewrite He in HF. destruct (pe (nth k (pcs s) Exited)); lia.
    + rewrite He1, He2 in HF. simpl. lia.
Qed.

(* a step of the input thread that spawns nothing *)
Lemma noPc_inv : forall s fl pd lg j,
  Inv s ->
  (fl = flags s \/ fl = set_nth (flags s) j false) ->
  (lg = log s \/ lg = EvReadyOk :: log s \/ lg = EvBusy :: log s) ->
  Inv (mkState fl (pcs s) (latest s) pd lg).
Proof.
  intros s fl pd lg j (Hl & Hlat & Hc & Hf & Ha & Hb) Hfl Hlg.
  unfold Inv, count_bestmoves, total_accepted, total_bestmoves, pc, flag in *.
  cbn [flags pcs latest pending log].
  split; [|split; [|split; [|split; [|split]]]].
  - destruct Hfl; subst; rewrite ?length_set_nth; auto.
  - auto.
  - intros k. destruct Hlg as [->|[->| ->]]; simpl; apply Hc.
  - intros k Hk Hc'. destruct Hfl; subst fl.
    + apply Hf; auto.
    + rewrite nth_set_nth.
      destruct ((k =? j) && (j <? length (flags s))); auto.
  - destruct Hlg as [->|[->| ->]]; simpl; auto.
  - destruct Hlg as [->|[->| ->]]; simpl; auto.
Qed.

Lemma spawn_inv : forall s, Inv s -> Inv (spawn s).
Proof.
  intros s (Hl & Hlat & Hc & Hf & Ha & Hb).
  unfold Inv, spawn, count_bestmoves, total_accepted, total_bestmoves, pc, flag in *.
  cbn [flags pcs latest pending log].
  split; [|split; [|split; [|split; [|split]]]].
  - rewrite !app_length; simpl; lia.
  - rewrite app_length; simpl; lia.
  - intros j. simpl filter. rewrite Hc, app_length. simpl length.
    destruct (lt_eq_lt_dec j (length (pcs s))) as [[Hlt|Heq]|Hgt].
    + rewrite app_nth1 by auto.
      replace (j <? length (pcs s) + 1) with true by (symmetry; apply Nat.ltb_lt; lia).
      replace (j <? length (pcs s)) with true by (symmetry; apply Nat.ltb_lt; lia).
      reflexivity.
    + subst j. rewrite app_nth2 by lia. rewrite Nat.sub_diag. simpl nth. simpl pe.
      rewrite Bool.andb_false_r.
      replace (length (pcs s) <? length (pcs s)) with false
        by (symmetry; apply Nat.ltb_ge; lia).
      reflexivity.
    + replace (j <? length (pcs s) + 1) with false by (symmetry; apply Nat.ltb_ge; lia).
      replace (j <? length (pcs s)) with false by (symmetry; apply Nat.ltb_ge; lia).
      reflexivity.
  - intros j Hj. rewrite app_length in Hj; simpl in Hj.
    destruct (Nat.eq_dec j (length (pcs s))) as [->|Hne].
    + rewrite app_nth2 by lia. rewrite Nat.sub_diag. simpl. discriminate.
    + assert (j < length (pcs s)) by lia.
      rewrite app_nth1 by auto. rewrite app_nth1 by lia. apply Hf; auto.
  - simpl. rewrite app_length; simpl; lia.
  - simpl filter. rewrite filter_app, app_length. simpl. lia.
Qed.

(* what the input thread does with a go *)
Lemma go_step : forall s s' rest,
  pending s = CmdGo :: rest -> step fixed s LInput = Some s' ->
  s' = spawn s \/
  (exists k, latest s = Some k /\ flag s k = true /\ is_exited (pc s k) = false /\
             s' = add_log (pop_cmd s) EvBusy).
Proof.
  intros s s' rest Hp Hs. unfold step in Hs. rewrite Hp in Hs.
  unfold fixed in Hs; cbn [old_go] in Hs.
  destruct (latest s) as [k|] eqn:Hlat.
  - destruct (flag s k && negb (is_exited (pc s k))) eqn:Hb.
    + apply andb_prop in Hb. destruct Hb as [Hb1 Hb2].
      apply negb_true_iff in Hb2.
      right. exists k. inversion Hs. auto.
    + destruct (is_exited (pc s k)); [|discriminate].
      left. inversion Hs; auto.
  - left. inversion Hs; auto.
Qed.

Lemma step_inv : forall s l s', Inv s -> step fixed s l = Some s' -> Inv s'.
Proof.
  intros s l s' HI Hs. destruct l as [|k fin].
  - destruct (pending s) as [|c rest] eqn:Hp.
    + unfold step in Hs. rewrite Hp in Hs. discriminate.
    + destruct c.
      * destruct (go_step s s' rest Hp Hs) as [->|(k & _ & _ & _ & ->)].
        -- apply spawn_inv; auto.
        -- exact (noPc_inv s (flags s) (tl (pending s)) (EvBusy :: log s) 0 HI
                    (or_introl eq_refl) (or_intror (or_intror eq_refl))).
      * unfold step in Hs. rewrite Hp in Hs.
        destruct (latest s) as [k|]; inversion Hs; subst s'.
        -- exact (noPc_inv s (set_nth (flags s) k false) (tl (pending s)) (log s) k HI
                    (or_intror eq_refl) (or_introl eq_refl)).
        -- exact (noPc_inv s (flags s) (tl (pending s)) (log s) 0 HI
                    (or_introl eq_refl) (or_introl eq_refl)).
      * unfold step in Hs. rewrite Hp in Hs. inversion Hs; subst s'.
        exact (noPc_inv s (flags s) (tl (pending s)) (EvReadyOk :: log s) 0 HI
                 (or_introl eq_refl) (or_intror (or_introl eq_refl))).
      * unfold step in Hs. rewrite Hp in Hs. inversion Hs; subst s'.
        exact (noPc_inv s (flags s) (tl (pending s)) (log s) 0 HI
                 (or_introl eq_refl) (or_introl eq_refl)).
  - unfold step in Hs. unfold fixed in Hs; cbn [rearm] in Hs.
    destruct (k <? length (pcs s)) eqn:Hk; [|discriminate].
    apply Nat.ltb_lt in Hk.
    destruct (pc s k) eqn:Hpc.
    + inversion Hs; subst s'.
      refine (thread_step_inv s k Running (flags s) (log s) HI Hk (or_introl eq_refl) _
                (or_introl (conj eq_refl _))).
      * discriminate.
      * rewrite Hpc; reflexivity.
    + destruct (negb (flag s k) || fin); inversion Hs; subst s'; auto.
      refine (thread_step_inv s k Finishing (flags s) (log s) HI Hk (or_introl eq_refl) _
                (or_introl (conj eq_refl _))).
      * discriminate.
      * rewrite Hpc; reflexivity.
    + inversion Hs; subst s'.
      refine (thread_step_inv s k Cleared (set_nth (flags s) k false) (log s) HI Hk
                (or_intror eq_refl) _ (or_introl (conj eq_refl _))).
      * intros _. destruct HI as (Hl & _). apply nth_set_nth_same. lia.
      * rewrite Hpc; reflexivity.
    + inversion Hs; subst s'.
      refine (thread_step_inv s k Printed (flags s) (EvBestmove k :: log s) HI Hk
                (or_introl eq_refl) _ (or_intror (conj eq_refl (conj _ eq_refl)))).
      * intros _. destruct HI as (_ & _ & _ & Hf & _). apply Hf; auto.
        rewrite Hpc; reflexivity.
      * rewrite Hpc; reflexivity.
    + inversion Hs; subst s'.
      refine (thread_step_inv s k Exited (flags s) (log s) HI Hk (or_introl eq_refl) _
                (or_introl (conj eq_refl _))).
      * intros _. destruct HI as (_ & _ & _ & Hf & _). apply Hf; auto.
        rewrite Hpc; reflexivity.
      * rewrite Hpc; reflexivity.
    + discriminate.
Qed.

Lemma Inv_reach : forall cmds s, Reach fixed cmds s -> Inv s.
Proof.
  intros cmds s HR. induction HR.
  - apply Inv_init.
  - eapply step_inv; eauto.
Qed.

(* ---------- the C10 properties ---------- *)

Lemma one_bestmove : forall cmds s k,
  Reach fixed cmds s -> k < length (pcs s) ->
  count_bestmoves s k = match pc s k with Printed | Exited => 1 | _ => 0 end.
Proof.
  intros cmds s k HR Hk. destruct (Inv_reach _ _ HR) as (_ & _ & Hc & _).
  rewrite Hc. apply Nat.ltb_lt in Hk. rewrite Hk. simpl.
  destruct (pc s k); reflexivity.
Qed.

Lemma forallb_exited_pe : forall l, forallb is_exited l = true -> length (filter pe l) = length l.
Proof.
  induction l; simpl; auto. intros H. apply andb_prop in H. destruct H as [H1 H2].
  destruct a; try discriminate. simpl. rewrite IHl; auto.
Qed.

Lemma answers : forall cmds s,
  Reach fixed cmds s -> all_exited s = true -> total_bestmoves s = total_accepted s.
Proof.
  intros cmds s HR He. destruct (Inv_reach _ _ HR) as (_ & _ & _ & _ & Ha & Hb).
  rewrite Ha, Hb. apply forallb_exited_pe. exact He.
Qed.

Lemma go_not_silent : forall cmds s s' rest,
  Reach fixed cmds s -> pending s = CmdGo :: rest -> step fixed s LInput = Some s' ->
  total_accepted s' + total_busy s' = S (total_accepted s + total_busy s) /\ pending s' = rest.
Proof.
  intros cmds s s' rest _ Hp Hs.
  destruct (go_step s s' rest Hp Hs) as [->|(k & _ & _ & _ & ->)];
    unfold total_accepted, total_busy, spawn, add_log, pop_cmd; cbn; rewrite Hp; cbn;
    split; try reflexivity; lia.
Qed.

Lemma refused_only_if_searching : forall cmds s s' rest,
  Reach fixed cmds s -> pending s = CmdGo :: rest -> step fixed s LInput = Some s' ->
  total_busy s' = S (total_busy s) ->
  exists k, latest s = Some k /\ flag s k = true /\ count_bestmoves s k = 0 /\ pc s k <> Exited.
Proof.
  intros cmds s s' rest HR Hp Hs Hb.
  destruct (go_step s s' rest Hp Hs) as [->|(k & Hlat & Hfl & Hex & ->)].
  - exfalso. unfold total_busy, spawn in Hb; cbn in Hb. lia.
  - exists k. destruct (Inv_reach _ _ HR) as (_ & Hl & Hc & Hf & _).
    rewrite Hlat in Hl.
    repeat split; auto.
    + rewrite Hc. destruct (pe (pc s k)) eqn:Hpe.
      * exfalso. assert (flag s k = false).
        { apply Hf; [lia|]. destruct (pc s k); simpl in *; congruence. }
        congruence.
      * rewrite Bool.andb_false_r. reflexivity.
    + intros E. rewrite E in Hex. discriminate.
Qed.

Lemma stop_clears : forall cmds s s' rest k,
  Reach fixed cmds s -> pending s = CmdStop :: rest -> latest s = Some k ->
  step fixed s LInput = Some s' -> flag s' k = false.
Proof.
  intros cmds s s' rest k HR Hp Hlat Hs.
  unfold step in Hs. rewrite Hp, Hlat in Hs. inversion Hs; subst s'.
  unfold flag, set_flag, pop_cmd; cbn.
  destruct (Inv_reach _ _ HR) as (Hl & Hk & _). rewrite Hlat in Hk.
  apply nth_set_nth_same. lia.
Qed.

Lemma flag_stays_cleared : forall cmds s l s' k,
  Reach fixed cmds s -> k < length (pcs s) -> flag s k = false ->
  step fixed s l = Some s' -> flag s' k = false.
Proof.
  intros cmds s l s' k HR Hk Hf Hs.
  destruct (Inv_reach _ _ HR) as (Hl & _).
  assert (Hset : forall j, nth k (set_nth (flags s) j false) false = false).
  { intros j. rewrite nth_set_nth.
    destruct ((k =? j) && (j <? length (flags s))); auto. }
  assert (Hsp : flag (spawn s) k = false).
  { unfold flag, spawn; cbn. rewrite app_nth1 by lia. exact Hf. }
  destruct l as [|j fin].
  - destruct (pending s) as [|c rest] eqn:Hp.
    + unfold step in Hs. rewrite Hp in Hs. discriminate.
    + destruct c.
      * destruct (go_step s s' rest Hp Hs) as [->|(i & _ & _ & _ & ->)]; auto.
      * unfold step in Hs. rewrite Hp in Hs.
        destruct (latest s) as [i|]; inversion Hs; subst s'; auto.
        unfold flag, set_flag, pop_cmd; cbn. apply Hset.
      * unfold step in Hs. rewrite Hp in Hs. inversion Hs; subst s'; auto.
      * unfold step in Hs. rewrite Hp in Hs. inversion Hs; subst s'; auto.
  - unfold step in Hs. unfold fixed in Hs; cbn [rearm] in Hs.
    destruct (j <? length (pcs s)); [|discriminate].
    destruct (pc s j).
    + inversion Hs; subst s'; auto.
    + destruct (negb (flag s j) || fin); inversion Hs; subst s'; auto.
    + inversion Hs; subst s'. unfold flag, set_pc, set_flag; cbn. apply Hset.
    + inversion Hs; subst s'; auto.
    + inversion Hs; subst s'; auto.
    + discriminate.
Qed.

Lemma stopped_thread_progresses : forall cmds s k fin,
  Reach fixed cmds s -> k < length (pcs s) -> flag s k = false -> pc s k <> Exited ->
  exists s', step fixed s (LThread k fin) = Some s'
             /\ steps_left (pc s' k) < steps_left (pc s k) /\ flag s' k = false.
Proof.
  intros cmds s k fin HR Hk Hf Hne.
  assert (Hstep : exists s', step fixed s (LThread k fin) = Some s'
                             /\ steps_left (pc s' k) < steps_left (pc s k)).
  { unfold step. unfold fixed; cbn [rearm].
    assert (Hkb : (k <? length (pcs s)) = true) by (apply Nat.ltb_lt; auto).
    rewrite Hkb. rewrite Hf. simpl negb. simpl orb.
    destruct (pc s k) eqn:Hpc; try congruence;
      (eexists; split; [reflexivity|]);
      unfold pc, set_pc, set_flag, add_log; cbn [pcs];
      rewrite nth_set_nth_same by auto; simpl; lia. }
  destruct Hstep as (s' & Hs & Hlt).
  exists s'. repeat split; auto.
  eapply flag_stays_cleared; eauto.
Qed.

Lemma blocked_only_on_stopped : forall cmds s,
  Reach fixed cmds s -> pending s <> [] -> step fixed s LInput = None ->
  exists k, latest s = Some k /\ flag s k = false /\ pc s k <> Exited /\ k < length (pcs s).
Proof.
  intros cmds s HR Hp Hs.
  destruct (Inv_reach _ _ HR) as (_ & Hl & _).
  unfold step in Hs. unfold fixed in Hs; cbn [old_go] in Hs.
  destruct (pending s) as [|c rest]; [congruence|].
  destruct c; try discriminate.
  - destruct (latest s) as [k|]; [|discriminate].
    exists k.
    destruct (flag s k && negb (is_exited (pc s k))) eqn:Hb; [discriminate|].
    destruct (is_exited (pc s k)) eqn:He; [discriminate|].
    simpl in Hb. rewrite Bool.andb_true_r in Hb.
    repeat split; auto.
    + intros E. rewrite E in He. discriminate.
    + lia.
  - destruct (latest s); discriminate.
Qed.

Lemma bestmove_after_clear : forall cmds s k,
  Reach fixed cmds s -> k < length (pcs s) ->
  match pc s k with Cleared | Printed | Exited => flag s k = false | _ => True end.
Proof.
  intros cmds s k HR Hk. destruct (Inv_reach _ _ HR) as (_ & _ & _ & Hf & _).
  specialize (Hf k Hk). destruct (pc s k); simpl in Hf; auto.
Qed.

(* ---------- the unrepaired variants ---------- *)

Lemma stop_lost_witness : exists ls,
  let s := run (mkVariant true false) (init [CmdGo; CmdStop]) ls in
  pending s = [] /\ flag s 0 = true /\ pc s 0 = Running.
Proof.
  exists [LInput; LInput; LThread 0 false]. vm_compute. repeat split; reflexivity.
Qed.

Lemma go_dropped_witness : exists ls,
  let s := run (mkVariant false true) (init [CmdGo; CmdGo]) ls in
  total_busy s = 1 /\ count_bestmoves s 0 = 1 /\ pending s = [].
Proof.
  exists [LInput; LThread 0 true; LThread 0 true; LThread 0 true; LThread 0 true; LInput].
  vm_compute. repeat split; reflexivity.
Qed.
