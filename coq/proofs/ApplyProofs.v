(* ApplyProofs.v — make_move refines the rules' [apply] (the core of C03), and two rules-level
   facts about [apply] (rights are monotone, en-passant file iff double push). *)
From Coq Require Import NArith ZArith List Lia Bool.
Import ListNotations.
From RCE Require Import lib.Bits lib.Geometry model.Board model.Movegen model.Wf model.WfFull spec.Rules model.Abs.
From RCE Require Import proofs.BoardProofsPBB proofs.BoardProofsKey proofs.BoardProofs.
Local Open Scope nat_scope.

(* ------------------------------------------------------------------ *)
(* rules-level facts *)
Definition ck_eqb (a b : CastlingKind) : bool := Nat.eqb (ck_idx a) (ck_idx b).

Lemma get_clear r k k' : get_right (clear_right r k) k' = get_right r k' && negb (ck_eqb k k').
Proof. destruct r as [a b c d], k, k'; cbn; rewrite ?andb_true_r, ?andb_false_r; reflexivity. Qed.

(* the squares whose touching clears right k *)
Definition tc (s : nat) (k : CastlingKind) : bool :=
  match k with
  | WK => Nat.eqb s 4 || Nat.eqb s 7
  | WQ => Nat.eqb s 4 || Nat.eqb s 0
  | BK => Nat.eqb s 60 || Nat.eqb s 63
  | BQ => Nat.eqb s 60 || Nat.eqb s 56
  end.

Lemma touch_get r s k : get_right (touch_rights r s) k = get_right r k && negb (tc s k).
Proof.
  unfold touch_rights, tc.
  destruct (Nat.eqb s 4), (Nat.eqb s 60), (Nat.eqb s 0), (Nat.eqb s 7), (Nat.eqb s 56), (Nat.eqb s 63);
    destruct r as [a b c d], k; cbn; rewrite ?andb_true_r, ?andb_false_r; reflexivity.
Qed.

Lemma rights_monotone : forall p m k,
  get_right (rights (apply p m)) k = true -> get_right (rights p) k = true.
Proof.
  intros p m k. unfold apply. cbn [rights]. rewrite !touch_get. intros H.
  apply andb_true_iff in H. destruct H as [H _]. apply andb_true_iff in H. tauto.
Qed.

Lemma ep_iff_double_push : forall p m,
  (exists f, ep (apply p m) = Some f) <-> is_double_push (cells p) m = true.
Proof.
  intros p m. unfold apply. cbn [ep]. destruct (is_double_push (cells p) m).
  - split; [reflexivity|]. intros _. eexists. reflexivity.
  - split; [intros [f H]; discriminate|discriminate].
Qed.

(* ------------------------------------------------------------------ *)
(* the mailbox as a function *)
Lemma set_cell_length c : forall s v, length (set_cell c s v) = length c.
Proof. induction c as [|h t IH]; intros [|s] v; cbn; auto. Qed.

Lemma at_set_cell c : forall s v n, s < length c ->
  at_ (set_cell c s v) n = if Nat.eqb n s then v else at_ c n.
Proof.
  unfold at_. induction c as [|h t IH]; intros s v n Hs; cbn [length] in Hs; [lia|].
  destruct s as [|s]; destruct n as [|n]; cbn [set_cell nth Nat.eqb]; try reflexivity.
  apply IH. lia.
Qed.

Lemma cells_ext (f : nat -> option Kind) c : length c = 64 ->
  (forall n, n < 64 -> f n = at_ c n) -> map f (seq 0 64) = c.
Proof.
  intros L H. apply nth_ext with (d := None) (d' := None).
  - rewrite map_length, seq_length. symmetry. exact L.
  - rewrite map_length, seq_length. intros n Hn.
    rewrite (nth_indep _ None (f 0)) by (rewrite map_length, seq_length; exact Hn).
    rewrite map_nth, seq_nth by exact Hn. apply H. exact Hn.
Qed.

Lemma abs_cells_length b : length (cells (abs b)) = 64.
Proof. unfold abs. cbn [cells]. rewrite map_length, seq_length. reflexivity. Qed.

Lemma nth_map_seq (f : nat -> option Kind) n : n < 64 -> nth n (map f (seq 0 64)) None = f n.
Proof.
  intros Hn. rewrite (nth_indep _ None (f 0)) by (rewrite map_length, seq_length; exact Hn).
  rewrite map_nth, seq_nth by exact Hn. reflexivity.
Qed.

Lemma abs_cells_at b n : n < 64 -> at_ (cells (abs b)) n = get_piece b (sq_of_idx n).
Proof. intros Hn. unfold abs, at_. cbn [cells]. apply (nth_map_seq (fun i => get_piece b (sq_of_idx i))). exact Hn. Qed.

Lemma abs_cells_idx b s : sq_valid s = true -> at_ (cells (abs b)) (idx s) = get_piece b s.
Proof. intros V. rewrite abs_cells_at by (apply idx_lt; exact V). rewrite sq_of_idx_idx by exact V. reflexivity. Qed.

(* ------------------------------------------------------------------ *)
(* coordinates *)
Lemma geo_rank_idx s : sq_valid s = true -> Geometry.rank (idx s) = Z.of_nat (rank s).
Proof.
  intros V. apply sq_valid_lt in V. unfold Geometry.rank, idx. f_equal.
  symmetry. apply (Nat.div_unique _ 8 _ (file s)); lia.
Qed.
Lemma geo_file_idx s : sq_valid s = true -> Geometry.file (idx s) = Z.of_nat (file s).
Proof.
  intros V. apply sq_valid_lt in V. unfold Geometry.file, idx. f_equal.
  symmetry. apply (Nat.mod_unique _ 8 (rank s)); lia.
Qed.
Lemma sq_of_nat r f : sq (Z.of_nat r) (Z.of_nat f) = r * 8 + f.
Proof. unfold sq, mk. lia. Qed.

Lemma ep_sq_eq s d : sq_valid s = true -> sq_valid d = true ->
  sq (Geometry.rank (idx s)) (Geometry.file (idx d)) = idx (ep_capture_square s d).
Proof. intros Vs Vd. rewrite geo_rank_idx, geo_file_idx, sq_of_nat by assumption. reflexivity. Qed.

Lemma ep_sq_valid s d : sq_valid s = true -> sq_valid d = true -> sq_valid (ep_capture_square s d) = true.
Proof.
  unfold ep_capture_square, sq_valid. cbn [rank file]. intros Vs Vd.
  apply andb_true_iff in Vs, Vd. apply andb_true_iff. tauto.
Qed.

Lemma sq_eqb_idx s n : sq_valid s = true -> n < 64 -> sq_eqb s (sq_of_idx n) = Nat.eqb n (idx s).
Proof.
  intros V Hn. destruct (sq_eqb_spec s (sq_of_idx n)) as [E|E]; destruct (Nat.eqb_spec n (idx s)) as [E'|E'];
    try reflexivity; exfalso.
  - apply E'. rewrite E. symmetry. apply idx_sq_of_idx.
  - apply E. subst n. symmetry. apply sq_of_idx_idx. exact V.
Qed.

Definition is_sq (s : Square) (r f : nat) : bool := Nat.eqb (rank s) r && Nat.eqb (file s) f.
Lemma is_sq_eq s r f : is_sq s r f = true -> s = mkSq r f.
Proof.
  unfold is_sq. intros H. apply andb_true_iff in H. destruct H as [H1 H2].
  apply Nat.eqb_eq in H1, H2. destruct s; cbn in *; subst; reflexivity.
Qed.
Lemma idx_eqb_is_sq s r f : sq_valid s = true -> f < 8 -> Nat.eqb (idx s) (r * 8 + f) = is_sq s r f.
Proof.
  intros V Hf. apply sq_valid_lt in V. unfold idx, is_sq.
  destruct (Nat.eqb_spec (rank s * 8 + file s) (r * 8 + f)), (Nat.eqb_spec (rank s) r), (Nat.eqb_spec (file s) f);
    cbn; try reflexivity; lia.
Qed.

(* ------------------------------------------------------------------ *)
(* counters *)
Lemma wrap16_small x : (x < 65536)%N -> wrap16 x = x.
Proof.
  intros H. unfold wrap16, u16_max. change 65535%N with (N.ones 16). rewrite N.land_ones.
  apply N.mod_small. exact H.
Qed.

(* ------------------------------------------------------------------ *)
(* more of what move_okb gives: a promoted piece has the mover's colour *)
Lemma move_ok_promo b m t c : move_okb b m = true -> p_promoted m = Some (t, c) -> c = snd (p_piece m).
Proof.
  intros H E. unfold move_okb in H. cbv zeta in H.
  apply andb_true_iff in H; destruct H as [H _].
  apply andb_true_iff in H; destruct H as [H _].
  apply andb_true_iff in H; destruct H as [_ H].
  rewrite E in H.
  apply andb_true_iff in H; destruct H as [H _].
  apply andb_true_iff in H; destruct H as [H _].
  apply andb_true_iff in H; destruct H as [_ H].
  destruct (color_eqb_spec c (snd (p_piece m))); congruence.
Qed.

Lemma flags_facts b m : flags_ok b m = true ->
  is_castle (cells (abs b)) (move_of m) = p_castles m /\
  is_ep (abs b) (move_of m) = p_ep m /\
  is_double_push (cells (abs b)) (move_of m) = p_dpp m /\
  is_capture_move (abs b) (move_of m) = is_capture m.
Proof.
  unfold flags_ok. cbv zeta. intros H.
  apply andb_true_iff in H; destruct H as [H H4].
  apply andb_true_iff in H; destruct H as [H H3].
  apply andb_true_iff in H; destruct H as [H1 H2].
  apply eqb_prop in H1, H2, H3, H4. auto.
Qed.

(* ------------------------------------------------------------------ *)
(* the placement function after make_move *)
Definition mk_fun (g : Square -> PieceAt) (c : Color) (m : Ply) : Square -> PieceAt :=
  let f1 := mp_fun g (p_start m) (p_dest m) (p_piece m) (dk (p_piece m) (p_promoted m)) (p_captured m)
                   (capsq (p_start m) (p_dest m) (p_ep m)) in
  if p_castles m then
    match castle_rook_squares (p_dest m) with
    | Some (rs, rd) => mp_fun f1 rs rd (Rook, c) (Rook, c) None rd
    | None => f1
    end
  else f1.

Lemma make_rep_fun b m : PWf (bbs b) -> move_okb b m = true ->
  forall x, sq_valid x = true ->
  get_piece_kind (castle_bbs (mv_bbs (bbs b) m) (current_turn b) m) x =
  mk_fun (get_piece_kind (bbs b)) (current_turn b) m x.
Proof.
  intros W H.
  destruct (move_ok_facts b m W H) as (Vs & Vd & Nsd & Hs & Hk & NP & Hc & Hcs & _). cbv zeta in *.
  pose proof (Rep_self _ W) as R0.
  pose proof (mp_rep _ _ _ _ _ _ (dk (p_piece m) (p_promoted m)) _ _ R0 Vs Vd Nsd Hs Hc) as R1.
  fold (mv_bbs (bbs b) m) in R1.
  unfold castle_bbs, mk_fun. cbv zeta. destruct (p_castles m) eqn:Ecs.
  - destruct (Hcs eq_refl) as (Ecap & Eprom & Eep & rs & rd & Er & Vrs & Vrd & Hrs & Hrd & N1 & N2 & N3 & N4 & N5).
    rewrite Er.
    assert (R2 : Rep (mp_bbs (mv_bbs (bbs b) m) rs rd (Rook, current_turn b) (Rook, current_turn b) None rd)
                     (mp_fun (mp_fun (get_piece_kind (bbs b)) (p_start m) (p_dest m) (p_piece m)
                                     (dk (p_piece m) (p_promoted m)) (p_captured m)
                                     (capsq (p_start m) (p_dest m) (p_ep m)))
                             rs rd (Rook, current_turn b) (Rook, current_turn b) None rd)
                     (N.lxor (N.lxor (pk (bbs b))
                                (mp_kw (p_start m) (p_dest m) (p_piece m) (dk (p_piece m) (p_promoted m))
                                       (p_captured m) (capsq (p_start m) (p_dest m) (p_ep m))))
                             (mp_kw rs rd (Rook, current_turn b) (Rook, current_turn b) None rd))).
    { apply mp_rep; [exact R1|exact Vrs|exact Vrd|exact N5| |].
      - rewrite Ecap. unfold mp_fun, upd. sq_simp. rewrite <- Hk. exact Hrs.
      - cbn [cap_ok]. rewrite Ecap. unfold mp_fun, upd. sq_simp. exact Hrd. }
    destruct R2 as [_ [G _]]. exact G.
  - destruct R1 as [_ [G _]]. exact G.
Qed.

(* ------------------------------------------------------------------ *)
(* castling: where everything stands *)
Lemma mover_at b m : PWf (bbs b) -> move_okb b m = true ->
  at_ (cells (abs b)) (idx (p_start m)) = Some (p_piece m).
Proof.
  intros W Hm. destruct (move_ok_facts b m W Hm) as (Vs & _ & _ & Hs & _). cbv zeta in *.
  rewrite abs_cells_idx by exact Vs. unfold get_piece. rewrite Hs. reflexivity.
Qed.

Lemma castle_geometry b m : PWf (bbs b) -> move_okb b m = true -> p_castles m = true ->
  is_castle (cells (abs b)) (move_of m) = true -> rank (p_start m) = rank (p_dest m) ->
  (p_start m = mkSq 0 4 /\ p_dest m = mkSq 0 6 /\ castle_rook_squares (p_dest m) = Some (mkSq 0 7, mkSq 0 5)) \/
  (p_start m = mkSq 0 4 /\ p_dest m = mkSq 0 2 /\ castle_rook_squares (p_dest m) = Some (mkSq 0 0, mkSq 0 3)) \/
  (p_start m = mkSq 7 4 /\ p_dest m = mkSq 7 6 /\ castle_rook_squares (p_dest m) = Some (mkSq 7 7, mkSq 7 5)) \/
  (p_start m = mkSq 7 4 /\ p_dest m = mkSq 7 2 /\ castle_rook_squares (p_dest m) = Some (mkSq 7 0, mkSq 7 3)).
Proof.
  intros W Hm Ec Hic Hr.
  pose proof (mover_at b m W Hm) as Hmv.
  destruct (move_ok_facts b m W Hm) as (Vs & Vd & Nsd & Hs & Hk & NP & Hc & Hcs & _). cbv zeta in *.
  destruct (Hcs Ec) as (Ecap & Eprom & Eep & rs & rd & Er & Vrs & Vrd & Hrs & Hrd & N1 & N2 & N3 & N4 & N5).
  unfold is_castle in Hic. cbn [m_from m_to move_of] in Hic. rewrite Hmv in Hic.
  rewrite (geo_file_idx _ Vs), (geo_file_idx _ Vd) in Hic.
  apply sq_valid_lt in Vs. destruct Vs as [Vs1 Vs2].
  destruct (p_piece m) as [[] kc]; try discriminate Hic. apply Z.eqb_eq in Hic.
  destruct (p_start m) as [sr sf], (p_dest m) as [dr df]. cbn [rank file] in *. subst sr.
  unfold castle_rook_squares in *. cbn [rank file] in *.
  destruct dr as [|[|[|[|[|[|[|[|dr]]]]]]]]; try discriminate Er;
    destruct df as [|[|[|[|[|[|[|[|df]]]]]]]]; try discriminate Er;
    injection Er as <- <-.
  - right; left. assert (sf = 4 \/ sf = 0) as [->| ->] by lia; [auto|]. exfalso; apply N1; reflexivity.
  - left. assert (sf = 4) as -> by lia. auto.
  - right; right; right. assert (sf = 4 \/ sf = 0) as [->| ->] by lia; [auto|]. exfalso; apply N1; reflexivity.
  - right; right; left. assert (sf = 4) as -> by lia. auto.
Qed.

(* ------------------------------------------------------------------ *)
(* the 64 cells *)
Lemma apply_cells p mv : cells (apply p mv) =
  let c := cells p in let col := side p in
  let placed := match m_promo mv, at_ c (m_from mv) with Some t, _ => Some (t, col) | None, k => k end in
  let c3 := set_cell (if is_ep p mv
                      then set_cell (set_cell c (m_from mv) None)
                                    (sq (Geometry.rank (m_from mv)) (Geometry.file (m_to mv))) None
                      else set_cell c (m_from mv) None) (m_to mv) placed in
  if is_castle c mv then
    (if Nat.ltb (m_from mv) (m_to mv)
     then set_cell (set_cell c3 (m_from mv + 3) None) (m_from mv + 1) (Some (Rook, col))
     else set_cell (set_cell c3 (m_from mv - 4) None) (m_from mv - 1) (Some (Rook, col)))
  else c3.
Proof. reflexivity. Qed.

Ltac eqb_cases :=
  repeat match goal with
         | |- context [Nat.eqb ?a ?b] => destruct (Nat.eqb a b)
         end.

Lemma cells_refine b m : PWf (bbs b) -> move_okb b m = true -> flags_ok b m = true ->
  (p_castles m = true -> rank (p_start m) = rank (p_dest m)) ->
  map (fun i => piece_opt (mk_fun (get_piece_kind (bbs b)) (current_turn b) m (sq_of_idx i))) (seq 0 64)
  = cells (apply (abs b) (move_of m)).
Proof.
  intros W Hm Hf Hcr.
  pose proof (mover_at b m W Hm) as Hmv.
  destruct (move_ok_facts b m W Hm) as (Vs & Vd & Nsd & Hs & Hk & NP & Hc & Hcs & _). cbv zeta in *.
  destruct (flags_facts b m Hf) as (Fc & Fe & _ & _).
  assert (Ac : forall n, n < 64 -> at_ (cells (abs b)) n = piece_opt (get_piece_kind (bbs b) (sq_of_idx n))).
  { intros n Hn. rewrite abs_cells_at by exact Hn. reflexivity. }
  pose proof (abs_cells_length b) as Lc.
  rewrite apply_cells. cbv zeta. rewrite Fc, Fe.
  change (side (abs b)) with (current_turn b).
  change (m_from (move_of m)) with (idx (p_start m)).
  change (m_to (move_of m)) with (idx (p_dest m)).
  rewrite Hmv.
  assert (Pl : match m_promo (move_of m) with Some t => Some (t, current_turn b) | None => Some (p_piece m) end
               = Some (dk (p_piece m) (p_promoted m))).
  { unfold move_of; cbn [m_promo]. destruct (p_promoted m) as [[t c]|] eqn:Ep; cbn [dk fst]; [|reflexivity].
    rewrite (move_ok_promo b m t c Hm Ep), Hk. reflexivity. }
  rewrite Pl. clear Pl.
  pose proof (idx_lt _ Vs) as Ls. pose proof (idx_lt _ Vd) as Ld.
  set (c := cells (abs b)) in *. set (g := get_piece_kind (bbs b)) in *.
  unfold mk_fun. cbv zeta.
  destruct (p_castles m) eqn:Ec.
  - (* castling *)
    destruct (Hcs eq_refl) as (Ecap & Eprom & Eep & _).
    rewrite Ecap, Eprom, Eep. cbn [dk capsq].
    destruct (castle_geometry b m W Hm Ec Fc (Hcr eq_refl)) as [(Es & Ed & Er)|[(Es & Ed & Er)|[(Es & Ed & Er)|(Es & Ed & Er)]]];
      rewrite Er, Es, Ed;
      match goal with
      | |- context [Nat.ltb (idx ?a) (idx ?b)] =>
        let va := eval vm_compute in (idx a) in let vb := eval vm_compute in (idx b) in
        change (idx a) with va; change (idx b) with vb
      end;
      match goal with
      | |- context [Nat.ltb ?a ?b] => let v := eval vm_compute in (Nat.ltb a b) in change (Nat.ltb a b) with v
      end; cbv iota;
      (apply cells_ext; [rewrite !set_cell_length; exact Lc|]);
      intros n Hn; cbn [Nat.add Nat.sub];
      rewrite !at_set_cell by (rewrite ?set_cell_length, Lc; lia);
      unfold mp_fun, upd; rewrite !sq_eqb_idx by (reflexivity || assumption);
      cbn [idx rank file Nat.mul Nat.add];
      eqb_cases; cbn [piece_opt]; try reflexivity; symmetry; apply Ac; exact Hn.
  - (* ordinary moves, promotions, en passant *)
    destruct (p_ep m) eqn:Ee; destruct (p_captured m) as [cp|] eqn:Ecap; try discriminate NP;
      cbn [cap_ok capsq] in *;
      (apply cells_ext; [rewrite !set_cell_length; exact Lc|]);
      intros n Hn.
    + destruct Hc as (Vq & _).
      rewrite (ep_sq_eq _ _ Vs Vd).
      pose proof (idx_lt _ Vq) as Lq.
      rewrite !at_set_cell by (rewrite ?set_cell_length, Lc; lia).
      unfold mp_fun, upd; rewrite !sq_eqb_idx by assumption.
      eqb_cases; cbn [piece_opt]; try reflexivity; symmetry; apply Ac; exact Hn.
    + rewrite !at_set_cell by (rewrite ?set_cell_length, Lc; lia).
      unfold mp_fun, upd; rewrite !sq_eqb_idx by assumption.
      eqb_cases; cbn [piece_opt]; try reflexivity; symmetry; apply Ac; exact Hn.
    + rewrite !at_set_cell by (rewrite ?set_cell_length, Lc; lia).
      unfold mp_fun, upd; rewrite !sq_eqb_idx by assumption.
      eqb_cases; cbn [piece_opt]; try reflexivity; symmetry; apply Ac; exact Hn.
Qed.

(* ------------------------------------------------------------------ *)
(* castling rights: the engine's revocations as conditions *)
Lemma revoke_snd st k : snd (revoke st k) = clear_right (snd st) k.
Proof.
  unfold revoke. destruct (get_right (snd st) k) eqn:E; [reflexivity|].
  destruct st as [z [a b c d]]. cbn [snd] in *. destruct k; cbn in *; subst; reflexivity.
Qed.

Definition ec1 (m : Ply) (k : CastlingKind) : bool :=
  match k with
  | WK => kind_eqb (p_piece m) (King, White) || kind_eqb (p_piece m) (Rook, White) && is_sq (p_start m) 0 7
  | WQ => kind_eqb (p_piece m) (King, White) || kind_eqb (p_piece m) (Rook, White) && is_sq (p_start m) 0 0
  | BK => kind_eqb (p_piece m) (King, Black) || kind_eqb (p_piece m) (Rook, Black) && is_sq (p_start m) 7 7
  | BQ => kind_eqb (p_piece m) (King, Black) || kind_eqb (p_piece m) (Rook, Black) && is_sq (p_start m) 7 0
  end.
Definition ec2 (m : Ply) (k : CastlingKind) : bool :=
  match k with
  | WK => okind_eqb (p_captured m) (Some (Rook, White)) && is_sq (p_dest m) 0 7
  | WQ => okind_eqb (p_captured m) (Some (Rook, White)) && is_sq (p_dest m) 0 0
  | BK => okind_eqb (p_captured m) (Some (Rook, Black)) && is_sq (p_dest m) 7 7
  | BQ => okind_eqb (p_captured m) (Some (Rook, Black)) && is_sq (p_dest m) 7 0
  end.

Ltac nat_match_cases :=
  repeat match goal with
         | |- context [match ?x with O => _ | S _ => _ end] => is_var x; destruct x
         end.

Lemma cr1_get m st k : get_right (snd (cr1 m st)) k = get_right (snd st) k && negb (ec1 m k).
Proof.
  unfold cr1, ec1, is_sq. destruct (p_piece m) as [[] []], (p_start m) as [r f]; cbn [rank file];
    nat_match_cases; rewrite ?revoke_snd, ?get_clear;
    destruct k; cbn; rewrite ?andb_true_r, ?andb_false_r; reflexivity.
Qed.

Lemma cr2_get m st k : get_right (snd (cr2 m st)) k = get_right (snd st) k && negb (ec2 m k).
Proof.
  unfold cr2, ec2, is_sq. destruct (p_captured m) as [[[] []]|], (p_dest m) as [r f]; cbn [rank file];
    nat_match_cases; rewrite ?revoke_snd, ?get_clear;
    destruct k; cbn; rewrite ?andb_true_r, ?andb_false_r; reflexivity.
Qed.

Lemma cr_get m st k :
  get_right (snd (castling_revocations m st)) k = get_right (snd st) k && negb (ec1 m k || ec2 m k).
Proof. rewrite cr_eq, cr2_get, cr1_get, negb_orb, andb_assoc. reflexivity. Qed.

Lemma rights_ext r r' : (forall k, get_right r k = get_right r' k) -> r = r'.
Proof.
  intros H. pose proof (H WK). pose proof (H WQ). pose proof (H BK). pose proof (H BQ).
  destruct r, r'. cbn in *. subst. reflexivity.
Qed.

(* at most one king of each colour *)
Definition king_unique (b : Board) : Prop :=
  forall c s1 s2, sq_valid s1 = true -> sq_valid s2 = true ->
    get_piece b s1 = Some (King, c) -> get_piece b s2 = Some (King, c) -> s1 = s2.

Lemma gpk_get_piece b s k : get_piece_kind (bbs b) s = PSome k -> get_piece b s = Some k.
Proof. intros H. unfold get_piece. rewrite H. reflexivity. Qed.

Lemma is_sq_refl r f : is_sq (mkSq r f) r f = true.
Proof. unfold is_sq. cbn [rank file]. rewrite !Nat.eqb_refl. reflexivity. Qed.

Lemma right_case b m col hr rf : PWf (bbs b) -> move_okb b m = true -> king_unique b ->
  (forall c, p_captured m <> Some (King, c)) ->
  hr < 8 -> rf < 8 ->
  get_piece_kind (bbs b) (mkSq hr 4) = PSome (King, col) ->
  get_piece_kind (bbs b) (mkSq hr rf) = PSome (Rook, col) ->
  (kind_eqb (p_piece m) (King, col) || kind_eqb (p_piece m) (Rook, col) && is_sq (p_start m) hr rf)
  || (okind_eqb (p_captured m) (Some (Rook, col)) && is_sq (p_dest m) hr rf)
  = (Nat.eqb (idx (p_start m)) (hr * 8 + 4) || Nat.eqb (idx (p_start m)) (hr * 8 + rf))
    || (Nat.eqb (idx (p_dest m)) (hr * 8 + 4) || Nat.eqb (idx (p_dest m)) (hr * 8 + rf)).
Proof.
  intros W Hm KU Hnk Lhr Lrf HK HR.
  destruct (move_ok_facts b m W Hm) as (Vs & Vd & Nsd & Hs & Hk & NP & Hc & _). cbv zeta in *.
  rewrite !idx_eqb_is_sq by (assumption || lia).
  assert (A1 : kind_eqb (p_piece m) (King, col) = is_sq (p_start m) hr 4).
  { destruct (is_sq (p_start m) hr 4) eqn:E.
    - apply is_sq_eq in E. rewrite E in Hs. rewrite HK in Hs. injection Hs as <-. apply kind_eqb_refl.
    - destruct (kind_eqb_spec (p_piece m) (King, col)) as [Ek|]; [|reflexivity]. exfalso.
      rewrite Ek in Hs.
      assert (Es : p_start m = mkSq hr 4).
      { apply (KU col); try assumption.
        - unfold sq_valid. cbn [rank file]. apply andb_true_iff. split; apply Nat.ltb_lt; lia.
        - apply gpk_get_piece. exact Hs.
        - apply gpk_get_piece. exact HK. }
      rewrite Es, is_sq_refl in E. discriminate. }
  assert (A2 : is_sq (p_start m) hr rf = true -> kind_eqb (p_piece m) (Rook, col) = true).
  { intros E. apply is_sq_eq in E. rewrite E in Hs. rewrite HR in Hs. injection Hs as <-. apply kind_eqb_refl. }
  assert (A3 : is_sq (p_dest m) hr 4 = false).
  { destruct (is_sq (p_dest m) hr 4) eqn:E; [|reflexivity]. exfalso. apply is_sq_eq in E.
    destruct (p_captured m) as [cp|] eqn:Ecap; cbn [cap_ok] in Hc.
    - destruct Hc as (_ & Hq & _ & [Eq|[_ Hd]]).
      + rewrite Eq, E, HK in Hq. injection Hq as <-. apply (Hnk col). reflexivity.
      + rewrite E, HK in Hd. discriminate.
    - rewrite E, HK in Hc. discriminate. }
  assert (A4 : is_sq (p_dest m) hr rf = true -> okind_eqb (p_captured m) (Some (Rook, col)) = true).
  { intros E. apply is_sq_eq in E.
    destruct (p_captured m) as [cp|] eqn:Ecap; cbn [cap_ok] in Hc.
    - destruct Hc as (_ & Hq & _ & [Eq|[_ Hd]]).
      + rewrite Eq, E, HR in Hq. injection Hq as <-. cbn [okind_eqb]. apply kind_eqb_refl.
      + rewrite E, HR in Hd. discriminate.
    - rewrite E, HR in Hc. discriminate. }
  rewrite A1, A3.
  destruct (is_sq (p_start m) hr rf); [rewrite (A2 eq_refl)|];
    (destruct (is_sq (p_dest m) hr rf); [rewrite (A4 eq_refl)|]);
    destruct (is_sq (p_start m) hr 4); cbn; rewrite ?andb_false_r, ?orb_false_r; reflexivity.
Qed.

Lemma rc_facts b k : rights_consistent b = true -> get_right (p_rights (last_ply b)) k = true ->
  let col := match k with WK | WQ => White | _ => Black end in
  let hr := match k with WK | WQ => 0 | _ => 7 end in
  let rf := match k with WK | BK => 7 | _ => 0 end in
  get_piece_kind (bbs b) (mkSq hr 4) = PSome (King, col) /\
  get_piece_kind (bbs b) (mkSq hr rf) = PSome (Rook, col).
Proof.
  unfold rights_consistent. cbv zeta. intros H E.
  apply andb_true_iff in H; destruct H as [H H4].
  apply andb_true_iff in H; destruct H as [H H3].
  apply andb_true_iff in H; destruct H as [H1 H2].
  unfold has in *.
  destruct k; cbn [get_right] in E;
    [rewrite E in H1; apply andb_true_iff in H1; destruct H1 as [X Y]
    |rewrite E in H2; apply andb_true_iff in H2; destruct H2 as [X Y]
    |rewrite E in H3; apply andb_true_iff in H3; destruct H3 as [X Y]
    |rewrite E in H4; apply andb_true_iff in H4; destruct H4 as [X Y]];
    split; apply get_piece_some; assumption.
Qed.

Lemma rights_refine b m : PWf (bbs b) -> rights_consistent b = true -> move_okb b m = true ->
  king_unique b -> (forall c, p_captured m <> Some (King, c)) ->
  snd (crr b m) = touch_rights (touch_rights (p_rights (last_ply b)) (idx (p_start m))) (idx (p_dest m)).
Proof.
  intros W RC Hm KU Hnk. apply rights_ext. intros k. unfold crr.
  rewrite cr_get, !touch_get. cbn [snd].
  destruct (get_right (p_rights (last_ply b)) k) eqn:Er; [|reflexivity]. cbn [andb].
  rewrite <- negb_orb. f_equal.
  destruct (rc_facts b k RC Er) as [HK HR].
  destruct k; cbv zeta iota in HK, HR; unfold ec1, ec2, tc.
  - exact (right_case b m White 0 7 W Hm KU Hnk ltac:(lia) ltac:(lia) HK HR).
  - exact (right_case b m White 0 0 W Hm KU Hnk ltac:(lia) ltac:(lia) HK HR).
  - exact (right_case b m Black 7 7 W Hm KU Hnk ltac:(lia) ltac:(lia) HK HR).
  - exact (right_case b m Black 7 0 W Hm KU Hnk ltac:(lia) ltac:(lia) HK HR).
Qed.

(* ------------------------------------------------------------------ *)
(* the refinement *)
Lemma pos_eq c s r e h f c' s' r' e' h' f' :
  c = c' -> s = s' -> r = r' -> e = e' -> h = h' -> f = f' -> mkPos c s r e h f = mkPos c' s' r' e' h' f'.
Proof. intros; subst; reflexivity. Qed.

Lemma wf_full_facts b : wf_full b = true ->
  wfb b = true /\ rights_consistent b = true.
Proof.
  unfold wf_full. intros H.
  apply andb_true_iff in H; destruct H as [H _].
  apply andb_true_iff in H; destruct H as [H _].
  apply andb_true_iff in H; destruct H as [H _].
  apply andb_true_iff in H; destruct H as [H1 H2]. auto.
Qed.

(* Two hypotheses on top of the requested statement are necessary (see the counterexamples in
   the report): at most one king per colour, and a castling ply keeps the king on its rank.  The
   third (no king is captured) keeps this file independent of the attack/check equivalence. *)
Lemma make_refines_apply_gen : forall b m,
  wfb b = true -> rights_consistent b = true -> king_unique b ->
  move_okb b m = true -> flags_ok b m = true ->
  (forall c, p_captured m <> Some (King, c)) ->
  (p_castles m = true -> rank (p_start m) = rank (p_dest m)) ->
  (Board.fullmove b < 65535)%N -> (halfmove_clock b < 65535)%N ->
  abs (make_move b m) = apply (abs b) (move_of m).
Proof.
  intros b m Wb RC KU Hm Hf Hnk Hcr Lfm Lhm.
  destruct (wfb_facts b Wb) as (W & _).
  pose proof (mover_at b m W Hm) as Hmv.
  destruct (move_ok_facts b m W Hm) as (Vs & Vd & Nsd & Hs & Hk & NP & Hc & Hcs & _). cbv zeta in *.
  destruct (flags_facts b m Hf) as (Fc & Fe & Fd & Fcap).
  pose proof (cells_refine b m W Hm Hf Hcr) as Hcells.
  pose proof (rights_refine b m W RC Hm KU Hnk) as Hrights.
  rewrite (make_move_eq b m NP).
  unfold abs at 1. unfold halfmove_clock at 1. unfold last_ply at 1 2.
  cbn [current_turn Board.fullmove ep_file history bbs].
  unfold get_piece. cbn [bbs].
  change (apply (abs b) (move_of m)) with
    (mkPos (cells (apply (abs b) (move_of m))) (side (apply (abs b) (move_of m)))
           (rights (apply (abs b) (move_of m))) (ep (apply (abs b) (move_of m)))
           (halfmove (apply (abs b) (move_of m))) (fullmove (apply (abs b) (move_of m)))).
  apply pos_eq.
  - rewrite <- Hcells. apply map_ext_in. intros i Hi. apply in_seq in Hi.
    rewrite (make_rep_fun b m W Hm) by (apply sq_of_idx_valid; lia). reflexivity.
  - reflexivity.
  - unfold new_ply. cbn [p_rights set_clock_rights]. rewrite Hrights. reflexivity.
  - unfold new_ep. unfold apply. cbn [ep]. rewrite Fd.
    change (m_to (move_of m)) with (idx (p_dest m)).
    rewrite (geo_file_idx _ Vd), Nat2Z.id. reflexivity.
  - unfold new_ply. cbn [p_halfmove set_clock_rights]. unfold new_hm.
    unfold apply. cbn [halfmove]. rewrite Fcap.
    change (m_from (move_of m)) with (idx (p_start m)). rewrite Hmv.
    change (halfmove (abs b)) with (halfmove_clock b). unfold is_capture.
    fold (halfmove_clock b).
    destruct (p_piece m) as [[] kc], (p_captured m); cbn [orb]; try reflexivity;
      apply wrap16_small; lia.
  - unfold apply. cbn [fullmove]. change (side (abs b)) with (current_turn b).
    change (fullmove (abs b)) with (Board.fullmove b).
    destruct (current_turn b); cbn [opposite color_eqb]; [reflexivity|].
    apply wrap16_small. lia.
Qed.

Lemma make_refines_apply : forall b m,
  wf_full b = true -> king_unique b -> move_okb b m = true -> flags_ok b m = true ->
  (forall c, p_captured m <> Some (King, c)) ->
  (p_castles m = true -> rank (p_start m) = rank (p_dest m)) ->
  (Board.fullmove b < 65535)%N -> (halfmove_clock b < 65535)%N ->
  abs (make_move b m) = apply (abs b) (move_of m).
Proof.
  intros b m Wf. destruct (wf_full_facts b Wf) as [Wb RC].
  apply make_refines_apply_gen; assumption.
Qed.

(* ------------------------------------------------------------------ *)
(* king uniqueness: a boolean form, and its preservation by make_move *)
Lemma okind_eqb_refl o : okind_eqb o o = true.
Proof. destruct o; cbn; [apply kind_eqb_refl|reflexivity]. Qed.

Lemma two_le_length (l : list nat) a b : In a l -> In b l -> a <> b -> 2 <= length l.
Proof.
  intros Ha Hb N.
  assert (ND : NoDup [a; b]).
  { constructor; [cbn; intros [X|[]]; congruence|]. constructor; [intros []|constructor]. }
  assert (I : incl [a; b] l).
  { intros x [<-|[<-|[]]]; assumption. }
  pose proof (NoDup_incl_length ND I) as L. exact L.
Qed.

Lemma all_eq_length (l : list nat) : NoDup l -> (forall i j, In i l -> In j l -> i = j) -> length l <= 1.
Proof.
  intros ND A. destruct l as [|x [|y t]]; cbn [length]; try lia. exfalso.
  assert (x = y) by (apply A; cbn; auto). subst y.
  inversion ND as [|? ? Hx _]. apply Hx. left. reflexivity.
Qed.

Lemma in_seq64 n : In n (seq 0 64) <-> n < 64.
Proof. rewrite in_seq. lia. Qed.

Definition king_list (b : Board) (c : Color) : list nat :=
  filter (fun i => okind_eqb (get_piece b (sq_of_idx i)) (Some (King, c))) (seq 0 64).
Lemma king_list_In b c i : In i (king_list b c) <-> i < 64 /\ get_piece b (sq_of_idx i) = Some (King, c).
Proof.
  unfold king_list. rewrite filter_In, in_seq64. split; intros [H1 H2]; (split; [exact H1|]).
  - apply okind_eqb_eq. exact H2.
  - rewrite H2. apply okind_eqb_refl.
Qed.
Lemma king_list_NoDup b c : NoDup (king_list b c).
Proof. unfold king_list. apply NoDup_filter, seq_NoDup. Qed.
Definition one_kingb (b : Board) : bool :=
  Nat.leb (length (king_list b White)) 1 && Nat.leb (length (king_list b Black)) 1.

Lemma one_kingb_iff b : one_kingb b = true <-> king_unique b.
Proof.
  unfold one_kingb, king_unique. split.
  - intros H c s1 s2 V1 V2 E1 E2.
    assert (Hc : length (king_list b c) <= 1).
    { apply andb_true_iff in H. destruct H as [Hw Hb]. apply Nat.leb_le in Hw, Hb. destruct c; assumption. }
    destruct (Nat.eq_dec (idx s1) (idx s2)) as [E|N]; [apply idx_inj; assumption|]. exfalso.
    assert (L : 2 <= length (king_list b c)).
    { apply (two_le_length _ (idx s1) (idx s2)); [| |exact N]; apply king_list_In;
        (split; [apply idx_lt; assumption|rewrite sq_of_idx_idx by assumption; assumption]). }
    generalize dependent (length (king_list b c)). intros n Hn1 Hn2. lia.
  - intros KU.
    assert (G : forall c, length (king_list b c) <= 1).
    { intros c. apply all_eq_length; [apply king_list_NoDup|].
      intros i j Hi Hj. apply king_list_In in Hi, Hj. destruct Hi as [Hi Ei], Hj as [Hj Ej].
      rewrite <- (idx_sq_of_idx i), <- (idx_sq_of_idx j). f_equal.
      apply (KU c); try assumption; apply sq_of_idx_valid; assumption. }
    apply andb_true_iff. split; apply Nat.leb_le; apply G.
Qed.

Lemma move_ok_promo_nk b m t c : move_okb b m = true -> p_promoted m = Some (t, c) -> t <> King.
Proof.
  intros H E. unfold move_okb in H. cbv zeta in H.
  apply andb_true_iff in H; destruct H as [H _].
  apply andb_true_iff in H; destruct H as [H _].
  apply andb_true_iff in H; destruct H as [_ H].
  rewrite E in H.
  apply andb_true_iff in H; destruct H as [_ H].
  intros ->. discriminate H.
Qed.

Lemma get_piece_make b m x : PWf (bbs b) -> move_okb b m = true -> sq_valid x = true ->
  get_piece (make_move b m) x = piece_opt (mk_fun (get_piece_kind (bbs b)) (current_turn b) m x).
Proof.
  intros W Hm Vx.
  destruct (move_ok_facts b m W Hm) as (_ & _ & _ & _ & _ & NP & _).
  rewrite (make_move_eq b m NP). unfold get_piece. cbn [bbs].
  rewrite (make_rep_fun b m W Hm x Vx). reflexivity.
Qed.

Lemma king_after b m x c : PWf (bbs b) -> move_okb b m = true -> sq_valid x = true ->
  mk_fun (get_piece_kind (bbs b)) (current_turn b) m x = PSome (King, c) ->
  (x = p_dest m /\ get_piece_kind (bbs b) (p_start m) = PSome (King, c)) \/
  (x <> p_start m /\ get_piece_kind (bbs b) x = PSome (King, c)).
Proof.
  intros W Hm Vx.
  destruct (move_ok_facts b m W Hm) as (Vs & Vd & Nsd & Hs & Hk & NP & Hc & Hcs & _). cbv zeta in *.
  assert (D : PSome (dk (p_piece m) (p_promoted m)) = PSome (King, c) ->
              get_piece_kind (bbs b) (p_start m) = PSome (King, c)).
  { destruct (p_promoted m) as [[t c']|] eqn:Ep; cbn [dk]; intros E.
    - exfalso. apply (move_ok_promo_nk b m t c' Hm Ep). congruence.
    - rewrite Hs. exact E. }
  unfold mk_fun. cbv zeta. unfold mp_fun, upd.
  destruct (p_castles m); [destruct (castle_rook_squares (p_dest m)) as [[rs rd]|]|];
    destruct (p_captured m); sq_cases; intros E; try discriminate E;
    try (left; split; [reflexivity|apply D; exact E]);
    right; (split; [congruence|exact E]).
Qed.

Lemma king_unique_make b m : PWf (bbs b) -> move_okb b m = true -> king_unique b ->
  king_unique (make_move b m).
Proof.
  intros W Hm KU c s1 s2 V1 V2 E1 E2.
  destruct (move_ok_facts b m W Hm) as (Vs & Vd & _). cbv zeta in *.
  rewrite (get_piece_make b m s1 W Hm V1) in E1. rewrite (get_piece_make b m s2 W Hm V2) in E2.
  assert (P : forall x, piece_opt (mk_fun (get_piece_kind (bbs b)) (current_turn b) m x) = Some (King, c) ->
                        mk_fun (get_piece_kind (bbs b)) (current_turn b) m x = PSome (King, c)).
  { intros x. destruct (mk_fun _ _ m x); cbn [piece_opt]; congruence. }
  apply P in E1, E2.
  destruct (king_after b m s1 c W Hm V1 E1) as [[X1 G1]|[X1 G1]];
    destruct (king_after b m s2 c W Hm V2 E2) as [[X2 G2]|[X2 G2]].
  - congruence.
  - exfalso. apply X2. apply (KU c); try assumption; apply gpk_get_piece; assumption.
  - exfalso. apply X1. apply (KU c); try assumption; apply gpk_get_piece; assumption.
  - apply (KU c); try assumption; apply gpk_get_piece; assumption.
Qed.
