(* SearchMateProofs.v — proofs for C12 (cache ON): a completed iteration of any depth >= 1 chooses a
   mating move whenever one exists, for every cache content satisfying `cache_ok`, and re-establishes
   `cache_ok`.  Also: counterexamples (closed by vm_compute) showing why no invariant that only
   bounds the cached SCORES is both maintained by the search and sufficient. *)
From Coq Require Import NArith ZArith List Lia Bool FMapPositive Permutation.
Import ListNotations.
From RCE Require Import model.Search proofs.SearchProofs proofs.SearchAbortProofs.
Open Scope Z_scope.

(* ------------------------------------------------------------------ *)
(* the notions of the statement                                         *)
(* ------------------------------------------------------------------ *)
Section Defs.
  Variables pos mv : Type.
  Variable moves : pos -> list mv.
  Variable legal : pos -> mv -> bool.
  Variable make : pos -> mv -> pos.
  Variable in_check : pos -> bool.
  Variable key : pos -> N.

  Definition has_legal (p : pos) : Prop := exists m, In m (moves p) /\ legal p m = true.
  Definition mated (p : pos) : Prop := in_check p = true /\ ~ has_legal p.
  Definition mates (p : pos) (m : mv) : Prop := In m (moves p) /\ legal p m = true /\ mated (make p m).

  (* the cache invariant, relative to the root position: only positions that have a legal move
     are cached, all cached scores are i16 values, and EITHER all cached scores
     lie strictly between the two "mate at ply 1" values OR the root's own entry names a mating
     move as its best move *)
  Definition cache_ok (root : pos) (s : St mv) : Prop :=
    (forall q e, PositiveMap.find (kpos (key q)) (tt mv s) = Some e ->
       has_legal q /\ -32768 <= e_score mv e <= 32767)
    /\ ((forall q e, PositiveMap.find (kpos (key q)) (tt mv s) = Some e -> -32766 <= e_score mv e <= 32766)
        \/ (exists e, PositiveMap.find (kpos (key root)) (tt mv s) = Some e /\ mates root (e_best mv e))).
End Defs.

(* ------------------------------------------------------------------ *)
(* arithmetic helpers                                                   *)
(* ------------------------------------------------------------------ *)
Definition Rg (x : Z) : Prop := -32768 <= x <= 32767.         (* any i16 *)
Definition Tg (x : Z) : Prop := -32766 <= x <= 32766.         (* strictly between the mate-at-ply-1 values *)
Definition Wn (a b : Z) : Prop := -32767 <= a /\ a < b /\ b <= 32767.

(* mode true: "clean" (tight scores, proper windows); mode false: "any" (i16 scores, any windows) *)
Definition Cs (t : bool) (x : Z) : Prop := if t then Tg x else Rg x.
Definition Win (t : bool) (a b : Z) : Prop := if t then Wn a b else Rg a /\ Rg b.

Ltac zb := repeat match goal with
  | H : (_ >=? _) = true |- _ => rewrite Z.geb_leb in H; apply Z.leb_le in H
  | H : (_ >=? _) = false |- _ => rewrite Z.geb_leb in H; apply Z.leb_gt in H
  | H : (_ >? _) = true |- _ => rewrite Z.gtb_ltb in H; apply Z.ltb_lt in H
  | H : (_ >? _) = false |- _ => rewrite Z.gtb_ltb in H; apply Z.ltb_ge in H
  | H : (_ <? _) = true |- _ => apply Z.ltb_lt in H
  | H : (_ <? _) = false |- _ => apply Z.ltb_ge in H
  | H : (_ <=? _) = true |- _ => apply Z.leb_le in H
  | H : (_ <=? _) = false |- _ => apply Z.leb_gt in H
  | H : (_ && _) = true |- _ => apply andb_true_iff in H; destruct H
  end.

Ltac sn := unfold sneg, SCORE_MIN, SCORE_MAX in *;
  repeat match goal with
  | |- context [?x =? ?y] => destruct (Z.eqb_spec x y)
  | H : context [?x =? ?y] |- _ => destruct (Z.eqb_spec x y)
  end.

Ltac ar := zb; unfold Cs, Win, Wn, Tg, Rg in *; sn; try lia.

Lemma kpos_inj a b : kpos a = kpos b -> a = b.
Proof. unfold kpos. intros H. rewrite <- (N.pos_pred_succ a), <- (N.pos_pred_succ b), H. reflexivity. Qed.

Section Mate.
  Variables pos mv : Type.
  Variable moves : pos -> list mv.
  Variable legal : pos -> mv -> bool.
  Variable make : pos -> mv -> pos.
  Variable in_check : pos -> bool.
  Variable evalf : pos -> Z.
  Variable is_cap is_promo : mv -> bool.
  Variable cap_score : mv -> N.
  Variable mv_eqb : mv -> mv -> bool.
  Variable key : pos -> N.
  Variable halfmove : pos -> N.
  Variable repeated : pos -> bool.
  Variable default_mv : mv.
  Variable clock : nat -> N.
  Hypothesis eval_range : forall p, -32000 < evalf p < 32000.
  Hypothesis key_inj : forall p q, key p = key q -> p = q.
  Hypothesis mv_eqb_spec : forall m x, mv_eqb m x = true <-> m = x.
  Hypothesis cap_small : forall m, (cap_score m < 2 ^ 32)%N.

  Local Notation nostop := (fun _ : nat => false).
  Local Notation State := (St mv).
  Local Notation run_ := (running mv).
  Local Notation abt := (aborted mv no_limits clock nostop).
  Local Notation qs := (quiescence pos mv moves legal make evalf is_cap is_promo cap_score mv_eqb key
                                   no_limits clock nostop).
  Local Notation ab := (alpha_beta pos mv moves legal make in_check evalf is_cap is_promo cap_score mv_eqb key
                                   halfmove repeated default_mv no_limits clock nostop true).
  Local Notation start := (alpha_beta_start pos mv moves legal make in_check evalf is_cap is_promo cap_score
                                   mv_eqb key halfmove repeated default_mv no_limits clock nostop true).
  Local Notation order := (order_moves pos mv is_cap is_promo cap_score mv_eqb key).
  Local Notation tins := (tt_insert mv nostop).
  Local Notation skill := (store_killers mv is_cap is_promo mv_eqb).
  Local Notation cscore := (child_score pos mv).
  Local Notation qlp := (qloop pos mv legal make).
  Local Notation ablp := (abloop pos mv legal make in_check is_cap is_promo mv_eqb key no_limits clock nostop).
  Local Notation rootlp := (rootloop pos mv legal make key no_limits clock nostop).
  Local Notation q_rec := (qrec pos mv moves legal make evalf is_cap is_promo cap_score mv_eqb key
                                no_limits clock nostop).
  Local Notation ab_rec := (abrec pos mv moves legal make in_check evalf is_cap is_promo cap_score mv_eqb key
                                  halfmove repeated default_mv no_limits clock nostop true).
  Local Notation hasl := (has_legal pos mv moves legal).
  Local Notation matedp := (mated pos mv moves legal in_check).
  Local Notation matesp := (mates pos mv moves legal make in_check).
  Local Notation tick s := (tick_read mv (tick_load mv s)).
  Local Notation tfind s q := (PositiveMap.find (kpos (key q)) (tt mv s)).

  (* ---------------- abort, frames ---------------- *)
  Lemma abt_run (s : State) ply : run_ s = true ->
    abt s ply = (Nat.eqb ply 255, if Nat.eqb ply 255 then tick_load mv s else tick s).
  Proof.
    intros H. unfold aborted, is_running, flag_now, limits_exceeded, PLY_MAX.
    rewrite H. cbn [andb negb l_nodes l_movetime l_any_clock l_timer no_limits].
    destruct (Nat.eqb ply 255); reflexivity.
  Qed.

  Definition same (s s' : State) : Prop := tt mv s' = tt mv s /\ run_ s' = run_ s.
  Lemma same_refl s : same s s.
  Proof. split; reflexivity. Qed.
  Lemma same_trans s1 s2 s3 : same s1 s2 -> same s2 s3 -> same s1 s3.
  Proof. unfold same. intros [A B] [C D]. split; congruence. Qed.
  Lemma same_skill (s : State) ply m : same s (skill s ply m).
  Proof.
    unfold store_killers. destruct (is_cap m || is_promo m); [apply same_refl|].
    destruct (okill_eqb mv mv_eqb m _); split; reflexivity.
  Qed.

  (* the invariant carried through the search, in the two modes *)
  Definition Inv (t : bool) (s : State) : Prop :=
    run_ s = true /\ forall q e, tfind s q = Some e -> hasl q /\ Cs t (e_score mv e).

  Lemma Inv_same t s s' : same s s' -> Inv t s -> Inv t s'.
  Proof. unfold same, Inv. intros [A B] [C D]. rewrite A, B. split; assumption. Qed.
  Lemma Inv_weaken s : Inv true s -> Inv false s.
  Proof.
    intros [A B]. split; [exact A|]. intros q e F. destruct (B q e F) as [H1 H2].
    split; [exact H1|]. ar.
  Qed.
  Lemma Inv_tins t (s : State) p e : Inv t s -> hasl p -> Cs t (e_score mv e) -> Inv t (tins s (key p) e).
  Proof.
    intros [A B] Hp He. split; [exact A|]. intros q e' F. cbn [tt tt_insert] in F.
    destruct (Pos.eq_dec (kpos (key q)) (kpos (key p))) as [E|Hne].
    - rewrite E, PositiveMap.gss in F. inversion F; subst e'.
      apply kpos_inj, key_inj in E. subst q. split; assumption.
    - rewrite PositiveMap.gso in F by exact Hne. apply B. exact F.
  Qed.

  Lemma probe_spec t (s : State) p d a b : Inv t s -> Win t a b ->
    match probe pos mv key s p d a b with
    | (Some v, _, _) => Cs t v
    | (None, a', b') => Win t a' b'
    end.
  Proof.
    intros [_ B] HW. unfold probe, tt_get.
    destruct (tfind s p) as [e|] eqn:F; [|exact HW].
    destruct (B p e F) as [_ He].
    destruct (Nat.leb d (e_depth mv e)); [|exact HW].
    destruct (e_bound mv e).
    - exact He.
    - destruct (Z.max a (e_score mv e) >=? b) eqn:E; [exact He|]. destruct t; ar.
    - destruct (a >=? Z.min b (e_score mv e)) eqn:E; [exact He|]. destruct t; ar.
  Qed.

  (* ---------------- quiescence ---------------- *)
  Definition qspec (t : bool) (rec : State -> pos -> Z -> Z -> Z * State) : Prop :=
    forall s c a b, run_ s = true -> Win t a b ->
      same s (snd (rec s c a b)) /\ Cs t (fst (rec s c a b)).
  Definition LInv (t : bool) (alpha beta : Z) : Prop :=
    if t then Wn alpha beta /\ -32766 <= alpha else Rg alpha /\ Rg beta.

  Lemma qlp_spec t rec p beta ply : qspec t rec ->
    forall ms s alpha, run_ s = true -> LInv t alpha beta ->
      same s (snd (qlp rec p beta ply ms s alpha)) /\ Cs t (fst (qlp rec p beta ply ms s alpha)).
  Proof.
    intros Hrec. induction ms as [|m ms IH]; intros s alpha Hr HL; cbn [qloop].
    - split; [apply same_refl|]. cbn [fst]. unfold LInv in HL. destruct t; ar.
    - destruct (negb (legal p m)); [apply IH; assumption|]. cbv zeta.
      destruct (Hrec (enter_node mv s (S ply) true) (make p m) (sneg beta) (sneg alpha) Hr) as [S1 C1].
      { unfold LInv in HL. destruct t; ar. }
      destruct (rec _ _ _ _) as [r s1]. cbn [fst snd] in S1, C1.
      assert (S1' : same s s1) by exact S1.
      assert (Hr1 : run_ s1 = true) by (destruct S1' as [_ E]; rewrite E; exact Hr).
      destruct (sneg r >=? beta) eqn:E.
      + cbn [fst snd]. split; [exact S1'|]. unfold LInv in HL. destruct t; ar.
      + destruct (IH s1 (if sneg r >? alpha then sneg r else alpha) Hr1) as [S2 C2].
        { unfold LInv in *. destruct (sneg r >? alpha) eqn:E2; destruct t; ar. }
        split; [eapply same_trans; eassumption | exact C2].
  Qed.

  Lemma qs_spec t : forall f s p a b ply, run_ s = true -> Win t a b ->
    same s (snd (qs f s p a b ply)) /\ Cs t (fst (qs f s p a b ply)).
  Proof.
    induction f as [|f IH]; intros s p a b ply Hr HW.
    - cbn [quiescence fst snd]. split; [apply same_refl|]. destruct t; ar.
    - rewrite gqs_S, (abt_run _ _ Hr).
      destruct (Nat.eqb ply 255).
      + cbn [fst snd]. split; [split; reflexivity|]. destruct t; ar.
      + pose proof (eval_range p) as He.
        destruct (evalf p >=? b) eqn:E.
        * cbn [fst snd]. split; [split; reflexivity|]. destruct t; ar.
        * match goal with |- context [qloop _ _ _ _ ?r0 ?p0 ?b0 ?ply0 ?ms0 ?s0 ?al0] =>
            destruct (qlp_spec t r0 p0 b0 ply0) with (ms := ms0) (s := s0) (alpha := al0) as [S2 C2] end.
          -- intros s' c a' b' Hr' HW'. unfold qrec. apply IH; assumption.
          -- exact Hr.
          -- unfold LInv. destruct (evalf p >? a) eqn:E2; destruct t; ar.
          -- split; [|exact C2]. eapply same_trans; [|exact S2]. split; reflexivity.
  Qed.

  (* ---------------- alpha_beta ---------------- *)
  Definition Res (t : bool) (ply : nat) (p : pos) (r : Z) : Prop :=
    if t then -32767 <= r <= 32766 /\ (hasl p \/ in_check p = false \/ (2 <= ply)%nat -> -32766 <= r)
    else Rg r.

  Lemma Cs_Res t ply p r : Cs t r -> Res t ply p r.
  Proof. unfold Res. destruct t; [|exact (fun H => H)]. intros H. split; [ar | intros _; ar]. Qed.
  Lemma Res_Cs t ply p r : (2 <= ply)%nat -> Res t ply p r -> Cs t r.
  Proof. unfold Res. destruct t; [|exact (fun _ H => H)]. intros H [A B]. specialize (B (or_intror (or_intror H))). ar. Qed.
  Lemma Res0 t ply p : Res t ply p 0.
  Proof. apply Cs_Res. destruct t; ar. Qed.

  Lemma cscore_spec t rec c (P : Z -> Prop) :
    (forall s a b, Inv t s -> Win t a b -> Inv t (fst (rec s c a b)) /\ P (snd (rec s c a b))) ->
    forall s alpha beta pvs, Inv t s -> Win t (sneg beta) (sneg alpha) ->
      (pvs = true -> Win t (sneg alpha - 1) (sneg alpha)) ->
      Inv t (fst (cscore rec s c alpha beta pvs))
      /\ exists r, snd (cscore rec s c alpha beta pvs) = sneg r /\ P r.
  Proof.
    intros Hrec s alpha beta pvs Hs W1 W2. unfold child_score. destruct pvs.
    - destruct (Hrec s (sneg alpha - 1) (sneg alpha) Hs (W2 eq_refl)) as [I1 P1].
      destruct (rec s c (sneg alpha - 1) (sneg alpha)) as [s1 r1]. cbn [fst snd] in I1, P1.
      destruct ((alpha <? sneg r1) && (sneg r1 <? beta)).
      + destruct (Hrec s1 (sneg beta) (sneg alpha) I1 W1) as [I2 P2].
        destruct (rec s1 c (sneg beta) (sneg alpha)) as [s2 r2]. cbn [fst snd] in *.
        split; [exact I2|]. exists r2. split; [reflexivity | exact P2].
      + cbn [fst snd]. split; [exact I1|]. exists r1. split; [reflexivity | exact P1].
    - destruct (Hrec s (sneg beta) (sneg alpha) Hs W1) as [I1 P1].
      destruct (rec s c (sneg beta) (sneg alpha)) as [s1 r1]. cbn [fst snd] in *.
      split; [exact I1|]. exists r1. split; [reflexivity | exact P1].
  Qed.

  Definition abspec (t : bool) (rec : State -> pos -> Z -> Z -> State * Z) : Prop :=
    forall c s a b, Inv t s -> Win t a b -> Inv t (fst (rec s c a b)) /\ Cs t (snd (rec s c a b)).

  Lemma Inv_enter t (s : State) ply u : Inv t s -> Inv t (enter_node mv s ply u).
  Proof. apply Inv_same. split; reflexivity. Qed.
  Lemma Inv_tick t (s : State) : Inv t s -> Inv t (tick s).
  Proof. apply Inv_same. split; reflexivity. Qed.
  Lemma Inv_tload t (s : State) : Inv t s -> Inv t (tick_load mv s).
  Proof. apply Inv_same. split; reflexivity. Qed.

  Lemma ablp_spec t rec p a0 beta depth ply : abspec t rec -> Nat.eqb ply 255 = false ->
    (1 <= ply <= 255)%nat ->
    forall ms s alpha best pvs cnt, Inv t s -> (forall m, In m ms -> In m (moves p)) ->
      Win t alpha beta ->
      (cnt = 0%nat -> hasl p -> exists m, In m ms /\ legal p m = true) ->
      (cnt <> 0%nat -> hasl p /\ (t = true -> -32766 <= alpha)) ->
      Inv t (snd (ablp rec p a0 beta depth ply ms s alpha best pvs cnt))
      /\ Res t ply p (fst (ablp rec p a0 beta depth ply ms s alpha best pvs cnt)).
  Proof.
    intros Hrec E255 Hply. induction ms as [|m ms IH]; intros s alpha best pvs cnt Hs Hin HW H0 Hc;
      cbn [abloop].
    - destruct cnt as [|cnt]; cbn [fst snd].
      + split; [exact Hs|]. unfold Res. destruct t.
        * split; [unfold SCORE_MIN; destruct (in_check p); lia|].
          intros [H|[H|H]].
          -- destruct (H0 eq_refl H) as [m [[] _]].
          -- rewrite H. lia.
          -- unfold SCORE_MIN; destruct (in_check p); lia.
        * unfold Rg, SCORE_MIN. destruct (in_check p); lia.
      + destruct (Hc ltac:(discriminate)) as [Hl Ha]. split.
        * apply Inv_tins; [exact Hs | exact Hl |]. cbn [e_score].
          destruct t; [specialize (Ha eq_refl)|]; ar.
        * apply Cs_Res. destruct t; [specialize (Ha eq_refl)|]; ar.
    - assert (Hin' : forall m', In m' ms -> In m' (moves p)) by (intros m' H'; apply Hin; right; exact H').
      destruct (legal p m) eqn:L; cbn [negb].
      + cbv zeta.
        assert (Hlp : hasl p) by (exists m; split; [apply Hin; left; reflexivity | exact L]).
        destruct (cscore_spec t rec (make p m) (Cs t) (Hrec (make p m)) (enter_node mv s (S ply) true)
                              alpha beta pvs) as [I1 [r [Esc Pr]]].
        { apply Inv_enter, Hs. }
        { destruct t; ar. }
        { intros _. destruct t; ar. }
        destruct (cscore rec _ _ _ _ _) as [s1 sc]. cbn [fst snd] in I1, Esc. subst sc.
        rewrite (abt_run _ _ (proj1 I1)), E255. cbv beta iota.
        pose proof (Inv_tick t s1 I1) as I2.
        destruct (sneg r >=? beta) eqn:E.
        * cbn [fst snd]. split.
          -- eapply Inv_same; [apply same_skill|]. apply Inv_tins; [exact I2 | exact Hlp |].
             cbn [e_score]. destruct t; ar.
          -- apply Cs_Res. destruct t; ar.
        * destruct (sneg r >? alpha) eqn:E2.
          -- apply IH; [exact I2 | exact Hin' | destruct t; ar | discriminate |].
             intros _. split; [exact Hlp|]. intros ->. ar.
          -- apply IH; [exact I2 | exact Hin' | exact HW | discriminate |].
             intros _. split; [exact Hlp|]. intros ->. ar.
      + apply IH; [exact Hs | exact Hin' | exact HW | | exact Hc].
        intros Hc0 Hl. destruct (H0 Hc0 Hl) as [m' [[->|Hm'] Hl']]; [congruence|].
        exists m'. split; assumption.
  Qed.

  Lemma ab_spec t : forall f s p a b d ply, Inv t s -> Win t a b -> (1 <= ply <= 255)%nat ->
    Inv t (snd (ab f s p a b d ply)) /\ Res t ply p (fst (ab f s p a b d ply)).
  Proof.
    induction f as [|f IH]; intros s p a b d ply Hs HW Hply.
    - cbn [alpha_beta fst snd]. split; [exact Hs | apply Res0].
    - rewrite gab_S, (abt_run _ _ (proj1 Hs)).
      destruct (Nat.eqb ply 255) eqn:E255.
      + cbn [fst snd]. split; [apply Inv_tload, Hs | apply Res0].
      + pose proof (Inv_tick t s Hs) as I1.
        destruct (N.leb 100 (halfmove p)); [split; [exact I1 | apply Res0]|].
        destruct (repeated p); [split; [exact I1 | apply Res0]|].
        cbv beta iota zeta.
        pose proof (probe_spec t (tick s) p d a b I1 HW) as PR.
        destruct (probe pos mv key (tick s) p d a b) as [[[v|] alpha0] beta].
        * cbn [fst snd]. split; [exact I1 | apply Cs_Res, PR].
        * destruct (if in_check p then S d else d) as [|dm1] eqn:Ed.
          -- destruct (qs_spec t f (tick s) p alpha0 beta ply (proj1 I1) PR) as [S3 C3].
             split; [eapply Inv_same; eassumption | apply Cs_Res, C3].
          -- apply Nat.eqb_neq in E255.
             apply ablp_spec.
             ++ intros c s' a' b' Hs' HW'. unfold abrec.
                pose proof (IH s' c a' b' dm1 (S ply) Hs' HW' ltac:(lia)) as H.
                destruct (ab f s' c a' b' dm1 (S ply)) as [r s'']. cbn [fst snd] in H |- *.
                split; [apply H | eapply Res_Cs; [|apply H]; lia].
             ++ apply Nat.eqb_neq, E255.
             ++ exact Hply.
             ++ exact I1.
             ++ intros m. apply order_incl.
             ++ exact PR.
             ++ intros _ [m [Hm Hl]]. exists m. split; [|exact Hl].
                eapply Permutation_in; [apply Permutation_sym, order_perm | exact Hm].
             ++ intros H. contradiction.
  Qed.

  (* ---------------- a mated child at ply 1 ---------------- *)
  Lemma ablp_illegal rec p a0 beta depth ply : forall ms s alpha best pvs,
    (forall m, In m ms -> legal p m = false) ->
    ablp rec p a0 beta depth ply ms s alpha best pvs 0
    = ((if in_check p then SCORE_MIN + Z.of_nat ply else 0), s).
  Proof.
    induction ms as [|m ms IH]; intros s alpha best pvs H; cbn [abloop]; [reflexivity|].
    rewrite (H m) by (left; reflexivity). cbn [negb]. apply IH. intros m' H'. apply H. right. exact H'.
  Qed.

  Lemma mated_child f (s : State) c a b d : Inv false s -> matedp c ->
    (halfmove c < 100)%N -> repeated c = false ->
    ab (S f) s c a b d 1 = (-32767, tick s).
  Proof.
    intros Hs [Hc Hn] Hh Hr. rewrite gab_S, (abt_run _ _ (proj1 Hs)). cbn [Nat.eqb]. cbv beta iota zeta.
    rewrite (proj2 (N.leb_gt _ _) Hh), Hr.
    unfold probe, tt_get.
    destruct (tfind (tick s) c) as [e|] eqn:F.
    - exfalso. apply Hn. exact (proj1 (proj2 Hs c e F)).
    - rewrite Hc. rewrite ablp_illegal.
      + rewrite Hc. reflexivity.
      + intros m Hm. destruct (legal c m) eqn:L; [|reflexivity].
        exfalso. apply Hn. exists m. split; [eapply order_incl; exact Hm | exact L].
  Qed.

  Lemma hasl_dec p : {hasl p} + {~ hasl p}.
  Proof.
    destruct (existsb (legal p) (moves p)) eqn:E; [left|right].
    - apply existsb_exists in E. exact E.
    - intros H. apply existsb_exists in H. congruence.
  Qed.

  (* ---------------- the cached best move is ordered first ---------------- *)
  Lemma first_max_spec (d : mv * N) : forall l bi best i,
    let j := first_max mv bi best i l in
    (j = bi /\ forall y, In y l -> (snd y <= best)%N)
    \/ (exists k, j = (i + k)%nat /\ (k < length l)%nat /\ (best < snd (nth k l d))%N
                  /\ forall y, In y l -> (snd y <= snd (nth k l d))%N).
  Proof.
    induction l as [|[x sc] l IH]; intros bi best i; cbn [first_max].
    - left. split; [reflexivity|]. intros y [].
    - destruct (N.ltb best sc) eqn:E.
      + apply N.ltb_lt in E. right.
        destruct (IH i sc (S i)) as [[Hj Ha]|[k [Hj [Hk [Hb Ha]]]]].
        * exists 0%nat. cbn [nth snd length]. repeat split; [cbv zeta in Hj; lia | lia | exact E |].
          intros y [<-|Hy]; [cbn [snd]; lia | apply Ha, Hy].
        * exists (S k). cbn [nth length]. repeat split; [cbv zeta in Hj; lia | lia | lia |].
          intros y [<-|Hy]; [cbn [snd]; lia | apply Ha, Hy].
      + apply N.ltb_ge in E.
        destruct (IH bi best (S i)) as [[Hj Ha]|[k [Hj [Hk [Hb Ha]]]]].
        * left. split; [exact Hj|]. intros y [<-|Hy]; [cbn [snd]; lia | apply Ha, Hy].
        * right. exists (S k). cbn [nth length]. repeat split; [cbv zeta in Hj; lia | lia | lia |].
          intros y [<-|Hy]; [cbn [snd]; lia | apply Ha, Hy].
  Qed.

  Lemma select_next_max (l : list (mv * N)) b rest : select_next mv l = Some (b, rest) ->
    forall y, In y l -> (snd y <= snd b)%N.
  Proof.
    destruct l as [|h t]; cbn [select_next]; [discriminate|].
    destruct (first_max_spec h t 0%nat (snd h) 1%nat) as [[Hj Ha]|[k [Hj [Hk [Hb Ha]]]]]; cbv zeta in Hj.
    - rewrite Hj. intros E. inversion E; subst. intros y [<-|Hy]; [lia | apply Ha, Hy].
    - rewrite Hj. cbn [Nat.add]. intros E. inversion E; subst.
      intros y [<-|Hy]; [lia | apply Ha, Hy].
  Qed.

  Lemma score_tt_only tb kl m x : tb = Some x ->
    (SCORE_TT <= score_move mv is_cap is_promo cap_score mv_eqb tb kl m)%N -> m = x.
  Proof.
    intros -> H. unfold score_move in H. cbn [okill_eqb] in H.
    destruct (mv_eqb m x) eqn:E; [apply mv_eqb_spec, E|]. exfalso.
    pose proof (cap_small m) as Hc. change (2 ^ 32)%N with 4294967296%N in Hc.
    unfold SCORE_TT in H.
    destruct (is_cap m), (is_promo m); cbn [negb andb] in H;
      repeat match type of H with context [if ?c then _ else _] => destruct c end; lia.
  Qed.

  Lemma order_tt_first (s : State) p ply ms e : tfind s p = Some e -> In (e_best mv e) ms ->
    exists rest, order s p ply ms = e_best mv e :: rest.
  Proof.
    intros F Hin. unfold order_moves, tt_get. rewrite F.
    set (kl := match PositiveMap.find (Pos.of_succ_nat ply) (kill mv s) with Some k => k | None => (None, None) end).
    set (sc := score_move mv is_cap is_promo cap_score mv_eqb (Some (e_best mv e)) kl).
    destruct ms as [|m0 ms']; [destruct Hin|].
    set (l := map (fun m => (m, sc m)) (m0 :: ms')).
    cbn [length sel_sort].
    destruct (select_next mv l) as [[b rest]|] eqn:E.
    - exists (sel_sort mv (length ms') rest). f_equal.
      assert (Hb : In b l).
      { eapply Permutation_in; [apply Permutation_sym, select_next_perm, E | left; reflexivity]. }
      apply in_map_iff in Hb. destruct Hb as [m' [<- Hm']]. cbn [fst].
      apply (score_tt_only (Some (e_best mv e)) kl m' (e_best mv e) eq_refl).
      assert (Hx : In (e_best mv e, sc (e_best mv e)) l) by (apply in_map_iff; exists (e_best mv e); split; [reflexivity|exact Hin]).
      pose proof (select_next_max l _ _ E _ Hx) as Hle. cbn [snd] in Hle.
      assert (Hs : sc (e_best mv e) = SCORE_TT).
      { unfold sc, score_move. cbn [okill_eqb]. rewrite (proj2 (mv_eqb_spec _ _) eq_refl). reflexivity. }
      rewrite Hs in Hle. exact Hle.
    - apply select_next_none in E. discriminate.
  Qed.

  (* ---------------- the root ---------------- *)
  Local Notation rrec d := (ab_rec FUEL (pred d) 0%nat).

  Lemma rrec_spec t d c (P : Z -> Prop) : (forall r, Res t 1 c r -> P r) ->
    forall s a b, Inv t s -> Win t a b -> Inv t (fst (rrec d s c a b)) /\ P (snd (rrec d s c a b)).
  Proof.
    intros HP s a b Hs HW. unfold abrec.
    pose proof (ab_spec t FUEL s c a b (pred d) 1%nat Hs HW ltac:(lia)) as H.
    destruct (ab FUEL s c a b (pred d) 1%nat) as [r s']. cbn [fst snd] in H |- *.
    split; [apply H | apply HP, H].
  Qed.

  Lemma cscore_mate d (s : State) root m alpha pvs : Inv false s -> matesp root m ->
    (halfmove (make root m) < 100)%N -> repeated (make root m) = false ->
    cscore (rrec d) s (make root m) alpha SCORE_MAX pvs = (tick s, 32767).
  Proof.
    intros Hs [_ [_ Hm]] Hh Hr.
    assert (E : forall a b, rrec d s (make root m) a b = (tick s, -32767)).
    { intros a b. unfold abrec. change FUEL with (S 299).
      rewrite (mated_child 299 s (make root m) a b (pred d) Hs Hm Hh Hr). reflexivity. }
    unfold child_score. destruct pvs; rewrite E; [|reflexivity].
    change (sneg (-32767)) with 32767. change (32767 <? SCORE_MAX) with false.
    rewrite andb_false_r. reflexivity.
  Qed.

  Definition Goal2 (root : pos) (s' : State) : Prop :=
    exists m, best_move mv s' = Some m /\ matesp root m /\ best_score mv s' = Some 32767
      /\ Inv false s' /\ exists e, tfind s' root = Some e /\ e_best mv e = m.

  Lemma root_phase2 root d best : matesp root best ->
    forall ms s cnt, Inv false s ->
      Goal2 root (rootlp (rrec d) root d ms s 32767 best true (S cnt)).
  Proof.
    intros Hb. induction ms as [|m ms IH]; intros s cnt Hs; cbn [rootloop].
    - rewrite (abt_run _ _ (proj1 Hs)). cbn [Nat.eqb]. cbv beta iota.
      exists best. cbn [best_move best_score set_best].
      split; [reflexivity|]. split; [exact Hb|]. split; [reflexivity|]. split.
      + eapply Inv_same; [|apply (Inv_tins false (tick s) root (mkE mv 32767 d Exact best))].
        * split; reflexivity.
        * apply Inv_tick, Hs.
        * destruct Hb as [H1 [H2 _]]. exists best. split; assumption.
        * cbn [e_score]. ar.
      + exists (mkE mv 32767 d Exact best). split; [|reflexivity].
        cbn [tt set_best tt_insert]. apply PositiveMap.gss.
    - destruct (negb (legal root m)); [apply IH, Hs|]. cbv zeta.
      destruct (cscore_spec false (rrec d) (make root m) Rg (rrec_spec false d (make root m) Rg (fun r H => H))
                            (enter_node mv s 1 false) 32767 SCORE_MAX true) as [I1 [r [Esc Pr]]].
      { apply Inv_enter, Hs. }
      { ar. }
      { intros _. ar. }
      destruct (cscore (rrec d) _ _ _ _ _) as [s1 sc]. cbn [fst snd] in I1, Esc. subst sc.
      rewrite (abt_run _ _ (proj1 I1)). cbn [Nat.eqb]. cbv beta iota.
      destruct (sneg r >? 32767) eqn:E; [exfalso; ar|].
      apply IH, Inv_tick, I1.
  Qed.

  Lemma root_phase1 root d :
    (forall m, matesp root m -> (halfmove (make root m) < 100)%N /\ repeated (make root m) = false) ->
    forall ms s alpha best pvs cnt, Inv true s -> (forall m, In m ms -> In m (moves root)) ->
      (exists m, In m ms /\ matesp root m) ->
      ((pvs = false /\ alpha = -32768) \/ (pvs = true /\ -32767 <= alpha <= 32766)) ->
      Goal2 root (rootlp (rrec d) root d ms s alpha best pvs cnt).
  Proof.
    intros Hside. induction ms as [|m ms IH]; intros s alpha best pvs cnt Hs Hin Hex Ha.
    - destruct Hex as [m [[] _]].
    - assert (Hin' : forall m', In m' ms -> In m' (moves root)) by (intros m' H'; apply Hin; right; exact H').
      cbn [rootloop]. destruct (legal root m) eqn:L; cbn [negb].
      + cbv zeta.
        assert (D : matedp (make root m) \/ (hasl (make root m) \/ in_check (make root m) = false)).
        { destruct (in_check (make root m)) eqn:C; [|right; right; reflexivity].
          destruct (hasl_dec (make root m)) as [Hl|Hn]; [right; left; exact Hl|].
          left. split; assumption. }
        destruct D as [Hm|Hnm].
        * assert (Hmm : matesp root m) by (split; [apply Hin; left; reflexivity | split; assumption]).
          destruct (Hside m Hmm) as [Hh Hr].
          rewrite (cscore_mate d _ root m alpha pvs (Inv_enter false _ _ _ (Inv_weaken _ Hs)) Hmm Hh Hr).
          assert (I1 : Inv false (tick (enter_node mv s 1 false))) by (apply Inv_tick, Inv_enter, Inv_weaken, Hs).
          rewrite (abt_run _ _ (proj1 I1)). cbn [Nat.eqb]. cbv beta iota.
          destruct (32767 >? alpha) eqn:E; [|exfalso; zb; lia].
          apply root_phase2; [exact Hmm | apply Inv_tick, I1].
        * destruct (cscore_spec true (rrec d) (make root m) Tg
                      (rrec_spec true d (make root m) Tg
                         (fun r (H : Res true 1 (make root m) r) =>
                            conj (proj2 H (match Hnm with or_introl h => or_introl h
                                                        | or_intror h => or_intror (or_introl h) end))
                                 (proj2 (proj1 H))))
                      (enter_node mv s 1 false) alpha SCORE_MAX pvs) as [I1 [r [Esc Pr]]].
          { apply Inv_enter, Hs. }
          { destruct Ha as [[_ ->]|[_ Ha]]; ar. }
          { intros Hp. destruct Ha as [[Hp' _]|[_ Ha]]; [congruence | ar]. }
          destruct (cscore (rrec d) _ _ _ _ _) as [s1 sc]. cbn [fst snd] in I1, Esc. subst sc.
          rewrite (abt_run _ _ (proj1 I1)). cbn [Nat.eqb]. cbv beta iota.
          assert (Hex' : exists m', In m' ms /\ matesp root m').
          { destruct Hex as [m' [[<-|Hm'] Hmt]]; [|exists m'; split; assumption].
            exfalso. destruct Hmt as [_ [_ [Hc Hn]]].
            destruct Hnm as [Hl|Hc']; [exact (Hn Hl) | congruence]. }
          destruct (sneg r >? alpha) eqn:E.
          -- apply IH; [apply Inv_tick, I1 | exact Hin' | exact Hex' |]. right. split; [reflexivity|]. ar.
          -- apply IH; [apply Inv_tick, I1 | exact Hin' | exact Hex' | exact Ha].
      + apply IH; [exact Hs | exact Hin' | | exact Ha].
        destruct Hex as [m' [[<-|Hm'] Hmt]]; [|exists m'; split; assumption].
        destruct Hmt as [_ [Hl _]]. congruence.
  Qed.

  (* ---------------- the theorems ---------------- *)
  Local Notation cok := (cache_ok pos mv moves legal make in_check key).

  Lemma Goal2_final root (s' : State) : Goal2 root s' ->
    (exists m, best_move mv s' = Some m /\ matesp root m /\ best_score mv s' = Some 32767)
    /\ cok root s' /\ run_ s' = true.
  Proof.
    intros [m [H1 [H2 [H3 [[Hr HI] [e [He Hb]]]]]]]. split; [|split].
    - exists m. repeat split; try assumption; apply H2.
    - split.
      + intros q e' F. destruct (HI q e' F) as [A B]. split; [exact A | exact B].
      + right. exists e. split; [exact He|]. rewrite Hb. exact H2.
    - exact Hr.
  Qed.

  Theorem mate_in_one_found : forall (s : State) (root : pos) (d : nat),
    run_ s = true -> cok root s -> (1 <= d)%nat ->
    (forall m, matesp root m -> (halfmove (make root m) < 100)%N /\ repeated (make root m) = false) ->
    (exists m, matesp root m) ->
    (exists m, best_move mv (start s root d) = Some m /\ matesp root m
               /\ best_score mv (start s root d) = Some 32767)
    /\ cok root (start s root d) /\ run_ (start s root d) = true.
  Proof.
    intros s root d Hr [Hall Hmode] _ Hside [mm Hmm].
    apply Goal2_final. rewrite gstart_eq.
    assert (Hmv : In mm (moves root)) by apply Hmm.
    destruct (moves root) as [|m0 t0] eqn:Em; [destruct Hmv|]. rewrite <- Em in *. clear Em.
    assert (I0 : Inv false s).
    { split; [exact Hr|]. intros q e F. destruct (Hall q e F) as [A B]. split; [exact A | exact B]. }
    destruct Hmode as [Hclean | [e [He Hbest]]].
    - apply root_phase1.
      + exact Hside.
      + split; [exact Hr|]. intros q e F. split; [apply (Hall q e F) | exact (Hclean q e F)].
      + intros m. apply order_incl.
      + exists mm. split; [|exact Hmm].
        eapply Permutation_in; [apply Permutation_sym, order_perm | exact Hmv].
      + left. split; reflexivity.
    - destruct (order_tt_first s root 0%nat (moves root) e He (proj1 Hbest)) as [rest ->].
      cbn [rootloop]. rewrite (proj1 (proj2 Hbest)). cbn [negb]. cbv zeta.
      destruct (Hside _ Hbest) as [Hh Hrp].
      rewrite (cscore_mate d _ root (e_best mv e) SCORE_MIN false (Inv_enter false _ _ _ I0) Hbest Hh Hrp).
      assert (I1 : Inv false (tick (enter_node mv s 1 false))) by (apply Inv_tick, Inv_enter, I0).
      rewrite (abt_run _ _ (proj1 I1)). cbn [Nat.eqb]. cbv beta iota.
      change (32767 >? SCORE_MIN) with true. cbv iota.
      apply root_phase2; [exact Hbest | apply Inv_tick, I1].
  Qed.

  Theorem empty_cache_ok : forall root, cok root (init_st mv).
  Proof.
    intros root. split; [|left]; intros q e F; cbn [tt init_st] in F;
      rewrite PositiveMap.gempty in F; discriminate.
  Qed.
End Mate.

(* ------------------------------------------------------------------ *)
(* Why the invariant has this shape: counterexamples (vm_compute)       *)
(* ------------------------------------------------------------------ *)
(* Tiny abstract games: positions and moves are numbers, every listed move is legal, evaluation 0,
   no captures, key = the position number (injective), halfmove 0, never repeated. *)
Module MateCex.
  Definition startG (mvs : nat -> list nat) (mk : nat -> nat -> nat) (chk : nat -> bool)
             (eqb : nat -> nat -> bool) : St nat -> nat -> nat -> St nat :=
    alpha_beta_start nat nat mvs (fun _ _ => true) mk chk (fun _ => 0) (fun _ => false) (fun _ => false)
      (fun _ => 0%N) eqb N.of_nat (fun _ => 0%N) (fun _ => false) 0%nat no_limits (fun _ => 0%N)
      (fun _ => false) true.
  Definition entry (s : St nat) (p : nat) := PositiveMap.find (kpos (N.of_nat p)) (tt nat s).
  Definition one_entry (p : nat) (e : TTEntry nat) : St nat :=
    set_tt nat (init_st nat) (PositiveMap.add (kpos (N.of_nat p)) e (PositiveMap.empty _)).

  (* (1) The invariant first proposed ("cached scores within [-32766, 32766] except at the root's
     own key, where [-32767, 32767] is allowed") is not sufficient.  Root 0: move 0 returns to the
     root position itself, move 1 mates (position 1: in check, no moves).  The cache holds the single
     root entry (Exact, -32767).  The child of move 0 probes it, move 0 scores 32767 and is chosen. *)
  Definition mvs1 (p : nat) : list nat := match p with 0 => [0; 1] | _ => [] end%nat.
  Definition mk1 (p m : nat) : nat := match p, m with 0, 0 => 0 | 0, _ => 1 | _, _ => p end%nat.
  Definition chk1 (p : nat) : bool := Nat.eqb p 1.
  Example root_key_exception_refuted :
    let s := one_entry 0 (mkE nat (-32767) 10 Exact 0%nat) in
    let s' := startG mvs1 mk1 chk1 Nat.eqb s 0%nat 1%nat in
    (chk1 (mk1 0 1) = true /\ mvs1 (mk1 0 1) = [])                     (* move 1 mates *)
    /\ mk1 0 0 = 0%nat                                                  (* move 0 does not *)
    /\ best_move nat s' = Some 0%nat /\ best_score nat s' = Some 32767.
  Proof. vm_compute. repeat split. Qed.

  (* (2) "scores within [-32766, 32767], 32767 only at the root's key" is not sufficient either.
     Root 0: move 0 -> position 2 whose only move returns to the root, move 1 mates.  The cache
     holds the root entry (Exact, 32767) (as left by an earlier iteration) but with best move 0.
     Position 2 probes the root entry at ply 2, fails low with -32767, move 0 scores 32767. *)
  Definition mvs2 (p : nat) : list nat := match p with 0 => [0; 1] | 2 => [0] | _ => [] end%nat.
  Definition mk2 (p m : nat) : nat := match p, m with 0, 0 => 2 | 0, _ => 1 | 2, _ => 0 | _, _ => p end%nat.
  Example root_key_max_refuted :
    let s := one_entry 0 (mkE nat 32767 10 Exact 0%nat) in
    let s' := startG mvs2 mk2 chk1 Nat.eqb s 0%nat 3%nat in
    (chk1 (mk2 0 1) = true /\ mvs2 (mk2 0 1) = [])                     (* move 1 mates *)
    /\ mvs2 (mk2 0 0) = [0%nat]                                         (* move 0 does not *)
    /\ best_move nat s' = Some 0%nat /\ best_score nat s' = Some 32767
    /\ entry s' 2 = Some (mkE nat (-32767) 2 Upper 0%nat).
  Proof. vm_compute. repeat split. Qed.

  (* (3) No bound on the cached scores alone is maintained by the search: once the root has found a
     mate in one (alpha = 32767) the remaining root moves are searched with the window
     (-32768, -32767); their children get the degenerate window (32767, 32767), the grandchildren
     (-32767, -32767), and a cut-off stores (Lower, 32767) for a position that is not won.
     Root 0: moves [0 -> 2; 1 -> 1 (mated); 2 -> 5]; 2 -> 7 -> 8 -> 3; 5 -> 3; 3 (in check) -> 4 -> 6 -> 9. *)
  Definition mvs3 (p : nat) : list nat := match p with 0 => [0; 1; 2] | 1 => [] | 9 => [] | _ => [0] end%nat.
  Definition mk3 (p m : nat) : nat :=
    match p, m with
    | 0, 0 => 2 | 0, 1 => 1 | 0, _ => 5 | 2, _ => 7 | 7, _ => 8 | 8, _ => 3 | 5, _ => 3
    | 3, _ => 4 | 4, _ => 6 | 6, _ => 9 | _, _ => p
    end%nat.
  Definition chk3 (p : nat) : bool := Nat.eqb p 1 || Nat.eqb p 3.
  Definition iter3 (eqb : nat -> nat -> bool) (s : St nat) (d : nat) := startG mvs3 mk3 chk3 eqb s 0%nat d.

  (* from the EMPTY cache, with the real move equality: the depth-3 iteration finds the mate and
     leaves the unsound entry (Lower, 32767) for position 3 (nobody can force anything there) *)
  Example unsound_lower_bound_stored :
    let s' := iter3 Nat.eqb (init_st nat) 3%nat in
    best_move nat s' = Some 1%nat /\ best_score nat s' = Some 32767
    /\ entry s' 3 = Some (mkE nat 32767 2 Lower 0%nat)
    /\ entry s' 4 = Some (mkE nat (-32767) 1 Lower 0%nat)
    /\ entry s' 5 = Some (mkE nat (-32767) 2 Lower 0%nat).
  Proof. vm_compute. repeat split. Qed.

  (* the same after the depth-3 and depth-4 iterations (the cached root move is ordered first, so
     the mate is still announced, but the unsound entries stay and spread) *)
  Example unsound_lower_bound_depth4 :
    let s' := iter3 Nat.eqb (iter3 Nat.eqb (init_st nat) 3%nat) 4%nat in
    best_move nat s' = Some 1%nat /\ best_score nat s' = Some 32767
    /\ entry s' 3 = Some (mkE nat 32767 2 Lower 0%nat)
    /\ entry s' 7 = Some (mkE nat 32767 2 Lower 0%nat).
  Proof. vm_compute. repeat split. Qed.

  (* if the cached root move is NOT ordered first (here: mv_eqb := fun _ _ => false, which the
     original statement allowed), the next iteration, started from the cache the search itself
     produced from the EMPTY cache, announces the non-mating move 0 with the mate score *)
  Example chaining_without_tt_move_first_refuted :
    let nev := fun _ _ : nat => false in
    let s' := iter3 nev (iter3 nev (init_st nat) 3%nat) 4%nat in
    (chk3 (mk3 0 1) = true /\ mvs3 (mk3 0 1) = [])                     (* move 1 mates *)
    /\ mvs3 (mk3 0 0) = [0%nat]                                         (* move 0 does not *)
    /\ best_move nat (iter3 nev (init_st nat) 3%nat) = Some 1%nat
    /\ best_move nat s' = Some 0%nat /\ best_score nat s' = Some 32767.
  Proof. vm_compute. repeat split. Qed.
End MateCex.
