(* UciProofs.v — proofs for props/C15.v and props/C08.v about model/Uci.v. *)
From Coq Require Import NArith List Lia Bool Ascii String Arith.
Import ListNotations.
From RCE Require Import lib.Bits model.Board model.Movegen model.Fen model.Uci.
Open Scope string_scope.
Open Scope nat_scope.

(* ---------- definitions used by the C08 statements (moved here from props/C08.v) ---------- *)

(* the game described: play the named legal moves one after the other *)
Fixpoint play_game (b : Board) (ms : list string) : option Board :=
  match ms with
  | [] => Some b
  | m :: t => match filter (fun p => String.eqb (to_notation p) m) (get_legal_moves b) with
              | p :: _ => play_game (make_move b p) t
              | [] => None
              end
  end.
Definition start_of (k : PosKind) : option Board :=
  match k with StartPos => Some start_board | FenPos f => from_fen f end.
Definition moves_of (o : option (list string)) : list string := match o with Some l => l | None => [] end.

(* ---------- slices and indices ---------- *)

Lemma slice_from_ok : forall A (l : list A) i,
  i <= List.length l -> slice_from l i = Ok (skipn i l).
Proof.
  intros A l i H. unfold slice_from.
  destruct (Nat.leb_spec i (List.length l)); [reflexivity|lia].
Qed.

Lemma slice_ok : forall A (l : list A) i j,
  i <= j -> j <= List.length l -> slice l i j = Ok (firstn (j - i) (skipn i l)).
Proof.
  intros A l i j H1 H2. unfold slice.
  destruct (Nat.leb_spec i j); [|lia].
  destruct (Nat.leb_spec j (List.length l)); [reflexivity|lia].
Qed.

Lemma index_ok : forall A (l : list A) i,
  i < List.length l -> exists x, index l i = Ok x.
Proof.
  intros A l i H. unfold index.
  destruct (nth_error l i) eqn:E; [eauto|].
  apply nth_error_None in E. lia.
Qed.

(* ---------- C15: the parser is total ---------- *)

Lemma parse_option_total : forall args, parse_option args <> Panic.
Proof.
  intros args. unfold parse_option.
  destruct (Nat.ltb_spec (List.length args) 2); [discriminate|].
  destruct (position_of "name" args 0) as [n|]; [|discriminate].
  destruct (Nat.ltb_spec (List.length args) (n + 2)); [discriminate|].
  destruct (position_of "value" args 0) as [v|].
  - destruct (Nat.ltb_spec v (List.length args)); [|cbn [bind]; discriminate].
    rewrite slice_from_ok by lia. cbn [bind].
    destruct (Nat.ltb_spec n v); [|cbn [bind]; discriminate].
    rewrite slice_ok by lia. cbn [bind].
    destruct (String.eqb _ _); discriminate.
  - cbn [bind]. rewrite slice_from_ok by lia. cbn [bind].
    destruct (String.eqb _ _); discriminate.
Qed.

Lemma parse_position_total : forall args, parse_position args <> Panic.
Proof.
  intros [|a0 r]; [discriminate|].
  unfold parse_position. set (args := a0 :: r).
  assert (Hlen : List.length args = S (List.length r)) by reflexivity.
  replace (index args 0) with (Ok a0) by reflexivity. cbn [bind].
  assert (HS : (if Nat.ltb 2 (List.length args)
                then bind (index args 1)
                       (fun a1 => if String.eqb a1 "moves"
                                  then bind (slice_from args 2) (fun l => Ok (CPosition StartPos (Some l)))
                                  else Ok (CPosition StartPos None))
                else Ok (CPosition StartPos None)) <> Panic).
  { destruct (Nat.ltb_spec 2 (List.length args)); [|discriminate].
    destruct (index_ok _ args 1) as [a1 H1]; [lia|]. rewrite H1. cbn [bind].
    destruct (String.eqb a1 "moves"); [|discriminate].
    rewrite slice_from_ok by lia. cbn [bind]. discriminate. }
  assert (HF : forall fen, (if Nat.ltb 8 (List.length args)
                then bind (index args 7)
                       (fun a7 => if String.eqb a7 "moves"
                                  then bind (slice_from args 8) (fun l => Ok (CPosition (FenPos fen) (Some l)))
                                  else Ok (CPosition (FenPos fen) None))
                else Ok (CPosition (FenPos fen) None)) <> Panic).
  { intros fen. destruct (Nat.ltb_spec 8 (List.length args)); [|discriminate].
    destruct (index_ok _ args 7) as [a7 H7]; [lia|]. rewrite H7. cbn [bind].
    destruct (String.eqb a7 "moves"); [|discriminate].
    rewrite slice_from_ok by lia. cbn [bind]. discriminate. }
  destruct (String.eqb a0 "startpos").
  - cbn [bind]. exact HS.
  - destruct (String.eqb a0 "fen"); [|cbn [bind]; discriminate].
    destruct (Nat.ltb_spec (List.length args) 7); [cbn [bind]; discriminate|].
    rewrite slice_ok by lia. cbn [bind]. apply HF.
Qed.

Lemma parse_go_loop_total : forall fuel args i l,
  i <= List.length args -> List.length args < fuel + i -> parse_go_loop fuel args i l <> Panic.
Proof.
  induction fuel as [|f IH]; intros args i l Hi Hf.
  - lia.
  - cbn [parse_go_loop].
    destruct (Nat.ltb_spec i (List.length args)); [|discriminate].
    destruct (index_ok _ args i) as [tok Ht]; [lia|]. rewrite Ht. cbn [bind].
    destruct (go_ignored tok).
    + apply IH; lia.
    + destruct (go_valued tok) as [mx|].
      * destruct (nth_error args (S i)) as [v|] eqn:Ev; [|discriminate].
        destruct (parse_uint mx v); [|discriminate].
        assert (S i < List.length args) by (apply nth_error_Some; congruence).
        apply IH; lia.
      * destruct (String.eqb tok "infinite"); discriminate.
Qed.

Lemma parse_go_total : forall args, parse_go args <> Panic.
Proof. intros args. unfold parse_go. apply parse_go_loop_total; lia. Qed.

Lemma parse_total : forall args : list string, parse_command args <> Panic.
Proof.
  intros [|c rest]; [discriminate|].
  unfold parse_command.
  assert (Hs : slice_from (c :: rest) 1 = Ok rest)
    by (rewrite slice_from_ok; [reflexivity | cbn [List.length]; lia]).
  replace (index (c :: rest) 0) with (Ok c) by reflexivity. cbn [bind].
  destruct (String.eqb c "uci"); [discriminate|].
  destruct (String.eqb c "isready"); [discriminate|].
  destruct (String.eqb c "ucinewgame"); [discriminate|].
  destruct (String.eqb c "setoption"); [rewrite Hs; cbn [bind]; apply parse_option_total|].
  destruct (String.eqb c "position"); [rewrite Hs; cbn [bind]; apply parse_position_total|].
  destruct (String.eqb c "go"); [rewrite Hs; cbn [bind]; apply parse_go_total|].
  destruct (String.eqb c "stop"); [discriminate|].
  destruct (String.eqb c "quit"); discriminate.
Qed.

(* ---------- C15: one step, the loop ---------- *)

Lemma apply_moves_not_panic : forall ms b, apply_moves b ms <> Panic.
Proof.
  induction ms as [|m t IH]; intros b; cbn [apply_moves]; [discriminate|].
  destruct (find_move b m); [apply IH|discriminate].
Qed.

Lemma execute_not_panic : forall s c,
  c <> CQuit ->
  (forall f ms, c = CPosition (FenPos f) ms -> from_fen f <> None) ->
  execute s c <> Panic.
Proof.
  intros s c Hq Hf. destruct c; cbn [execute]; try discriminate; [|congruence].
  unfold load_position. destruct k as [|fen].
  - cbn [bind]. destruct (apply_moves _ _) eqn:E; cbn [bind]; try discriminate.
    exfalso; eapply apply_moves_not_panic; eauto.
  - destruct (from_fen fen) eqn:Ef.
    + cbn [bind]. destruct (apply_moves _ _) eqn:E; cbn [bind]; try discriminate.
      exfalso; eapply apply_moves_not_panic; eauto.
    + exfalso. eapply Hf; eauto.
Qed.

Lemma step_total : forall s line,
  (forall f ms, parse_command (tokens line) = Ok (CPosition (FenPos f) ms) -> from_fen f <> None) ->
  step s line <> SCrash.
Proof.
  intros s line H. unfold step.
  destruct (parse_command (tokens line)) as [c| |] eqn:E;
    [|discriminate|exfalso; eapply parse_total; eauto].
  assert (Hc : c = CQuit \/ c <> CQuit)
    by (destruct c; (left; reflexivity) || (right; discriminate)).
  destruct Hc as [Hc|Hc]; [subst; discriminate|].
  assert (Hx : execute s c <> Panic).
  { apply execute_not_panic; [assumption|]. intros f ms ->. eapply H; reflexivity. }
  destruct c; try congruence; destruct (execute _ _) eqn:E2; congruence.
Qed.

Lemma uci_loop_cons : forall f s line rest,
  uci_loop (S f) s (line :: rest) =
  match step s line with
  | SCont s' => uci_loop f s' rest
  | SQuit => (EndQuit, s)
  | SCrash => (EndCrash, s)
  end.
Proof. reflexivity. Qed.

Lemma fens_valid_tail : forall a l, fens_valid (a :: l) -> fens_valid l.
Proof. intros a l H line f ms Hin. apply H. right; assumption. Qed.

Lemma fens_valid_head : forall a l, fens_valid (a :: l) ->
  forall f ms, parse_command (tokens a) = Ok (CPosition (FenPos f) ms) -> from_fen f <> None.
Proof. intros a l H f ms. apply H. left; reflexivity. Qed.

Lemma loop_ends : forall input s,
  fens_valid input ->
  fst (uci_loop (S (List.length input)) s input) = EndQuit \/
  fst (uci_loop (S (List.length input)) s input) = EndEof.
Proof.
  induction input as [|a rest IH]; intros s Hv.
  - right; reflexivity.
  - cbn [List.length]. rewrite uci_loop_cons.
    destruct (step s a) eqn:E.
    + apply IH. eapply fens_valid_tail; eauto.
    + left; reflexivity.
    + exfalso. eapply step_total; [|exact E]. eapply fens_valid_head; eauto.
Qed.

Lemma count_readyok_emit : forall s e,
  count_readyok (emit s e) = (match e with EReadyOk => 1 | _ => 0 end) + count_readyok s.
Proof. intros s e. unfold count_readyok, emit. cbn [s_events filter]. destruct e; reflexivity. Qed.

Lemma step_cont_count : forall s line s',
  step s line = SCont s' ->
  is_cmd line CQuit = false /\
  count_readyok s' = count_readyok s + (if is_cmd line CIsReady then 1 else 0).
Proof.
  intros s line s'. unfold step, is_cmd.
  destruct (parse_command (tokens line)) as [c| |].
  - destruct c; cbn [execute]; try destruct (load_position _ _); cbn [bind];
      intros H; inversion H; subst; split; try reflexivity;
      rewrite ?count_readyok_emit; unfold count_readyok; cbn [s_events]; lia.
  - intros H; inversion H; subst. split; [reflexivity|].
    rewrite count_readyok_emit. lia.
  - discriminate.
Qed.

Lemma step_quit : forall s line, step s line = SQuit -> is_cmd line CQuit = true.
Proof.
  intros s line. unfold step, is_cmd.
  destruct (parse_command (tokens line)) as [c| |]; try discriminate.
  destruct c; try reflexivity; destruct (execute _ _); discriminate.
Qed.

Lemma ready_answered : forall input s,
  fens_valid input ->
  count_readyok (snd (uci_loop (S (List.length input)) s input)) =
  count_readyok s + count_ready (before_quit input).
Proof.
  induction input as [|a rest IH]; intros s Hv.
  - cbn. lia.
  - cbn [List.length]. rewrite uci_loop_cons.
    destruct (step s a) eqn:E.
    + destruct (step_cont_count _ _ _ E) as [Hq Hc].
      rewrite IH by (eapply fens_valid_tail; eauto).
      cbn [before_quit]. rewrite Hq, Hc. unfold count_ready. cbn [filter].
      destruct (is_cmd a CIsReady); cbn [List.length]; lia.
    + cbn [before_quit snd]. rewrite (step_quit _ _ E). cbn. lia.
    + exfalso. eapply step_total; [|exact E]. eapply fens_valid_head; eauto.
Qed.

(* ---------- C08 ---------- *)

Lemma find_move_spec : forall b m,
  (forall p, find_move b m = Some p -> In p (get_legal_moves b) /\ to_notation p = m) /\
  (find_move b m = None <-> forall p, In p (get_legal_moves b) -> to_notation p <> m).
Proof.
  intros b m. unfold find_move. split; [|split].
  - intros p H. apply find_some in H. destruct H as [H1 H2].
    split; [assumption|]. apply String.eqb_eq; assumption.
  - intros H p Hin Heq.
    pose proof (find_none _ _ H p Hin) as Hn. cbv beta in Hn.
    apply String.eqb_eq in Heq. congruence.
  - intros H. destruct (find _ _) as [p|] eqn:E; [|reflexivity].
    apply find_some in E. destruct E as [E1 E2]. apply String.eqb_eq in E2.
    exfalso. exact (H p E1 E2).
Qed.

Lemma find_filter : forall A (f : A -> bool) l,
  find f l = match filter f l with x :: _ => Some x | [] => None end.
Proof.
  intros A f l. induction l as [|a t IH]; [reflexivity|].
  cbn [find filter]. destruct (f a); [reflexivity|exact IH].
Qed.

Lemma apply_moves_play : forall ms b,
  apply_moves b ms = match play_game b ms with Some b' => Ok b' | None => Err end.
Proof.
  induction ms as [|m t IH]; intros b; [reflexivity|].
  cbn [apply_moves play_game]. unfold find_move. rewrite find_filter.
  destruct (filter _ _) as [|p ps]; [reflexivity|]. apply IH.
Qed.

Lemma load_position_play : forall k ms b0,
  start_of k = Some b0 ->
  load_position k ms = match play_game b0 (moves_of ms) with Some b' => Ok b' | None => Err end.
Proof.
  intros k ms b0 H. unfold load_position. destruct k as [|fen]; cbn [start_of] in H.
  - injection H as <-. cbn [bind]. apply apply_moves_play.
  - rewrite H. cbn [bind]. apply apply_moves_play.
Qed.

Lemma position_accept : forall s k ms b0 b,
  start_of k = Some b0 -> play_game b0 (moves_of ms) = Some b ->
  exists s', execute s (CPosition k ms) = Ok s' /\ s_board s' = b /\ s_events s' = s_events s.
Proof.
  intros s k ms b0 b H1 H2. cbn [execute].
  rewrite (load_position_play _ _ _ H1), H2. cbn [bind].
  eexists; split; [reflexivity|]. split; reflexivity.
Qed.

Lemma position_reject : forall s k ms b0,
  start_of k = Some b0 -> play_game b0 (moves_of ms) = None ->
  execute s (CPosition k ms) = Err.
Proof.
  intros s k ms b0 H1 H2. cbn [execute].
  rewrite (load_position_play _ _ _ H1), H2. reflexivity.
Qed.

Lemma reject_keeps : forall s line k ms,
  parse_command (tokens line) = Ok (CPosition k ms) -> execute s (CPosition k ms) = Err ->
  exists s', step s line = SCont s' /\ s_board s' = s_board s.
Proof.
  intros s line k ms Hp He. unfold step. rewrite Hp, He.
  eexists; split; reflexivity.
Qed.

(* notation *)

Lemma to_notation_promo : forall m,
  to_notation m = sq_str (p_start m) ++ sq_str (p_dest m) ++ promo_letter (p_promoted m).
Proof. intros m. reflexivity. Qed.

Lemma file_char_inj : forall a b, a < 8 -> b < 8 -> file_char a = file_char b -> a = b.
Proof.
  intros a b Ha Hb H. unfold file_char in H.
  apply (f_equal nat_of_ascii) in H.
  rewrite !nat_ascii_embedding in H by lia. lia.
Qed.

Lemma rank_char_inj : forall a b, a < 8 -> b < 8 -> rank_char a = rank_char b -> a = b.
Proof.
  intros a b Ha Hb H. unfold rank_char in H.
  apply (f_equal nat_of_ascii) in H.
  rewrite !nat_ascii_embedding in H by lia. lia.
Qed.

Lemma sq_valid_bounds : forall s, sq_valid s = true -> rank s < 8 /\ file s < 8.
Proof.
  intros s H. unfold sq_valid in H. apply andb_true_iff in H. destruct H as [H1 H2].
  apply Nat.ltb_lt in H1. apply Nat.ltb_lt in H2. split; assumption.
Qed.

Lemma sq_eq : forall s1 s2,
  sq_valid s1 = true -> sq_valid s2 = true ->
  file_char (file s1) = file_char (file s2) -> rank_char (rank s1) = rank_char (rank s2) -> s1 = s2.
Proof.
  intros [r1 f1] [r2 f2] H1 H2 Hf Hr.
  apply sq_valid_bounds in H1. apply sq_valid_bounds in H2. cbn [rank file] in *.
  apply file_char_inj in Hf; [|lia|lia]. apply rank_char_inj in Hr; [|lia|lia].
  subst. reflexivity.
Qed.

Lemma notation_inj : forall m1 m2,
  sq_valid (p_start m1) = true -> sq_valid (p_dest m1) = true ->
  sq_valid (p_start m2) = true -> sq_valid (p_dest m2) = true ->
  to_notation m1 = to_notation m2 ->
  p_start m1 = p_start m2 /\ p_dest m1 = p_dest m2 /\
  promo_letter (p_promoted m1) = promo_letter (p_promoted m2).
Proof.
  intros m1 m2 V1 V2 V3 V4 H.
  rewrite !to_notation_promo in H. unfold sq_str in H. cbn [append] in H.
  injection H as Ha Hb Hc Hd He.
  split; [apply sq_eq; assumption|]. split; [apply sq_eq; assumption|]. exact He.
Qed.

(* token slicing *)

Lemma tokens_startpos : forall ms,
  ms <> [] -> parse_command ("position" :: "startpos" :: "moves" :: ms) = Ok (CPosition StartPos (Some ms)).
Proof.
  intros [|m t] H; [congruence|]. reflexivity.
Qed.

Lemma tokens_fen : forall f1 f2 f3 f4 f5 f6 ms,
  ms <> [] ->
  parse_command ("position" :: "fen" :: f1 :: f2 :: f3 :: f4 :: f5 :: f6 :: "moves" :: ms)
  = Ok (CPosition (FenPos (join [f1; f2; f3; f4; f5; f6])) (Some ms)).
Proof.
  intros f1 f2 f3 f4 f5 f6 [|m t] H; [congruence|]. reflexivity.
Qed.
