(* SearchMateSeenProofs.v — proofs for props/C12seen.v (cache ON): a mate in two of the look-ahead game with a QUIET key move is always
   SEEN, for every cache content that is mate-sound and "short-mate complete", both of which the search re-establishes.
   (For a key move that gives check the statement is false of the model: props/C12seenRefuted.v.)
   Section Defs fixes the notions of the statement; the lemmas applied by props/C12seen.v are
     mate_seen_preserved, quiet_mate_in_two_seen, quiet_mate_in_two_seen_search, empty_cache_complete. *)
From Coq Require Import NArith ZArith List Lia Bool FMapPositive Permutation.
Import ListNotations.
From RCE Require Import model.Search spec.Mate proofs.SearchProofs proofs.SearchAbortProofs proofs.SearchMateProofs
  proofs.SearchMateSoundProofs.
Open Scope Z_scope.

Section Defs.
  Variables pos mv : Type.
  Variable moves : pos -> list mv.
  Variable legal : pos -> mv -> bool.
  Variable make : pos -> mv -> pos.
  Variable in_check : pos -> bool.
  Variable key : pos -> N.
  Variable halfmove : pos -> N.
  Variable repeated : pos -> bool.

  Local Notation lmoves := (lmoves pos mv moves legal).

  (* the look-ahead game's own draws: the search scores such a node 0 before looking at anything else *)
  Definition drawn (p : pos) : bool := (100 <=? halfmove p)%N || repeated p.
  (* checkmated, and seen as such by the search *)
  Definition M0 (p : pos) : Prop := lmoves p = [] /\ in_check p = true /\ drawn p = false.
  (* the side to move mates in one *)
  Definition W1 (p : pos) : Prop := drawn p = false /\ exists m, In m (lmoves p) /\ M0 (make p m).
  (* the side to move has a move, and is mated in one whatever it plays *)
  Definition L1 (p : pos) : Prop := drawn p = false /\ lmoves p <> [] /\ forall m, In m (lmoves p) -> W1 (make p m).
  (* ... and is NOT in check: the move that led here was quiet (no in-check extension at this node: the depth it is stored with is the
     depth it was probed with) *)
  Definition L1q (p : pos) : Prop := L1 p /\ in_check p = false.
  (* the side to move (at the root: no draw test there) has a mate in two with a quiet key move *)
  Definition W2q (p : pos) : Prop := exists m, In m (lmoves p) /\ L1q (make p m).

  (* short-mate completeness of the cache: only positions with a legal move are cached; an entry (of any depth) for a position with a
     mate in one that is not a mere lower bound says "won"; an entry of depth >= 2 for a position not in check that is mated in one
     whatever it plays and that is not a mere upper bound says "lost" *)
  Definition tt_complete (s : St mv) : Prop :=
    forall p e, tt_get mv s (key p) = Some e ->
      lmoves p <> []
      /\ (W1 p -> e_bound mv e <> Lower -> 32000 <= e_score mv e)
      /\ (L1q p -> (2 <= e_depth mv e)%nat -> e_bound mv e <> Upper -> e_score mv e <= -32000).
End Defs.

(* the best-move slots never name a move that allows a mate in one, unless the score says "lost" (in the style of best_sound) *)
Section DefsAvoid.
  Variables pos mv : Type.
  Variable moves : pos -> list mv.
  Variable legal : pos -> mv -> bool.
  Variable make : pos -> mv -> pos.
  Variable in_check : pos -> bool.
  Variable halfmove : pos -> N.
  Variable repeated : pos -> bool.

  Definition best_avoid (root : pos) (s : St mv) : Prop :=
    forall sc, best_score mv s = Some sc -> -32000 < sc ->
      exists m, best_move mv s = Some m /\ ~ W1 pos mv moves legal make in_check halfmove repeated (make root m).
End DefsAvoid.

Lemma empty_cache_complete pos mv moves legal make in_check key halfmove repeated :
  tt_complete pos mv moves legal make in_check key halfmove repeated (init_st mv).
Proof.
  intros p e F. unfold tt_get in F. cbn [tt init_st] in F. rewrite PositiveMap.gempty in F. discriminate.
Qed.

Section Seen.
  Variables pos mv : Type.
  Variable moves : pos -> list mv.
  Variable legal : pos -> mv -> bool.
  Variable make : pos -> mv -> pos.
  Variable in_check : pos -> bool.
  Variable evalf : pos -> Z.
  Variable is_cap is_promo : mv -> bool.
  Variable cap_score : mv -> N.
  Variable mv_eqb : mv -> mv -> bool.
  Variable key : pos -> N.
  Variable halfmove : pos -> N.
  Variable repeated : pos -> bool.
  Variable default_mv : mv.
  Variable clock : nat -> N.

  Local Notation Won := (Won pos mv moves legal make in_check).
  Local Notation Lost := (Lost pos mv moves legal make in_check).
  Local Notation lmoves := (lmoves pos mv moves legal).

  Variable Inv : pos -> Prop.
  Hypothesis Inv_make : forall p m, Inv p -> In m (moves p) -> legal p m = true -> Inv (make p m).
  Hypothesis Inv_eval : forall p, Inv p -> -32000 < evalf p < 32000.
  Hypothesis key_inj : forall p q, key p = key q -> p = q.

  Local Notation nostop := (fun _ : nat => false).
  Local Notation State := (St mv).
  Local Notation run_ := (running mv).
  Local Notation sel := (seldepth mv).
  Local Notation abt := (aborted mv no_limits clock nostop).
  Local Notation qs := (quiescence pos mv moves legal make evalf is_cap is_promo cap_score mv_eqb key
                                   no_limits clock nostop).
  Local Notation ab := (alpha_beta pos mv moves legal make in_check evalf is_cap is_promo cap_score mv_eqb key
                                   halfmove repeated default_mv no_limits clock nostop true).
  Local Notation start := (alpha_beta_start pos mv moves legal make in_check evalf is_cap is_promo cap_score
                                   mv_eqb key halfmove repeated default_mv no_limits clock nostop true).
  Local Notation iter := (iter_loop pos mv moves legal make in_check evalf is_cap is_promo cap_score mv_eqb key
                                   halfmove repeated default_mv no_limits clock nostop true).
  Local Notation srch := (search pos mv moves legal make in_check evalf is_cap is_promo cap_score mv_eqb key
                                   halfmove repeated default_mv no_limits clock nostop true).
  Local Notation order := (order_moves pos mv is_cap is_promo cap_score mv_eqb key).
  Local Notation tins := (tt_insert mv nostop).
  Local Notation skill := (store_killers mv is_cap is_promo mv_eqb).
  Local Notation cscore := (child_score pos mv).
  Local Notation qlp := (qloop pos mv legal make).
  Local Notation ablp := (abloop pos mv legal make in_check is_cap is_promo mv_eqb key no_limits clock nostop).
  Local Notation rootlp := (rootloop pos mv legal make key no_limits clock nostop).
  Local Notation q_rec := (qrec pos mv moves legal make evalf is_cap is_promo cap_score mv_eqb key
                                no_limits clock nostop).
  Local Notation ab_rec := (abrec pos mv moves legal make in_check evalf is_cap is_promo cap_score mv_eqb key
                                  halfmove repeated default_mv no_limits clock nostop true).
  Local Notation tick s := (tick_read mv (tick_load mv s)).
  Local Notation tts := (tt_sound pos mv moves legal make in_check key).
  Local Notation bsound := (best_sound pos mv moves legal make in_check).
  Local Notation nomate1 := (no_mate1 pos mv moves legal make in_check).
  Local Notation ttc := (tt_complete pos mv moves legal make in_check key halfmove repeated).
  Local Notation drawnp := (drawn pos halfmove repeated).
  Local Notation M0 := (M0 pos mv moves legal in_check halfmove repeated).
  Local Notation W1 := (W1 pos mv moves legal make in_check halfmove repeated).
  Local Notation L1 := (L1 pos mv moves legal make in_check halfmove repeated).
  Local Notation L1q := (L1q pos mv moves legal make in_check halfmove repeated).
  Local Notation W2q := (W2q pos mv moves legal make in_check halfmove repeated).
  Local Notation frm := (fr mv).
  (* the notions of SearchMateSoundProofs *)
  Local Notation OPost := (Post pos mv moves legal make in_check key).
  Local Notation ORng := (Rng pos mv moves legal in_check).
  Local Notation Ocspec := (cspec pos mv moves legal make in_check key).
  Local Notation OCSc := (CSc pos mv moves legal make in_check).

  Lemma key_sem : forall p q, key p = key q -> (Won p -> Won q) /\ (Lost p -> Lost q).
  Proof. intros p q E. apply key_inj in E. subst q. split; exact (fun h => h). Qed.

  (* ---------------- seldepth only grows, the flag is never cleared (no limits, no stop) ---------------- *)
  Definition Mn (s s' : State) : Prop := (sel s <= sel s')%nat /\ run_ s' = run_ s.
  Lemma Mn_refl s : Mn s s.
  Proof. split; [apply Nat.le_refl | reflexivity]. Qed.
  Lemma Mn_trans s1 s2 s3 : Mn s1 s2 -> Mn s2 s3 -> Mn s1 s3.
  Proof. intros [A B] [C D]. split; [eapply Nat.le_trans; eassumption | congruence]. Qed.
  Lemma Mn_fr_like (s s' : State) : sel s' = sel s -> run_ s' = run_ s -> Mn s s'.
  Proof. intros A B. split; [rewrite A; apply Nat.le_refl | exact B]. Qed.
  Lemma Mn_abt (s : State) ply : Mn s (snd (abt s ply)).
  Proof.
    unfold aborted, is_running. cbv beta iota.
    destruct (negb (flag_now mv nostop s)); [apply Mn_fr_like; reflexivity|].
    unfold limits_exceeded. cbn [l_nodes l_movetime l_any_clock l_timer no_limits]. cbv beta iota zeta.
    destruct (Nat.eqb ply PLY_MAX); apply Mn_fr_like; reflexivity.
  Qed.
  Lemma Mn_enter (s : State) ply u : Mn s (enter_node mv s ply u).
  Proof. split; [|reflexivity]. cbn [seldepth enter_node]. destruct u; lia. Qed.
  Lemma Mn_tins (s : State) k e : Mn s (tins s k e).
  Proof. apply Mn_fr_like; reflexivity. Qed.
  Lemma Mn_skill (s : State) ply m : Mn s (skill s ply m).
  Proof.
    unfold store_killers. destruct (is_cap m || is_promo m); [apply Mn_refl|].
    destruct (okill_eqb mv mv_eqb m _); [apply Mn_refl | apply Mn_fr_like; reflexivity].
  Qed.

  Definition mnq (rec : State -> pos -> Z -> Z -> Z * State) : Prop := forall s c a b, Mn s (snd (rec s c a b)).
  Definition mnr (rec : State -> pos -> Z -> Z -> State * Z) : Prop := forall s c a b, Mn s (fst (rec s c a b)).

  Lemma qlp_mn rec p beta ply : mnq rec -> forall ms s alpha, Mn s (snd (qlp rec p beta ply ms s alpha)).
  Proof.
    intros H. induction ms as [|m t IH]; intros s alpha; cbn [qloop]; [apply Mn_refl|].
    destruct (negb (legal p m)); [apply IH|]. cbv zeta.
    pose proof (H (enter_node mv s (S ply) true) (make p m) (sneg beta) (sneg alpha)) as M1.
    destruct (rec _ _ _ _) as [r s1]. cbn [snd] in M1.
    assert (M1' : Mn s s1) by (eapply Mn_trans; [apply Mn_enter | exact M1]).
    destruct (sneg r >=? beta); [exact M1'|]. eapply Mn_trans; [exact M1' | apply IH].
  Qed.
  Lemma qs_mn : forall f s p a b ply, Mn s (snd (qs f s p a b ply)).
  Proof.
    induction f as [|f IH]; intros s p a b ply; [apply Mn_refl|].
    rewrite gqs_S. pose proof (Mn_abt s ply) as MA. destruct (abt s ply) as [b0 s1]. cbn [snd] in MA.
    destruct b0; [exact MA|]. destruct (evalf p >=? b); [exact MA|].
    eapply Mn_trans; [exact MA|]. apply qlp_mn. intros s' c a' b'. unfold qrec. apply IH.
  Qed.
  Lemma cscore_mn rec s c alpha beta pvs : mnr rec -> Mn s (fst (cscore rec s c alpha beta pvs)).
  Proof.
    intros H. unfold child_score. destruct pvs.
    - pose proof (H s c (sneg alpha - 1) (sneg alpha)) as M1.
      destruct (rec s c (sneg alpha - 1) (sneg alpha)) as [s1 r1]. cbn [fst] in M1.
      destruct ((alpha <? sneg r1) && (sneg r1 <? beta)); [|exact M1].
      pose proof (H s1 c (sneg beta) (sneg alpha)) as M2.
      destruct (rec s1 c (sneg beta) (sneg alpha)) as [s2 r2]. cbn [fst] in M2 |- *.
      eapply Mn_trans; eassumption.
    - pose proof (H s c (sneg beta) (sneg alpha)) as M1.
      destruct (rec s c (sneg beta) (sneg alpha)) as [s1 r1]. exact M1.
  Qed.
  Lemma ablp_mn rec p a0 beta depth ply : mnr rec ->
    forall ms s alpha best pvs cnt, Mn s (snd (ablp rec p a0 beta depth ply ms s alpha best pvs cnt)).
  Proof.
    intros H. induction ms as [|m t IH]; intros s alpha best pvs cnt; cbn [abloop].
    - destruct cnt; [apply Mn_refl | apply Mn_tins].
    - destruct (negb (legal p m)); [apply IH|]. cbv zeta.
      pose proof (cscore_mn rec (enter_node mv s (S ply) true) (make p m) alpha beta pvs H) as M1.
      destruct (cscore rec _ _ _ _ _) as [s1 sc]. cbn [fst] in M1.
      pose proof (Mn_abt s1 ply) as MA. destruct (abt s1 ply) as [b0 s2]. cbn [snd] in MA.
      assert (M2 : Mn s s2) by (eapply Mn_trans; [apply Mn_enter|]; eapply Mn_trans; eassumption).
      destruct b0; [exact M2|].
      destruct (sc >=? beta).
      + cbn [snd]. eapply Mn_trans; [exact M2|]. eapply Mn_trans; [apply Mn_tins | apply Mn_skill].
      + destruct (sc >? alpha); (eapply Mn_trans; [exact M2 | apply IH]).
  Qed.
  Lemma ab_mn : forall f s p a b d ply, Mn s (snd (ab f s p a b d ply)).
  Proof.
    induction f as [|f IH]; intros s p a b d ply; [apply Mn_refl|].
    rewrite gab_S. pose proof (Mn_abt s ply) as MA. destruct (abt s ply) as [b0 s1]. cbn [snd] in MA.
    destruct b0; [exact MA|]. destruct (N.leb 100 (halfmove p)); [exact MA|]. destruct (repeated p); [exact MA|].
    cbv beta iota zeta.
    destruct (probe pos mv key s1 p d a b) as [[[v|] a0] b0]; [exact MA|].
    destruct (if in_check p then S d else d) as [|dm1].
    - eapply Mn_trans; [exact MA | apply qs_mn].
    - eapply Mn_trans; [exact MA|]. apply ablp_mn. intros s' c a' b'. unfold abrec.
      pose proof (IH s' c a' b' dm1 (S ply)) as M. destruct (ab f s' c a' b' dm1 (S ply)) as [r s'']. exact M.
  Qed.
  Lemma abrec_mn f dm1 ply : mnr (ab_rec f dm1 ply).
  Proof.
    intros s c a b. unfold abrec. pose proof (ab_mn f s c a b dm1 (S ply)) as M.
    destruct (ab f s c a b dm1 (S ply)) as [r s']. exact M.
  Qed.
  Lemma rootlp_mn rec p depth : mnr rec ->
    forall ms s alpha best pvs cnt, Mn s (rootlp rec p depth ms s alpha best pvs cnt).
  Proof.
    intros H. induction ms as [|m t IH]; intros s alpha best pvs cnt; cbn [rootloop].
    - destruct cnt; [apply Mn_refl|].
      pose proof (Mn_abt s 0) as MA. destruct (abt s 0) as [b0 s1]. cbn [snd] in MA.
      destruct b0; [exact MA|]. eapply Mn_trans; [exact MA|]. apply Mn_fr_like; reflexivity.
    - destruct (negb (legal p m)); [apply IH|]. cbv zeta.
      pose proof (cscore_mn rec (enter_node mv s 1 false) (make p m) alpha SCORE_MAX pvs H) as M1.
      destruct (cscore rec _ _ _ _ _) as [s1 sc]. cbn [fst] in M1.
      pose proof (Mn_abt s1 0) as MA. destruct (abt s1 0) as [b0 s2]. cbn [snd] in MA.
      assert (M2 : Mn s s2) by (eapply Mn_trans; [apply Mn_enter|]; eapply Mn_trans; eassumption).
      destruct b0.
      + destruct (best_score mv s2) as [bs|]; [|exact M2].
        destruct (alpha >? bs); [|exact M2]. eapply Mn_trans; [exact M2|]. apply Mn_fr_like; reflexivity.
      + destruct (sc >? alpha); (eapply Mn_trans; [exact M2 | apply IH]).
  Qed.
  Lemma start_mn s p d : Mn s (start s p d).
  Proof. rewrite gstart_eq. destruct (moves p); [apply Mn_refl|]. apply rootlp_mn, abrec_mn. Qed.
  Lemma iter_mn p : forall n d s out, Mn s (fst (iter n d s p out)).
  Proof.
    induction n as [|n IH]; intros d s out; cbn [iter_loop]; [apply Mn_refl|].
    pose proof (start_mn s p d) as M1.
    pose proof (Mn_abt (start s p d) 0) as MA. destruct (abt (start s p d) 0) as [b0 s2]. cbn [snd] in MA.
    assert (M2 : Mn s s2) by (eapply Mn_trans; eassumption).
    destruct b0; [exact M2|]. eapply Mn_trans; [exact M2 | apply IH].
  Qed.

  (* ---------------- frames for tt_complete ---------------- *)
  Lemma ttc_fr (s s' : State) : ttc s -> frm s s' -> ttc s'.
  Proof. intros H [A _] p e F. unfold tt_get in F. rewrite A in F. exact (H p e F). Qed.
  Lemma fr_tick (s : State) : frm s (tick s).
  Proof. repeat split. Qed.
  Lemma fr_enter2 (s : State) ply u : frm s (enter_node mv s ply u).
  Proof. repeat split. Qed.

  Lemma ttc_tins (s : State) p e : ttc s -> lmoves p <> [] ->
    (W1 p -> e_bound mv e <> Lower -> 32000 <= e_score mv e) ->
    (L1q p -> (2 <= e_depth mv e)%nat -> e_bound mv e <> Upper -> e_score mv e <= -32000) ->
    ttc (tins s (key p) e).
  Proof.
    intros H Hl HW HL q e' F. unfold tt_get in F. cbn [tt tt_insert] in F.
    destruct (Pos.eq_dec (kpos (key q)) (kpos (key p))) as [E|Hne].
    - rewrite E, PositiveMap.gss in F. inversion F; subst e'.
      apply kpos_inj, key_inj in E. subst q. split; [exact Hl | split; assumption].
    - rewrite PositiveMap.gso in F by exact Hne. exact (H q e' F).
  Qed.

  Lemma drawn_false p : drawnp p = false -> N.leb 100 (halfmove p) = false /\ repeated p = false.
  Proof. unfold drawn. apply orb_false_elim. Qed.
  Lemma in_lm p m : In m (lmoves p) <-> In m (moves p) /\ legal p m = true.
  Proof. apply in_lmoves. Qed.

  (* ---------------- the probe ---------------- *)
  Lemma probe_M0 (s : State) p d a b : ttc s -> lmoves p = [] -> probe pos mv key s p d a b = (None, a, b).
  Proof.
    intros H Hn. unfold probe. destruct (tt_get mv s (key p)) as [e|] eqn:F; [|reflexivity].
    destruct (H p e F) as [Hl _]. contradiction.
  Qed.

  Lemma probe_seen (s : State) p d a b : ttc s -> Proper a b ->
    match probe pos mv key s p d a b with
    | (Some v, _, _) => (W1 p -> b <= v \/ 32000 <= v) /\ (L1q p -> (2 <= d)%nat -> v <= a \/ v <= -32000)
    | (None, a0, b0) => (W1 p -> b0 = b \/ 32000 <= b0) /\ (L1q p -> (2 <= d)%nat -> a0 = a \/ a0 <= -32000)
    end.
  Proof.
    intros H [Pa [Pab Pb]]. unfold probe.
    assert (Triv : (W1 p -> b = b \/ 32000 <= b) /\ (L1q p -> (2 <= d)%nat -> a = a \/ a <= -32000))
      by (split; intros; left; reflexivity).
    destruct (tt_get mv s (key p)) as [e|] eqn:F; [|exact Triv].
    destruct (H p e F) as [_ [HW HL]].
    destruct (Nat.leb d (e_depth mv e)) eqn:Ed; [apply Nat.leb_le in Ed | exact Triv].
    destruct (e_bound mv e) eqn:B.
    - split; [intros w; right; apply HW; [exact w | congruence]|].
      intros l d2. right. apply HL; [exact l | lia | congruence].
    - destruct (Z.max a (e_score mv e) >=? b) eqn:E; zb.
      + split; [intros _; left; lia|]. intros l d2. right. apply HL; [exact l | lia | congruence].
      + split; [intros _; left; reflexivity|]. intros l d2.
        assert (e_score mv e <= -32000) by (apply HL; [exact l | lia | congruence]). lia.
    - destruct (a >=? Z.min b (e_score mv e)) eqn:E; zb.
      + split; [intros w; right; apply HW; [exact w | congruence]|]. intros _ _. left. lia.
      + split; [|intros _ _; left; reflexivity]. intros w.
        assert (32000 <= e_score mv e) by (apply HW; [exact w | congruence]). lia.
  Qed.

  (* ---------------- what the search sees of the short mates ---------------- *)
  Definition SeenR (c : pos) (cply cd : nat) (a b r : Z) : Prop :=
    (M0 c -> r = SCORE_MIN + Z.of_nat cply)
    /\ (W1 c -> (1 <= cd)%nat -> b <= r \/ 32000 <= r)
    /\ (L1q c -> (2 <= cd)%nat -> r <= a \/ r <= -32000).

  Definition cspec2 (rec : State -> pos -> Z -> Z -> State * Z) (c : pos) (cply cd : nat) : Prop :=
    forall s a b, tts s -> ttc s -> run_ s = true -> Proper a b ->
      (sel (fst (rec s c a b)) <= 253)%nat ->
      ttc (fst (rec s c a b)) /\ SeenR c cply cd a b (snd (rec s c a b)).

  Definition SeenC (c : pos) (cply cd : nat) (alpha beta sc : Z) : Prop :=
    (M0 c -> sc = 32768 - Z.of_nat cply)
    /\ (W1 c -> (1 <= cd)%nat -> sc <= alpha \/ sc <= -32000)
    /\ (L1q c -> (2 <= cd)%nat -> beta <= sc \/ 32000 <= sc).

  Lemma cscore_seen rec c cply cd s alpha beta pvs :
    Ocspec rec c -> mnr rec -> cspec2 rec c cply cd -> (1 <= cply <= 254)%nat ->
    tts s -> ttc s -> run_ s = true ->
    -32768 <= alpha -> alpha < beta -> -32767 < beta -> beta <= 32767 ->
    (sel (fst (cscore rec s c alpha beta pvs)) <= 253)%nat ->
    ttc (fst (cscore rec s c alpha beta pvs)) /\ SeenC c cply cd alpha beta (snd (cscore rec s c alpha beta pvs)).
  Proof.
    intros Hold Hmn Hnew Hcp Hs Hc Hr A1 A2 A2' A3. unfold child_score, SeenC.
    rewrite (sneg_in beta) by (unfold inrange; lia).
    pose proof (sneg_cases alpha A1) as Sa. set (na := sneg alpha) in *. clearbody na.
    unfold SCORE_MIN in *.
    destruct pvs.
    - destruct (Hold s (na - 1) na Hs) as [P1 [R1 _]]; [unfold Proper; lia|].
      pose proof (Hmn s c (na - 1) na) as M1.
      pose proof (Hnew s (na - 1) na Hs Hc Hr) as N1.
      destruct (rec s c (na - 1) na) as [s1 r1]. cbn [fst snd] in P1, R1, M1, N1.
      rewrite (sneg_in r1) by (unfold inrange; lia).
      destruct ((alpha <? - r1) && (- r1 <? beta)) eqn:E.
      + destruct (Hold s1 (- beta) na (proj1 P1)) as [P2 [R2 _]]; [unfold Proper; lia|].
        pose proof (Hmn s1 c (- beta) na) as M2.
        pose proof (Hnew s1 (- beta) na (proj1 P1)) as N2.
        destruct (rec s1 c (- beta) na) as [s2 r2]. cbn [fst snd] in P2, R2, M2, N2 |- *.
        rewrite (sneg_in r2) by (unfold inrange; lia).
        intros Hsel.
        destruct N1 as [C1 _]; [unfold Proper; lia | destruct M2; lia |].
        destruct N2 as [C2 [X1 [X2 X3]]]; [exact C1 | destruct M1 as [_ ->]; exact Hr | unfold Proper; lia | exact Hsel |].
        split; [exact C2|]. unfold SCORE_MIN in X1.
        split; [intros m0; rewrite (X1 m0); lia|].
        split; [intros w d1; destruct (X2 w d1); lia | intros l d2; destruct (X3 l d2); lia].
      + cbn [fst snd]. intros Hsel.
        destruct N1 as [C1 [X1 [X2 X3]]]; [unfold Proper; lia | exact Hsel |].
        split; [exact C1|]. unfold SCORE_MIN in X1.
        apply andb_false_iff in E.
        split; [intros m0; rewrite (X1 m0); lia|].
        split; [intros w d1; destruct (X2 w d1); lia|].
        intros l d2. destruct (X3 l d2); [|lia]. destruct E as [E|E]; zb; lia.
    - destruct (Hold s (- beta) na Hs) as [P2 [R2 _]]; [unfold Proper; lia|].
      pose proof (Hnew s (- beta) na Hs Hc Hr) as N2.
      destruct (rec s c (- beta) na) as [s2 r2]. cbn [fst snd] in P2, R2, N2 |- *.
      rewrite (sneg_in r2) by (unfold inrange; lia).
      intros Hsel.
      destruct N2 as [C2 [X1 [X2 X3]]]; [unfold Proper; lia | exact Hsel |].
      split; [exact C2|]. unfold SCORE_MIN in X1.
      split; [intros m0; rewrite (X1 m0); lia|].
      split; [intros w d1; destruct (X2 w d1); lia | intros l d2; destruct (X3 l d2); lia].
  Qed.

  (* ---------------- alpha_beta: the move loop ---------------- *)
  Lemma abt_ok (s : State) ply : run_ s = true -> (ply <= 253)%nat -> abt s ply = (false, tick s).
  Proof.
    intros Hr Hp. rewrite (abt_run mv clock s ply Hr).
    assert (E : Nat.eqb ply 255 = false) by (apply Nat.eqb_neq; lia). rewrite E. reflexivity.
  Qed.

  Lemma ablp_seen rec p a b b0 dm1 ply :
    (forall m, In m (moves p) -> legal p m = true -> Ocspec rec (make p m)) ->
    mnr rec ->
    ((S ply <= 253)%nat -> forall m, In m (moves p) -> legal p m = true -> cspec2 rec (make p m) (S ply) dm1) ->
    (1 <= ply <= 253)%nat -> Proper a b -> b0 <= b ->
    (W1 p -> b0 = b \/ 32000 <= b0) ->
    forall ms s alpha best pvs cnt,
      (forall m, In m ms -> In m (moves p)) -> tts s -> ttc s -> run_ s = true ->
      a <= alpha -> alpha < b0 ->
      (W1 p -> (exists m, In m ms /\ legal p m = true /\ M0 (make p m)) \/ 32000 <= alpha) ->
      (L1q p -> (2 <= S dm1)%nat -> alpha <= a \/ alpha <= -32000) ->
      (cnt = 0%nat -> forall m, In m (lmoves p) -> In m ms) ->
      (cnt <> 0%nat -> lmoves p <> []) ->
      (sel (snd (ablp rec p a b0 (S dm1) ply ms s alpha best pvs cnt)) <= 253)%nat ->
      ttc (snd (ablp rec p a b0 (S dm1) ply ms s alpha best pvs cnt))
      /\ (M0 p -> fst (ablp rec p a b0 (S dm1) ply ms s alpha best pvs cnt) = SCORE_MIN + Z.of_nat ply)
      /\ (W1 p -> b <= fst (ablp rec p a b0 (S dm1) ply ms s alpha best pvs cnt)
                  \/ 32000 <= fst (ablp rec p a b0 (S dm1) ply ms s alpha best pvs cnt))
      /\ (L1q p -> (2 <= S dm1)%nat -> fst (ablp rec p a b0 (S dm1) ply ms s alpha best pvs cnt) <= a
                                      \/ fst (ablp rec p a b0 (S dm1) ply ms s alpha best pvs cnt) <= -32000).
  Proof.
    intros Hold Hmn Hnew Hply [Pa [Pab Pb]] Hb0 HWb.
    induction ms as [|m t IH]; intros s alpha best pvs cnt Hin Hs Hc Hr A1 A2 IW IL H0 Hcn; cbn [abloop].
    - destruct cnt as [|cnt]; cbn [fst snd]; intros _.
      + assert (Hnil : lmoves p = []).
        { destruct (lmoves p) as [|m0 l0] eqn:E; [reflexivity|].
          destruct (H0 eq_refl m0 (or_introl eq_refl)). }
        split; [exact Hc|]. split; [|split].
        * intros [_ [C _]]. rewrite C. reflexivity.
        * intros [_ [m [Hm _]]]. rewrite Hnil in Hm. destruct Hm.
        * intros [[_ [Hne _]] _]. contradiction.
      + pose proof (Hcn ltac:(discriminate)) as Hne.
        assert (WA : W1 p -> 32000 <= alpha).
        { intros w. destruct (IW w) as [[m [[] _]]|X]. exact X. }
        split; [|split; [|split]].
        * apply ttc_tins; cbn [e_score e_bound e_depth]; [exact Hc | exact Hne | intros w _; exact (WA w) |].
          intros l d2. destruct (alpha <=? a) eqn:E; zb; intros Hn; [congruence|].
          destruct (IL l d2); lia.
        * intros [Hn _]. contradiction.
        * intros w. right. exact (WA w).
        * exact IL.
    - assert (Hin' : forall m', In m' t -> In m' (moves p)) by (intros m' H'; apply Hin; right; exact H').
      destruct (legal p m) eqn:L; cbn [negb].
      + cbv zeta.
        assert (Hm : In m (moves p)) by (apply Hin; left; reflexivity).
        assert (Hml : In m (lmoves p)) by (apply in_lm; split; assumption).
        assert (Hne : lmoves p <> []) by (intros E; rewrite E in Hml; destruct Hml).
        assert (NM : ~ M0 p) by (intros [E _]; contradiction).
        set (s0 := enter_node mv s (S ply) true).
        assert (Hs0 : tts s0) by (eapply tts_fr; [exact Hs | apply fr_enter2]).
        assert (Hc0 : ttc s0) by (eapply ttc_fr; [exact Hc | apply fr_enter2]).
        assert (Sel0 : (S ply <= sel s0)%nat) by (unfold s0; cbn [seldepth enter_node]; lia).
        destruct (cscore_sound pos mv moves legal make in_check key rec (make p m) s0 alpha b0 pvs (Hold m Hm L) Hs0)
          as [P1 [R1 _]]; try lia.
        pose proof (cscore_mn rec s0 (make p m) alpha b0 pvs Hmn) as M1.
        pose proof (fun H253 => cscore_seen rec (make p m) (S ply) dm1 s0 alpha b0 pvs (Hold m Hm L) Hmn
                                  (Hnew H253 m Hm L) ltac:(lia) Hs0 Hc0 Hr) as N1.
        destruct (cscore rec s0 (make p m) alpha b0 pvs) as [s1 sc]. cbn [fst snd] in P1, R1, M1, N1.
        assert (Hr1 : run_ s1 = true) by (destruct M1 as [_ ->]; exact Hr).
        rewrite (abt_ok s1 ply Hr1) by lia. cbv beta iota.
        assert (Hs2 : tts (tick s1)) by (eapply tts_fr; [exact (proj1 P1) | apply fr_tick]).
        match goal with |- (sel (snd ?X) <= 253)%nat -> _ => assert (HM : Mn (tick s1) (snd X)) end.
        { destruct (sc >=? b0); [cbn [snd]; eapply Mn_trans; [apply Mn_tins | apply Mn_skill]|].
          destruct (sc >? alpha); apply ablp_mn, Hmn. }
        intros Hsel.
        assert (Sel1 : (sel s1 <= 253)%nat).
        { destruct HM as [X _]. cbn [seldepth tick_read tick_load] in X. lia. }
        assert (H253 : (S ply <= 253)%nat) by (destruct M1; lia).
        destruct (N1 H253) as [C1 [K0 [KW KL]]]; try lia.
        assert (Hc2 : ttc (tick s1)) by (eapply ttc_fr; [exact C1 | apply fr_tick]).
        assert (HWc : L1q p -> W1 (make p m)) by (intros [[_ [_ X]] _]; apply X, Hml).
        revert Hsel.
        destruct (sc >=? b0) eqn:E1; zb.
        * cbn [fst snd]. intros _. split; [|split; [|split]].
          -- eapply ttc_fr; [|apply skill_fr].
             apply ttc_tins; cbn [e_score e_bound e_depth]; [exact Hc2 | exact Hne | intros _ X; congruence |].
             intros l d2 _. destruct (KW (HWc l) ltac:(lia)); lia.
          -- intros X. contradiction.
          -- intros w. destruct (HWb w); [left | right]; lia.
          -- intros l d2. right. destruct (KW (HWc l) ltac:(lia)); lia.
        * destruct (sc >? alpha) eqn:E2; zb.
          -- apply IH; try assumption; try lia.
             ++ intros w. destruct (IW w) as [[m' [[<-|Hi] [Hl Hm0]]]|X].
                ** right. rewrite (K0 Hm0). lia.
                ** left. exists m'. split; [exact Hi | split; assumption].
                ** right. lia.
             ++ intros l d2. right. destruct (KW (HWc l) ltac:(lia)); lia.
             ++ intros _. exact Hne.
          -- apply IH; try assumption; try lia.
             ++ intros w. destruct (IW w) as [[m' [[<-|Hi] [Hl Hm0]]]|X].
                ** right. rewrite (K0 Hm0) in E2. lia.
                ** left. exists m'. split; [exact Hi | split; assumption].
                ** right. exact X.
             ++ intros _. exact Hne.
      + apply IH; try assumption.
        * intros w. destruct (IW w) as [[m' [[<-|Hi] [Hl Hm0]]]|X]; [congruence | | right; exact X].
          left. exists m'. split; [exact Hi | split; assumption].
        * intros X m' Hm'. destruct (H0 X m' Hm') as [<-|Hi];
            [apply in_lm in Hm'; destruct Hm'; congruence | exact Hi].
  Qed.

  (* ---------------- alpha_beta ---------------- *)
  Local Notation ab_snd := (ab_sound pos mv moves legal make in_check evalf is_cap is_promo cap_score mv_eqb key halfmove repeated
                              default_mv Inv Inv_make Inv_eval key_sem no_limits clock nostop).

  Lemma abrec_old f dm1 ply c : Inv c -> (1 <= S ply <= 255)%nat -> (2 <= S ply)%nat \/ ~ (lmoves c = [] /\ in_check c = true) ->
    Ocspec (ab_rec f dm1 ply) c.
  Proof.
    intros Hc Hp Hn s a b Hs HP. unfold abrec.
    pose proof (ab_snd f s c a b dm1 (S ply) Hc Hs HP Hp) as H.
    destruct (ab f s c a b dm1 (S ply)) as [r s']. cbn [fst snd] in H |- *.
    destruct H as [X [[Y1 Y2] Z]]. split; [exact X|]. split; [|exact Z].
    assert (r <> -32767).
    { intros E. destruct (Y2 E) as [E1 [N1 N2]]. destruct Hn as [Hn|Hn]; [lia | apply Hn; split; assumption]. }
    lia.
  Qed.

  Lemma ab_seen : forall f s p a b d ply, Inv p -> tts s -> ttc s -> run_ s = true -> Proper a b ->
    (1 <= ply <= 253)%nat -> (255 < f + ply)%nat ->
    (sel (snd (ab f s p a b d ply)) <= 253)%nat ->
    ttc (snd (ab f s p a b d ply)) /\ SeenR p ply d a b (fst (ab f s p a b d ply)).
  Proof.
    induction f as [|f IH]; intros s p a b d ply HI Hs Hc Hr HP Hply Hf; [lia|].
    rewrite gab_S, (abt_ok s ply Hr) by lia. cbv beta iota.
    assert (Hs1 : tts (tick s)) by (eapply tts_fr; [exact Hs | apply fr_tick]).
    assert (Hc1 : ttc (tick s)) by (eapply ttc_fr; [exact Hc | apply fr_tick]).
    assert (Hr1 : run_ (tick s) = true) by exact Hr.
    assert (Dr : drawnp p = false -> N.leb 100 (halfmove p) = false /\ repeated p = false) by apply drawn_false.
    assert (Z0 : (N.leb 100 (halfmove p) = true \/ repeated p = true) ->
                 ttc (snd (0, tick s)) /\ SeenR p ply d a b (fst (0, tick s))).
    { intros Hd. cbn [fst snd]. split; [exact Hc1|].
      assert (ND : drawnp p = false -> False) by (intros X; destruct (Dr X); destruct Hd; congruence).
      split; [intros [_ [_ X]]; destruct (ND X)|].
      split; [intros [X _]; destruct (ND X) | intros [[X _] _]; destruct (ND X)]. }
    destruct (N.leb 100 (halfmove p)) eqn:Eh; [intros _; apply Z0; left; reflexivity|].
    destruct (repeated p) eqn:Er; [intros _; apply Z0; right; reflexivity|].
    clear Z0. cbv beta iota zeta.
    pose proof (probe_sound pos mv moves legal make in_check key (tick s) p d a b Hs1 HP) as PO.
    pose proof (probe_seen (tick s) p d a b Hc1 HP) as PN.
    pose proof (fun Hn => probe_M0 (tick s) p d a b Hc1 Hn) as PM.
    destruct HP as [Pa [Pab Pb]].
    destruct (probe pos mv key (tick s) p d a b) as [[[v|] a0] b0].
    - cbn [fst snd]. intros _. split; [exact Hc1|]. destruct PN as [NW NL].
      split; [intros [Hn _]; discriminate (PM Hn)|]. split; [intros w _; exact (NW w) | exact NL].
    - destruct PO as [G1 [G2 [G3 [HA HB]]]]. destruct PN as [NW NL].
      destruct (if in_check p then S d else d) as [|dm1] eqn:Ed.
      + destruct (qs_sound pos mv moves legal make evalf is_cap is_promo cap_score mv_eqb key Inv Inv_make Inv_eval
                           no_limits clock nostop f (tick s) p a0 b0 ply HI) as [F3 _]; [unfold Proper; lia|].
        intros _. split; [eapply ttc_fr; eassumption|].
        split; [intros [_ [C _]]; rewrite C in Ed; discriminate|].
        split; [intros _ d1; destruct (in_check p); [discriminate | lia]|].
        intros _ d2. destruct (in_check p); [discriminate | lia].
      + intros Hsel.
        assert (HPab : Proper a b) by (unfold Proper; lia).
        destruct (ablp_seen (ab_rec f dm1 ply) p a b b0 dm1 ply) with
            (ms := order (tick s) p ply (moves p)) (s := tick s) (alpha := a0)
            (best := match moves p with m :: _ => m | [] => default_mv end) (pvs := false) (cnt := 0%nat)
          as [C3 [X1 [X2 X3]]]; try assumption; try lia.
        * intros m Hm L. apply abrec_old; [apply Inv_make; assumption | lia | left; lia].
        * apply abrec_mn.
        * intros H253 m Hm L s' a' b' Hs' Hc' Hr' HP' Hsel'. unfold abrec in *.
          pose proof (IH s' (make p m) a' b' dm1 (S ply) (Inv_make p m HI Hm L) Hs' Hc' Hr' HP' ltac:(lia) ltac:(lia)) as H.
          destruct (ab f s' (make p m) a' b' dm1 (S ply)) as [r s'']. cbn [fst snd] in H, Hsel' |- *.
          exact (H Hsel').
        * intros m. apply order_incl.
        * intros [_ [m [Hm Hm0]]]. left. exists m. apply in_lm in Hm. destruct Hm as [Hm L].
          split; [|split; assumption].
          eapply Permutation_in; [apply Permutation_sym, order_perm | exact Hm].
        * intros l d2. destruct l as [l Hq]. rewrite Hq in Ed. subst d.
          destruct (NL (conj l Hq) d2); [left | right]; lia.
        * intros _ m Hm. apply in_lm in Hm.
          eapply Permutation_in; [apply Permutation_sym, order_perm | apply Hm].
        * split; [exact C3|]. split; [exact X1|]. split; [intros w _; exact (X2 w)|].
          intros l d2. destruct l as [l Hq]. rewrite Hq in Ed. subst d. exact (X3 (conj l Hq) d2).
  Qed.

  (* ---------------- the root ---------------- *)
  Local Notation bavoid := (best_avoid pos mv moves legal make in_check halfmove repeated).

  Lemma ttc_set_best (s : State) m v : ttc s -> ttc (set_best mv s m v).
  Proof. intros H p e F. exact (H p e F). Qed.
  Lemma bavoid_eq root (s s' : State) : best_move mv s' = best_move mv s -> best_score mv s' = best_score mv s ->
    bavoid root s -> bavoid root s'.
  Proof. intros A B H sc. rewrite A, B. apply H. Qed.

  Definition RootSeen (root : pos) (s' : State) : Prop :=
    exists m sc, best_move mv s' = Some m /\ best_score mv s' = Some sc /\ 32000 <= sc /\ In m (lmoves root).

  Lemma rootlp_seen rec root d :
    (forall m, In m (moves root) -> legal root m = true -> Ocspec rec (make root m)) ->
    mnr rec ->
    (forall m, In m (moves root) -> legal root m = true -> cspec2 rec (make root m) 1 (pred d)) ->
    nomate1 root ->
    forall ms s alpha best pvs cnt,
      (forall m, In m ms -> In m (moves root)) -> tts s -> ttc s -> run_ s = true ->
      ((cnt = 0%nat /\ alpha = -32768) \/ (cnt <> 0%nat /\ -32766 <= alpha <= 32766 /\ In best (lmoves root))) ->
      (L1q root -> (2 <= d)%nat -> cnt <> 0%nat -> alpha <= -32000) ->
      (cnt = 0%nat -> forall m, In m (lmoves root) -> In m ms) ->
      ((2 <= d)%nat -> cnt <> 0%nat -> -32000 < alpha -> ~ W1 (make root best)) ->
      (sel (rootlp rec root d ms s alpha best pvs cnt) <= 253)%nat ->
      ttc (rootlp rec root d ms s alpha best pvs cnt)
      /\ ((3 <= d)%nat ->
          (exists m, In m ms /\ legal root m = true /\ L1q (make root m)) \/ (32000 <= alpha /\ cnt <> 0%nat) ->
          RootSeen root (rootlp rec root d ms s alpha best pvs cnt))
      /\ ((lmoves root = [] -> bavoid root s) -> (2 <= d)%nat \/ lmoves root = [] ->
          bavoid root (rootlp rec root d ms s alpha best pvs cnt)).
  Proof.
    intros Hold Hmn Hnew Hnm.
    induction ms as [|m t IH]; intros s alpha best pvs cnt Hin Hs Hc Hr HI IL H0 IA; cbn [rootloop].
    - destruct cnt as [|cnt].
      + intros _. split; [exact Hc|]. split; [intros _ [[m [[] _]]|[_ X]]; contradiction|].
        intros HB _. apply HB. destruct (lmoves root) as [|m0 l0] eqn:E; [reflexivity|].
        destruct (H0 eq_refl m0 (or_introl eq_refl)).
      + destruct HI as [[X _]|[_ [Ra Hbest]]]; [discriminate|].
        rewrite (abt_ok s 0 Hr) by lia. cbv beta iota. intros _. split; [|split].
        * apply ttc_set_best. apply ttc_tins; cbn [e_score e_bound e_depth].
          -- eapply ttc_fr; [exact Hc | apply fr_tick].
          -- intros E. rewrite E in Hbest. destruct Hbest.
          -- intros [_ [m [Hm [M1 [M2 _]]]]] _. exfalso. apply (Hnm m Hm). split; assumption.
          -- intros l d2 _. apply IL; [exact l | exact d2 | discriminate].
        * intros _ [[m [[] _]]|[X _]]. exists best, alpha. cbn [best_move best_score set_best].
          repeat split; assumption.
        * intros _ [d2|E]; [|rewrite E in Hbest; destruct Hbest].
          intros sc Esc Hgt. cbn [best_move best_score set_best] in Esc |- *. inversion Esc; subst sc.
          exists best. split; [reflexivity|]. apply IA; [exact d2 | discriminate | exact Hgt].
    - assert (Hin' : forall m', In m' t -> In m' (moves root)) by (intros m' H'; apply Hin; right; exact H').
      destruct (legal root m) eqn:L; cbn [negb].
      + cbv zeta.
        assert (Hm : In m (moves root)) by (apply Hin; left; reflexivity).
        assert (Hml : In m (lmoves root)) by (apply in_lm; split; assumption).
        assert (Hne : lmoves root <> []) by (intros E; rewrite E in Hml; destruct Hml).
        assert (Ra : -32768 <= alpha <= 32766) by (destruct HI as [[_ ->]|[_ [X _]]]; lia).
        set (s0 := enter_node mv s 1 false).
        assert (Hs0 : tts s0) by (eapply tts_fr; [exact Hs | apply fr_enter2]).
        assert (Hc0 : ttc s0) by (eapply ttc_fr; [exact Hc | apply fr_enter2]).
        destruct (cscore_sound pos mv moves legal make in_check key rec (make root m) s0 alpha SCORE_MAX pvs (Hold m Hm L) Hs0)
          as [P1 [R1 _]]; try (unfold SCORE_MAX; lia).
        pose proof (cscore_mn rec s0 (make root m) alpha SCORE_MAX pvs Hmn) as M1.
        pose proof (cscore_seen rec (make root m) 1 (pred d) s0 alpha SCORE_MAX pvs (Hold m Hm L) Hmn
                                (Hnew m Hm L) ltac:(lia) Hs0 Hc0 Hr) as N1.
        destruct (cscore rec s0 (make root m) alpha SCORE_MAX pvs) as [s1 sc]. cbn [fst snd] in P1, R1, M1, N1.
        unfold SCORE_MAX in N1.
        assert (Hr1 : run_ s1 = true) by (destruct M1 as [_ ->]; exact Hr).
        rewrite (abt_ok s1 0 Hr1) by lia. cbv beta iota.
        assert (Hs2 : tts (tick s1)) by (eapply tts_fr; [exact (proj1 P1) | apply fr_tick]).
        assert (HB2 : forall s' : State, lmoves root = [] -> bavoid root s') by (intros s' E; contradiction).
        match goal with |- (sel ?X <= 253)%nat -> _ => assert (HM : Mn (tick s1) X) end.
        { destruct (sc >? alpha); apply rootlp_mn, Hmn. }
        intros Hsel.
        assert (Sel1 : (sel s1 <= 253)%nat).
        { destruct HM as [X _]. cbn [seldepth tick_read tick_load] in X. lia. }
        destruct N1 as [C1 [_ [KW KL]]]; try lia.
        assert (Hc2 : ttc (tick s1)) by (eapply ttc_fr; [exact C1 | apply fr_tick]).
        assert (HWc : L1q root -> W1 (make root m)) by (intros [[_ [_ X]] _]; apply X, Hml).
        revert Hsel.
        destruct (sc >? alpha) eqn:E2; zb.
        * intros Hsel.
          destruct (IH (tick s1) sc m true (S cnt)) as [T1 [T2 T3]]; try assumption.
          -- right. split; [discriminate|]. split; [lia | exact Hml].
          -- intros l d2 _. destruct (KW (HWc l) ltac:(lia)); lia.
          -- intros X. discriminate X.
          -- intros d2 _ Hgt w. destruct (KW w ltac:(lia)); lia.
          -- split; [exact T1|]. split; [|intros _; apply T3, HB2]. intros d3 Fl. apply T2; [exact d3|].
             destruct Fl as [[m' [[<-|Hi] [Hl Hq]]]|[X _]].
             ++ right. split; [|discriminate]. destruct (KL Hq ltac:(lia)); lia.
             ++ left. exists m'. split; [exact Hi | split; assumption].
             ++ right. split; [lia | discriminate].
        * assert (Hcn : cnt <> 0%nat) by (destruct HI as [[_ ->]|[X _]]; [lia | exact X]).
          intros Hsel.
          destruct (IH (tick s1) alpha best pvs (S cnt)) as [T1 [T2 T3]]; try assumption.
          -- right. destruct HI as [[X _]|[_ X]]; [contradiction|]. split; [discriminate | exact X].
          -- intros l d2 _. apply IL; assumption.
          -- intros X. discriminate X.
          -- intros d2 _ Hgt. apply IA; assumption.
          -- split; [exact T1|]. split; [|intros _; apply T3, HB2]. intros d3 Fl. apply T2; [exact d3|].
             destruct Fl as [[m' [[<-|Hi] [Hl Hq]]]|[X _]].
             ++ right. split; [|discriminate]. destruct (KL Hq ltac:(lia)); lia.
             ++ left. exists m'. split; [exact Hi | split; assumption].
             ++ right. split; [lia | discriminate].
      + intros Hsel. destruct (IH s alpha best pvs cnt) as [T1 [T2 T3]]; try assumption.
        * intros X m' Hm'. destruct (H0 X m' Hm') as [<-|Hi];
            [apply in_lm in Hm'; destruct Hm'; congruence | exact Hi].
        * split; [exact T1|]. split; [|exact T3]. intros d3 Fl. apply T2; [exact d3|].
          destruct Fl as [[m' [[<-|Hi] [Hl Hq]]]|X]; [congruence | | right; exact X].
          left. exists m'. split; [exact Hi | split; assumption].
  Qed.

  Lemma start_seen s root d : Inv root -> nomate1 root -> run_ s = true -> tts s -> ttc s ->
    (sel (start s root d) <= 253)%nat ->
    ttc (start s root d) /\ (W2q root -> (3 <= d)%nat -> RootSeen root (start s root d))
    /\ ((lmoves root = [] -> bavoid root s) -> (2 <= d)%nat \/ lmoves root = [] -> bavoid root (start s root d)).
  Proof.
    intros HI Hnm Hr Hs Hc. rewrite gstart_eq.
    destruct (moves root) as [|m0 t0] eqn:Em.
    - assert (En : lmoves root = []) by (unfold Mate.lmoves; rewrite Em; reflexivity).
      intros _. split; [exact Hc|]. split; [|intros HB _; exact (HB En)].
      intros [m [Hm _]] _. rewrite En in Hm. destruct Hm.
    - rewrite <- Em. intros Hsel.
      destruct (rootlp_seen (ab_rec FUEL (pred d) 0) root d) with
          (ms := order s root 0%nat (moves root)) (s := s) (alpha := SCORE_MIN) (best := m0) (pvs := false) (cnt := 0%nat)
        as [T1 [T2 T3]]; try assumption.
      + intros m Hm L. apply abrec_old; [apply Inv_make; assumption | lia |].
        right. apply Hnm. apply in_lm. split; assumption.
      + apply abrec_mn.
      + intros m Hm L s' a' b' Hs' Hc' Hr' HP' Hsel'. unfold abrec in *.
        pose proof (ab_seen FUEL s' (make root m) a' b' (pred d) 1 (Inv_make root m HI Hm L) Hs' Hc' Hr' HP'
                            ltac:(lia) ltac:(unfold FUEL; lia)) as H.
        destruct (ab FUEL s' (make root m) a' b' (pred d) 1) as [r s'']. cbn [fst snd] in H, Hsel' |- *.
        exact (H Hsel').
      + intros m. apply order_incl.
      + left. split; reflexivity.
      + intros _ _ X. contradiction.
      + intros _ m Hm. apply in_lm in Hm.
        eapply Permutation_in; [apply Permutation_sym, order_perm | apply Hm].
      + intros _ X. contradiction.
      + split; [exact T1|]. split; [|exact T3]. intros [m [Hm Hq]] d3. apply T2; [exact d3|].
        left. exists m. apply in_lm in Hm. destruct Hm as [Hm L]. split; [|split; assumption].
        eapply Permutation_in; [apply Permutation_sym, order_perm | exact Hm].
  Qed.

  (* ---------------- the theorems ---------------- *)
  Local Notation start_snd := (start_sound pos mv moves legal make in_check evalf is_cap is_promo cap_score mv_eqb key halfmove
                                 repeated default_mv Inv Inv_make Inv_eval key_sem no_limits clock nostop).

  Lemma sel_lt (s : State) : (sel s < 254)%nat -> (sel s <= 253)%nat.
  Proof. lia. Qed.
  Lemma bavoid_fresh root (s : State) : best_score mv s = None -> bavoid root s.
  Proof. intros H sc E. rewrite H in E. discriminate. Qed.
  Lemma bavoid_literal root (s : State) : bavoid root s ->
    forall m sc, best_move mv s = Some m -> best_score mv s = Some sc -> -32000 < sc -> ~ W1 (make root m).
  Proof. intros H m sc E1 E2 G. destruct (H sc E2 G) as [m' [E1' N]]. rewrite E1 in E1'. inversion E1'; subst m'. exact N. Qed.

  Theorem mate_seen_preserved : forall (s : State) (root : pos) (d : nat),
    Inv root -> nomate1 root -> run_ s = true ->
    tts s -> bsound root s -> ttc s ->
    (sel (start s root d) < 254)%nat ->
    tts (start s root d) /\ bsound root (start s root d) /\ ttc (start s root d) /\ run_ (start s root d) = true.
  Proof.
    intros s root d HI Hnm Hr Hs Hb Hc Hsel.
    destruct (start_snd s root d HI Hnm Hs Hb) as [S1 B1].
    destruct (start_seen s root d HI Hnm Hr Hs Hc (sel_lt _ Hsel)) as [C1 _].
    split; [exact S1|]. split; [exact B1|]. split; [exact C1|].
    destruct (start_mn s root d) as [_ ->]. exact Hr.
  Qed.

  Theorem quiet_mate_in_two_seen : forall (s : State) (root : pos) (d : nat),
    Inv root -> nomate1 root -> W2q root -> (3 <= d)%nat -> run_ s = true ->
    tts s -> bsound root s -> ttc s ->
    (sel (start s root d) < 254)%nat ->
    exists m sc, best_move mv (start s root d) = Some m /\ best_score mv (start s root d) = Some sc
                 /\ 32000 <= sc /\ In m (lmoves root) /\ Lost (make root m).
  Proof.
    intros s root d HI Hnm HW Hd Hr Hs Hb Hc Hsel.
    destruct (start_snd s root d HI Hnm Hs Hb) as [_ B1].
    destruct (start_seen s root d HI Hnm Hr Hs Hc (sel_lt _ Hsel)) as [_ [T _]].
    destruct (T HW Hd) as [m [sc [E1 [E2 [G Hm]]]]].
    exists m, sc. repeat split; try assumption.
    destruct (proj1 (B1 sc E2) G) as [m' [E1' HL]]. rewrite E1 in E1'. inversion E1'; subst m'. exact HL.
  Qed.

  (* clause 3, cache on: unless the score says "lost", the chosen move does not allow a mate in one *)
  Theorem avoids_mate_in_one_cache_on : forall (s : State) (root : pos) (d : nat),
    Inv root -> nomate1 root -> (2 <= d)%nat -> run_ s = true ->
    tts s -> ttc s -> (lmoves root = [] -> bavoid root s) ->
    (sel (start s root d) < 254)%nat ->
    bavoid root (start s root d)
    /\ (forall m sc, best_move mv (start s root d) = Some m -> best_score mv (start s root d) = Some sc ->
                     -32000 < sc -> ~ W1 (make root m)).
  Proof.
    intros s root d HI Hnm Hd Hr Hs Hc HB Hsel.
    destruct (start_seen s root d HI Hnm Hr Hs Hc (sel_lt _ Hsel)) as [_ [_ T]].
    pose proof (T HB (or_introl Hd)) as A. split; [exact A | apply bavoid_literal, A].
  Qed.

  Lemma iter_seen root : Inv root -> nomate1 root ->
    forall n d s out, run_ s = true -> tts s -> bsound root s -> ttc s -> (lmoves root = [] -> bavoid root s) ->
      (sel (fst (iter n d s root out)) <= 253)%nat ->
      tts (fst (iter n d s root out)) /\ bsound root (fst (iter n d s root out)) /\ ttc (fst (iter n d s root out))
      /\ run_ (fst (iter n d s root out)) = true
      /\ (W2q root -> n <> 0%nat -> (3 <= d + n - 1)%nat ->
          exists sc, best_score mv (fst (iter n d s root out)) = Some sc /\ 32000 <= sc)
      /\ (lmoves root = [] -> bavoid root (fst (iter n d s root out)))
      /\ (n <> 0%nat -> (2 <= d + n - 1)%nat -> bavoid root (fst (iter n d s root out))).
  Proof.
    intros HI Hnm. induction n as [|n IH]; intros d s out Hr Hs Hb Hc HB; cbn [iter_loop].
    - intros _. cbn [fst]. split; [exact Hs|]. split; [exact Hb|]. split; [exact Hc|]. split; [exact Hr|].
      split; [intros _ X; contradiction|]. split; [exact HB | intros X; contradiction].
    - pose proof (start_mn s root d) as M1.
      assert (Hr1 : run_ (start s root d) = true) by (destruct M1 as [_ ->]; exact Hr).
      rewrite (abt_ok _ 0 Hr1) by lia. cbv beta iota.
      pose proof (iter_mn root n (S d) (tick (start s root d))
                          (info_line mv (tick (start s root d)) d (get_pv pos mv legal make key (tick (start s root d)) root d) :: out)) as M2.
      intros Hsel.
      assert (Sel1 : (sel (start s root d) < 254)%nat).
      { destruct M2 as [X _]. cbn [seldepth tick_read tick_load] in X. lia. }
      destruct (mate_seen_preserved s root d HI Hnm Hr Hs Hb Hc Sel1) as [S1 [B1 [C1 _]]].
      destruct (start_seen s root d HI Hnm Hr Hs Hc (sel_lt _ Sel1)) as [_ [_ TA]].
      assert (S2 : tts (tick (start s root d))) by (eapply tts_fr; [exact S1 | apply fr_tick]).
      assert (C2 : ttc (tick (start s root d))) by (eapply ttc_fr; [exact C1 | apply fr_tick]).
      assert (B2 : bsound root (tick (start s root d))) by exact B1.
      assert (HB2 : lmoves root = [] -> bavoid root (tick (start s root d))).
      { intros E. exact (TA HB (or_intror E)). }
      destruct (IH (S d) (tick (start s root d)) _ Hr1 S2 B2 C2 HB2 Hsel) as [S3 [B3 [C3 [R3 [G3 [K3 A3]]]]]].
      split; [exact S3|]. split; [exact B3|]. split; [exact C3|]. split; [exact R3|].
      split; [|split; [exact K3|]].
      + intros HW _ Hd. destruct n as [|n'].
        * cbn [iter_loop fst].
          destruct (quiet_mate_in_two_seen s root d HI Hnm HW ltac:(lia) Hr Hs Hb Hc Sel1) as [m [sc [_ [E2 [G _]]]]].
          exists sc. split; [exact E2 | exact G].
        * apply G3; [exact HW | discriminate | lia].
      + intros _ Hd. destruct n as [|n'].
        * cbn [iter_loop fst]. apply (TA HB). left. lia.
        * apply A3; [discriminate | lia].
  Qed.

  Theorem quiet_mate_in_two_seen_search : forall (s0 : State) (root : pos) (D : nat),
    Inv root -> nomate1 root -> W2q root -> (3 <= D <= 255)%nat -> run_ s0 = true ->
    tts s0 -> ttc s0 -> best_move mv s0 = None -> best_score mv s0 = None ->
    let r := srch s0 root (Some D) in
    (sel (fst r) < 254)%nat ->
    tts (fst r) /\ ttc (fst r)
    /\ exists sc, best_score mv (fst r) = Some sc /\ 32000 <= sc
                  /\ Lost (make root (announced pos mv moves legal default_mv (fst r) root)).
  Proof.
    intros s0 root D HI Hnm HW HD Hr Hs Hc Hbm Hbs. unfold search.
    assert (Hb0 : bsound root s0) by (intros sc E; rewrite Hbs in E; discriminate).
    pose proof (iter_seen root HI Hnm D 1%nat s0 [] Hr Hs Hb0 Hc (fun _ => bavoid_fresh root s0 Hbs)) as H.
    destruct (iter D 1%nat s0 root []) as [s out]. cbn [fst snd] in H |- *. cbv zeta.
    intros Hsel. cbn [seldepth set_running] in Hsel.
    destruct (H (sel_lt _ Hsel)) as [S1 [B1 [C1 [_ [G _]]]]].
    split; [intros q e F; exact (S1 q e F)|]. split; [intros q e F; exact (C1 q e F)|].
    destruct (G HW ltac:(lia) ltac:(lia)) as [sc [E2 Gs]].
    exists sc. cbn [best_score set_running]. split; [exact E2|]. split; [exact Gs|].
    destruct (proj1 (B1 sc E2) Gs) as [m [E1 HL]].
    unfold announced. cbn [best_move set_running]. rewrite E1. exact HL.
  Qed.

  Theorem avoids_mate_in_one_cache_on_search : forall (s0 : State) (root : pos) (D : nat),
    Inv root -> nomate1 root -> (2 <= D <= 255)%nat -> run_ s0 = true ->
    tts s0 -> ttc s0 -> best_move mv s0 = None -> best_score mv s0 = None ->
    let r := srch s0 root (Some D) in
    (sel (fst r) < 254)%nat ->
    forall sc, best_score mv (fst r) = Some sc -> -32000 < sc ->
      ~ W1 (make root (announced pos mv moves legal default_mv (fst r) root)).
  Proof.
    intros s0 root D HI Hnm HD Hr Hs Hc Hbm Hbs. unfold search.
    assert (Hb0 : bsound root s0) by (intros sc E; rewrite Hbs in E; discriminate).
    pose proof (iter_seen root HI Hnm D 1%nat s0 [] Hr Hs Hb0 Hc (fun _ => bavoid_fresh root s0 Hbs)) as H.
    destruct (iter D 1%nat s0 root []) as [s out]. cbn [fst snd] in H |- *. cbv zeta.
    intros Hsel sc E2 Gs. cbn [seldepth set_running] in Hsel. cbn [best_score set_running] in E2.
    destruct (H (sel_lt _ Hsel)) as [_ [_ [_ [_ [_ [_ A]]]]]].
    destruct (A ltac:(lia) ltac:(lia) sc E2 Gs) as [m [E1 N]].
    unfold announced. cbn [best_move set_running]. rewrite E1. exact N.
  Qed.
End Seen.
