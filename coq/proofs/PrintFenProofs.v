(* PrintFenProofs.v — C07, completeness side: the independent FEN reader of SpecFen.v reads back
   exactly what PrintFen.print writes, for every describable position; hence (FenProofs) the
   engine loads every describable position; and everything the reader accepts is describable. *)
From Coq Require Import Arith NArith List Lia Bool Ascii String.
Import ListNotations.
From RCE Require Import lib.Bits model.Board model.Movegen model.Wf model.Ops model.Fen model.Abs
  spec.Rules spec.SpecFen spec.PrintFen proofs.FenProofs.
Local Open Scope nat_scope.
Local Open Scope list_scope.
Local Open Scope string_scope.

(* ------------------------------------------------------------------ *)
(* strings: append, occurrence of a character, splitting *)

Lemma sapp_assoc (a b c : string) : ((a ++ b) ++ c = a ++ (b ++ c))%string.
Proof. induction a as [|x a IH]; cbn [append]; [reflexivity | now rewrite IH]. Qed.

Lemma sapp_nil_r (a : string) : (a ++ "" = a)%string.
Proof. induction a as [|x a IH]; cbn [append]; [reflexivity | now rewrite IH]. Qed.

Fixpoint has_char (c : ascii) (s : string) : bool :=
  match s with
  | EmptyString => false
  | String a t => Ascii.eqb a c || has_char c t
  end.

Lemma has_char_app c (a b : string) : has_char c (a ++ b)%string = has_char c a || has_char c b.
Proof.
  induction a as [|x a IH]; cbn [append has_char]; [reflexivity|].
  rewrite IH. now rewrite orb_assoc.
Qed.

Lemma split_on_nosep sep (a : string) : forall cur,
  has_char sep a = false -> split_on sep a cur = [(cur ++ a)%string].
Proof.
  induction a as [|x a IH]; intros cur H; cbn [split_on].
  - now rewrite sapp_nil_r.
  - cbn [has_char] in H. apply orb_false_iff in H. destruct H as [Hx Ha].
    rewrite Hx. rewrite (IH _ Ha). rewrite sapp_assoc. reflexivity.
Qed.

Lemma split_on_app sep (a b : string) : forall cur,
  has_char sep a = false ->
  split_on sep (a ++ String sep b)%string cur = (cur ++ a)%string :: split_on sep b "".
Proof.
  induction a as [|x a IH]; intros cur H; cbn [split_on append].
  - rewrite Ascii.eqb_refl. now rewrite sapp_nil_r.
  - cbn [has_char] in H. apply orb_false_iff in H. destruct H as [Hx Ha].
    rewrite Hx. rewrite (IH _ Ha). rewrite sapp_assoc. reflexivity.
Qed.

Lemma seqb_empty_false (s : string) : s <> ""%string -> String.eqb s "" = false.
Proof. intros H. destruct s; [congruence | reflexivity]. Qed.

Lemma fields_of_six (a b c d e f : string) :
  has_char " " a = false -> has_char " " b = false -> has_char " " c = false ->
  has_char " " d = false -> has_char " " e = false -> has_char " " f = false ->
  a <> ""%string -> b <> ""%string -> c <> ""%string -> d <> ""%string -> e <> ""%string -> f <> ""%string ->
  fields_of (a ++ " " ++ b ++ " " ++ c ++ " " ++ d ++ " " ++ e ++ " " ++ f)%string = [a; b; c; d; e; f].
Proof.
  intros Ha Hb Hc Hd He Hf Na Nb Nc Nd Ne Nf.
  unfold fields_of.
  change (" " ++ ?x)%string with (String " " x).
  cbn [append].
  rewrite (split_on_app _ a _ "" Ha), (split_on_app _ b _ "" Hb), (split_on_app _ c _ "" Hc),
    (split_on_app _ d _ "" Hd), (split_on_app _ e _ "" He), (split_on_nosep _ f "" Hf).
  cbn [append filter].
  rewrite !seqb_empty_false by assumption. reflexivity.
Qed.

(* ------------------------------------------------------------------ *)
(* one rank *)

Lemma piece_char_inv k : piece_of_char (char_of_piece k) = Some k.
Proof. destruct k as [[] []]; reflexivity. Qed.

Lemma rank_cells_piece k t :
  rank_cells (String (char_of_piece k) t) =
  match rank_cells t with Some rest => Some (Some k :: rest) | None => None end.
Proof. cbn [rank_cells]. rewrite piece_char_inv. reflexivity. Qed.

Lemma rank_cells_digit run t : 1 <= run <= 8 ->
  rank_cells (String (ascii_of_nat (48 + run)) t) =
  match rank_cells t with Some rest => Some (repeat None run ++ rest)%list | None => None end.
Proof.
  intros H.
  do 9 (destruct run as [|run]; [try lia; cbn [rank_cells]; destruct (rank_cells t); reflexivity|]).
  lia.
Qed.

Lemma repeat_shift {A} (x : A) n l : (repeat x (S n) ++ l = repeat x n ++ x :: l)%list.
Proof. induction n as [|n IH]; [reflexivity|]. cbn [repeat app] in *. now rewrite IH. Qed.

Lemma rank_cells_run_digit run t : run <= 8 ->
  rank_cells (run_digit run ++ t)%string =
  match rank_cells t with Some rest => Some (repeat None run ++ rest)%list | None => None end.
Proof.
  intros H. destruct run as [|r].
  - cbn [run_digit append repeat app]. destruct (rank_cells t); reflexivity.
  - unfold run_digit. cbn [append]. apply rank_cells_digit. lia.
Qed.

Lemma rank_roundtrip cs : forall run, run + List.length cs <= 8 ->
  rank_cells (rank_string cs run) = Some (repeat None run ++ cs)%list.
Proof.
  induction cs as [|[k|] t IH]; intros run H; cbn [rank_string List.length] in *.
  - rewrite <- (sapp_nil_r (run_digit run)). rewrite rank_cells_run_digit by lia. reflexivity.
  - rewrite rank_cells_run_digit by lia. rewrite rank_cells_piece.
    rewrite (IH 0) by lia. reflexivity.
  - rewrite (IH (S run)) by lia. now rewrite repeat_shift.
Qed.

Lemma rank8_roundtrip cs : List.length cs = 8 -> rank8 (rank_string cs 0) = Some cs.
Proof.
  intros H. unfold rank8. rewrite rank_roundtrip by lia. cbn [repeat app]. rewrite H. reflexivity.
Qed.

Lemma has_char_run_digit run : run <= 8 ->
  has_char "/" (run_digit run) = false /\ has_char " " (run_digit run) = false.
Proof.
  intros H. do 9 (destruct run as [|run]; [split; reflexivity|]). lia.
Qed.

Lemma has_char_piece k : Ascii.eqb (char_of_piece k) "/" = false /\ Ascii.eqb (char_of_piece k) " " = false.
Proof. destruct k as [[] []]; split; reflexivity. Qed.

Lemma rank_string_nosep cs : forall run, run + List.length cs <= 8 ->
  has_char "/" (rank_string cs run) = false /\ has_char " " (rank_string cs run) = false.
Proof.
  induction cs as [|[k|] t IH]; intros run H; cbn [rank_string List.length] in *.
  - apply has_char_run_digit. lia.
  - rewrite !has_char_app. cbn [has_char].
    destruct (has_char_run_digit run) as [-> ->]; [lia|].
    destruct (has_char_piece k) as [-> ->].
    destruct (IH 0) as [-> ->]; [lia|]. split; reflexivity.
  - apply IH. lia.
Qed.

(* ------------------------------------------------------------------ *)
(* the placement field *)

Lemma length64_inv {A} (c : list A) : List.length c = 64 ->
  exists l0 l1 l2 l3 l4 l5 l6 l7 : list A,
    c = (l0 ++ l1 ++ l2 ++ l3 ++ l4 ++ l5 ++ l6 ++ l7)%list
    /\ List.length l0 = 8 /\ List.length l1 = 8 /\ List.length l2 = 8 /\ List.length l3 = 8
    /\ List.length l4 = 8 /\ List.length l5 = 8 /\ List.length l6 = 8 /\ List.length l7 = 8.
Proof.
  intros H.
  assert (S8 : forall (l : list A) n, List.length l = 8 + n ->
            l = (firstn 8 l ++ skipn 8 l)%list /\ List.length (firstn 8 l) = 8 /\ List.length (skipn 8 l) = n).
  { intros l n Hl. split; [now rewrite firstn_skipn|]. rewrite firstn_length, skipn_length. lia. }
  destruct (S8 c 56 H) as (E0 & L0 & H1).
  destruct (S8 _ 48 H1) as (E1 & L1 & H2).
  destruct (S8 _ 40 H2) as (E2 & L2 & H3).
  destruct (S8 _ 32 H3) as (E3 & L3 & H4).
  destruct (S8 _ 24 H4) as (E4 & L4 & H5).
  destruct (S8 _ 16 H5) as (E5 & L5 & H6).
  destruct (S8 _ 8 H6) as (E6 & L6 & H7).
  eexists _, _, _, _, _, _, _, _. split; [|repeat split; [exact L0|exact L1|exact L2|exact L3|exact L4|exact L5|exact L6|exact H7]].
  rewrite E0 at 1. f_equal. rewrite E1 at 1. f_equal. rewrite E2 at 1. f_equal. rewrite E3 at 1. f_equal.
  rewrite E4 at 1. f_equal. rewrite E5 at 1. f_equal. exact E6.
Qed.

Lemma firstn_app_exact {A} (a b : list A) n : List.length a = n -> firstn n (a ++ b)%list = a.
Proof. intros <-. rewrite firstn_app, Nat.sub_diag, firstn_all. cbn [firstn]. now rewrite app_nil_r. Qed.

Lemma skipn_app_exact {A} (a b : list A) n : List.length a = n -> skipn n (a ++ b)%list = b.
Proof. intros <-. rewrite skipn_app, Nat.sub_diag, skipn_all. reflexivity. Qed.

Lemma placement_roundtrip c : List.length c = 64 ->
  placement_cells (placement_string c) = Some c
  /\ has_char " " (placement_string c) = false /\ placement_string c <> ""%string.
Proof.
  intros H. destruct (length64_inv c H) as (l0 & l1 & l2 & l3 & l4 & l5 & l6 & l7 & E & L0 & L1 & L2 & L3 & L4 & L5 & L6 & L7).
  assert (R0 : rank_of_cells c 0 = l0).
  { unfold rank_of_cells. subst c. cbn [Nat.mul Nat.add skipn]. now apply firstn_app_exact. }
  assert (SK : forall n (a b : list (option Kind)), List.length a = 8 -> skipn (8 + n) (a ++ b)%list = skipn n b).
  { intros n a b La. rewrite skipn_app, La. rewrite skipn_all2 by lia.
    replace (8 + n - 8) with n by lia. reflexivity. }
  assert (R1 : rank_of_cells c 1 = l1).
  { unfold rank_of_cells. subst c. change (8 * 1) with (8 + 0). rewrite SK by assumption.
    now apply firstn_app_exact. }
  assert (R2 : rank_of_cells c 2 = l2).
  { unfold rank_of_cells. subst c. change (8 * 2) with (8 + (8 + 0)). rewrite !SK by assumption.
    now apply firstn_app_exact. }
  assert (R3 : rank_of_cells c 3 = l3).
  { unfold rank_of_cells. subst c. change (8 * 3) with (8 + (8 + (8 + 0))). rewrite !SK by assumption.
    now apply firstn_app_exact. }
  assert (R4 : rank_of_cells c 4 = l4).
  { unfold rank_of_cells. subst c. change (8 * 4) with (8 + (8 + (8 + (8 + 0)))). rewrite !SK by assumption.
    now apply firstn_app_exact. }
  assert (R5 : rank_of_cells c 5 = l5).
  { unfold rank_of_cells. subst c. change (8 * 5) with (8 + (8 + (8 + (8 + (8 + 0))))). rewrite !SK by assumption.
    now apply firstn_app_exact. }
  assert (R6 : rank_of_cells c 6 = l6).
  { unfold rank_of_cells. subst c. change (8 * 6) with (8 + (8 + (8 + (8 + (8 + (8 + 0)))))).
    rewrite !SK by assumption. now apply firstn_app_exact. }
  assert (R7 : rank_of_cells c 7 = l7).
  { unfold rank_of_cells. subst c. change (8 * 7) with (8 + (8 + (8 + (8 + (8 + (8 + (8 + 0))))))).
    rewrite !SK by assumption. cbn [skipn]. rewrite <- L7. apply firstn_all. }
  unfold placement_string. cbn [map String.concat].
  rewrite R0, R1, R2, R3, R4, R5, R6, R7.
  change ("/" ++ ?x)%string with (String "/" x).
  destruct (rank_string_nosep l0 0) as [S0 P0]; [lia|].
  destruct (rank_string_nosep l1 0) as [S1 P1]; [lia|].
  destruct (rank_string_nosep l2 0) as [S2 P2]; [lia|].
  destruct (rank_string_nosep l3 0) as [S3 P3]; [lia|].
  destruct (rank_string_nosep l4 0) as [S4 P4]; [lia|].
  destruct (rank_string_nosep l5 0) as [S5 P5]; [lia|].
  destruct (rank_string_nosep l6 0) as [S6 P6]; [lia|].
  destruct (rank_string_nosep l7 0) as [S7 P7]; [lia|].
  split; [|split].
  - unfold placement_cells. cbn [append].
    rewrite (split_on_app _ _ _ "" S7), (split_on_app _ _ _ "" S6), (split_on_app _ _ _ "" S5),
      (split_on_app _ _ _ "" S4), (split_on_app _ _ _ "" S3), (split_on_app _ _ _ "" S2),
      (split_on_app _ _ _ "" S1), (split_on_nosep _ _ "" S0).
    cbn [append].
    rewrite !rank8_roundtrip by assumption. now subst c.
  - cbn [append]. repeat (rewrite has_char_app; cbn [has_char]).
    rewrite P0, P1, P2, P3, P4, P5, P6, P7. reflexivity.
  - destruct (rank_string l7 0); cbn [append]; discriminate.
Qed.

(* ------------------------------------------------------------------ *)
(* side, castling availability, en passant *)

Lemma side_roundtrip sd : side_of (side_string sd) = Some sd
  /\ has_char " " (side_string sd) = false /\ side_string sd <> ""%string.
Proof. destruct sd; (split; [reflexivity | split; [reflexivity | discriminate]]). Qed.

Lemma rights_roundtrip r : rights_of (rights_string r) = Some r
  /\ has_char " " (rights_string r) = false /\ rights_string r <> ""%string.
Proof. destruct r as [[] [] [] []]; (split; [reflexivity | split; [reflexivity | discriminate]]). Qed.

Lemma ep_roundtrip sd e : match e with Some f => f < 8 | None => True end ->
  ep_of sd (ep_string sd e) = Some e
  /\ has_char " " (ep_string sd e) = false /\ ep_string sd e <> ""%string.
Proof.
  intros H. destruct e as [f|].
  - do 8 (destruct f as [|f]; [destruct sd; (split; [reflexivity | split; [reflexivity | discriminate]])|]).
    lia.
  - split; [reflexivity | split; [reflexivity | discriminate]].
Qed.

(* ------------------------------------------------------------------ *)
(* the counters: a finite sweep over 0..65535 *)

Definition dec_ok (n : N) : bool :=
  match number (decimal_string n) with Some v => N.eqb v n | None => false end
  && negb (has_char " " (decimal_string n))
  && negb (String.eqb (decimal_string n) "").

Fixpoint sweep (fuel : nat) (n : N) : bool :=
  match fuel with
  | O => true
  | S f => dec_ok n && sweep f (N.succ n)
  end.

Lemma sweep_spec fuel : forall n, sweep fuel n = true ->
  forall k, (n <= k)%N -> (k < n + N.of_nat fuel)%N -> dec_ok k = true.
Proof.
  induction fuel as [|f IH]; intros n H k H1 H2.
  - exfalso. lia.
  - cbn [sweep] in H. apply andb_true_iff in H. destruct H as [Hn Hs].
    destruct (N.eq_dec k n) as [->|NE]; [exact Hn|].
    apply (IH (N.succ n) Hs); lia.
Qed.

Lemma dec_sweep : sweep (N.to_nat 65536%N) 0%N = true.
Proof. vm_cast_no_check (@eq_refl bool true). Qed.

Lemma decimal_roundtrip n : (n <= 65535)%N ->
  number (decimal_string n) = Some n
  /\ has_char " " (decimal_string n) = false /\ decimal_string n <> ""%string.
Proof.
  intros H. assert (SW : dec_ok n = true).
  { apply (sweep_spec _ _ dec_sweep); [lia|]. rewrite Nnat.N2Nat.id. lia. }
  unfold dec_ok in SW.
  apply andb_true_iff in SW. destruct SW as [SW NE].
  apply andb_true_iff in SW. destruct SW as [NU SP].
  split; [|split].
  - destruct (number (decimal_string n)) as [v|]; [|discriminate].
    apply N.eqb_eq in NU. now subst v.
  - now apply negb_true_iff in SP.
  - intros E. rewrite E in NE. discriminate.
Qed.

(* ------------------------------------------------------------------ *)
(* print then parse *)

Theorem print_parse : forall p, describable p -> SpecFen.parse (PrintFen.print p) = Some p.
Proof.
  intros p D. destruct p as [c sd r e h f]. unfold describable in D.
  cbn [cells side rights ep halfmove fullmove] in D. destruct D as (DL & DE & DH & DF).
  destruct (placement_roundtrip c DL) as (Pc & Sc & Nc).
  destruct (side_roundtrip sd) as (Ps & Ss & Ns).
  destruct (rights_roundtrip r) as (Pr & Sr & Nr).
  destruct (ep_roundtrip sd e DE) as (Pe & Se & Ne).
  destruct (decimal_roundtrip h DH) as (Ph & Sh & Nh).
  destruct (decimal_roundtrip f DF) as (Pf & Sf & Nf).
  unfold parse, print. cbn [cells side rights ep halfmove fullmove].
  rewrite fields_of_six by assumption.
  rewrite Pc, Ps, Pr, Pe, Ph, Pf. reflexivity.
Qed.

Theorem every_position_loads : forall p, describable p ->
  exists b, from_fen (PrintFen.print p) = Some b /\ abs b = p /\ pbb_wf (bbs b) = true /\ pos_hist b = [].
Proof.
  intros p D. destruct (fen_parse_agrees _ _ (print_parse p D)) as (b & F & A & W & _ & _ & Hh).
  exists b. repeat split; assumption.
Qed.

(* ------------------------------------------------------------------ *)
(* whatever the reader accepts is describable *)

Lemma rank8_length s l : rank8 s = Some l -> List.length l = 8.
Proof.
  unfold rank8. destruct (rank_cells s) as [l'|]; [|discriminate].
  destruct (Nat.eqb (List.length l') 8) eqn:E; [|discriminate].
  intros [= <-]. now apply Nat.eqb_eq.
Qed.

Lemma placement_cells_length s c : placement_cells s = Some c -> List.length c = 64.
Proof.
  unfold placement_cells.
  destruct (split_on "/" s "") as [|r8 [|r7 [|r6 [|r5 [|r4 [|r3 [|r2 [|r1 [|]]]]]]]]]; try discriminate.
  destruct (rank8 r1) as [c1|] eqn:E1; [|discriminate].
  destruct (rank8 r2) as [c2|] eqn:E2; [|discriminate].
  destruct (rank8 r3) as [c3|] eqn:E3; [|discriminate].
  destruct (rank8 r4) as [c4|] eqn:E4; [|discriminate].
  destruct (rank8 r5) as [c5|] eqn:E5; [|discriminate].
  destruct (rank8 r6) as [c6|] eqn:E6; [|discriminate].
  destruct (rank8 r7) as [c7|] eqn:E7; [|discriminate].
  destruct (rank8 r8) as [c8|] eqn:E8; [|discriminate].
  intros [= <-]. rewrite !app_length.
  rewrite (rank8_length _ _ E1), (rank8_length _ _ E2), (rank8_length _ _ E3), (rank8_length _ _ E4),
    (rank8_length _ _ E5), (rank8_length _ _ E6), (rank8_length _ _ E7), (rank8_length _ _ E8).
  reflexivity.
Qed.

Lemma ep_of_bound col s e : ep_of col s = Some e -> match e with Some f => f < 8 | None => True end.
Proof.
  unfold ep_of. destruct (String.eqb s "-"); [intros [= <-]; exact I|].
  destruct s as [|fc [|rc [|? ?]]]; try discriminate.
  destruct (Nat.leb 97 (nat_of_ascii fc) && Nat.leb (nat_of_ascii fc) 104 && _) eqn:E; [|discriminate].
  intros [= <-]. apply andb_true_iff in E. destruct E as [E _].
  apply andb_true_iff in E. destruct E as [E1 E2].
  apply Nat.leb_le in E1. apply Nat.leb_le in E2. lia.
Qed.

Lemma number_bound s v : number s = Some v -> (v <= 65535)%N.
Proof.
  unfold number. destruct (String.eqb s ""); [discriminate|].
  destruct (Nat.ltb 5 (String.length s)); [discriminate|].
  destruct (decimal s 0) as [w|]; [|discriminate].
  destruct (N.leb w 65535) eqn:E; [|discriminate].
  intros [= <-]. now apply N.leb_le.
Qed.

Theorem parse_describable : forall s p, SpecFen.parse s = Some p -> describable p.
Proof.
  intros s p H. unfold parse in H.
  destruct (fields_of s) as [|pl [|sd [|cr [|e [|hm [|fm [|]]]]]]]; try discriminate.
  - destruct (placement_cells pl) as [c|] eqn:Epl; [|discriminate].
    destruct (side_of sd) as [col|]; [|discriminate].
    destruct (rights_of cr) as [r|]; [|discriminate].
    destruct (ep_of col e) as [ef|] eqn:Ee; [|discriminate].
    injection H as <-. unfold describable. cbn [cells side rights ep halfmove fullmove].
    split; [exact (placement_cells_length _ _ Epl)|].
    split; [exact (ep_of_bound _ _ _ Ee)|]. split; discriminate.
  - destruct (placement_cells pl) as [c|] eqn:Epl; [|discriminate].
    destruct (side_of sd) as [col|]; [|discriminate].
    destruct (rights_of cr) as [r|]; [|discriminate].
    destruct (ep_of col e) as [ef|] eqn:Ee; [|discriminate].
    destruct (number hm) as [h|] eqn:Eh; [|discriminate].
    destruct (number fm) as [f|] eqn:Ef; [|discriminate].
    injection H as <-. unfold describable. cbn [cells side rights ep halfmove fullmove].
    split; [exact (placement_cells_length _ _ Epl)|].
    split; [exact (ep_of_bound _ _ _ Ee)|].
    split; [exact (number_bound _ _ Eh) | exact (number_bound _ _ Ef)].
Qed.
