(* KeyProofs.v — proofs for C05: the Zobrist key is the XOR of the table words of the atoms
   present, and no XOR of 1..4 distinct table words is zero. *)
From Coq Require Import NArith List Bool Arith Lia Permutation FSets.FSetPositive.
Import ListNotations.
From RCE Require Import lib.Bits generated.ZTable model.Board model.Atoms.
Open Scope N_scope.

(* ------------------------------------------------------------------------------------------ *)
(* The one computation on the generated table.                                                  *)
Lemma table_ok_holds : table_ok = true.
Proof. vm_cast_no_check (eq_refl true). Qed.

(* facts that need the definitions transparent, stated before everything becomes opaque *)
Lemma zt_nth : forall a, zt a = nth a words 0.
Proof. reflexivity. Qed.

Definition xorw (p : nat * nat) : N := N.lxor (nth (fst p) words 0) (nth (snd p) words 0).
Definition index_pairs : list (nat * nat) :=
  flat_map (fun i => map (fun j => (i, j)) (seq (S i) (nwords - S i))) (seq 0 nwords).

Lemma pair_xors_gen : forall l,
  flat_map (fun i => map (fun j => N.lxor (nth i words 0) (nth j words 0)) (seq (S i) (nwords - S i))) l
  = map xorw (flat_map (fun i => map (fun j => (i, j)) (seq (S i) (nwords - S i))) l).
Proof.
  induction l as [|a l IH]; [reflexivity|].
  cbn [flat_map]. rewrite map_app, map_map, IH. reflexivity.
Qed.

Lemma pair_xors_map : pair_xors = map xorw index_pairs.
Proof. unfold pair_xors, index_pairs. apply pair_xors_gen. Qed.

Lemma table_ok_unfold :
  table_ok =
  (Nat.eqb (length words) nwords
  && forallb (fun w => negb (N.eqb w 0) && N.ltb w 18446744073709551616) words
  && all_distinct_nonzero pair_xors PositiveSet.empty
  && (forallb (fun w => match w with 0 => false | Npos p => negb (PositiveSet.mem p (set_of_list pair_xors)) end) words))%bool.
Proof. reflexivity. Qed.

Lemma nwords_eq : nwords = 781%nat.
Proof. reflexivity. Qed.

Lemma z_piece_zt : forall k s, z_piece k s = zt (color_idx (snd k) * 384 + ptype_idx (fst k) * 64 + idx s).
Proof. reflexivity. Qed.
Lemma z_castle_zt : forall k, z_castle k = zt (right_atom k).
Proof. reflexivity. Qed.
Lemma z_ep_zt : forall f, z_ep f = zt (ep_atom f).
Proof. reflexivity. Qed.
Lemma z_turn_zt : z_turn = zt turn_atom.
Proof. reflexivity. Qed.

Local Opaque zt words gen_ztable pair_xors table_ok nwords z_piece z_castle z_ep z_turn.

(* ------------------------------------------------------------------------------------------ *)
(* xor_atoms algebra                                                                            *)
Lemma fold_xor_acc : forall l acc,
  fold_left (fun acc a => N.lxor acc (zt a)) l acc = N.lxor acc (xor_atoms l).
Proof.
  unfold xor_atoms. induction l as [|a l IH]; intros acc; cbn [fold_left].
  - now rewrite N.lxor_0_r.
  - rewrite IH. rewrite (IH (N.lxor 0 (zt a))). rewrite N.lxor_0_l. now rewrite N.lxor_assoc.
Qed.

Lemma xor_atoms_nil : xor_atoms [] = 0.
Proof. reflexivity. Qed.

Lemma xor_atoms_cons : forall a l, xor_atoms (a :: l) = N.lxor (zt a) (xor_atoms l).
Proof.
  intros. unfold xor_atoms at 1. cbn [fold_left]. rewrite fold_xor_acc. now rewrite N.lxor_0_l.
Qed.

Lemma xor_atoms_app : forall l1 l2, xor_atoms (l1 ++ l2) = N.lxor (xor_atoms l1) (xor_atoms l2).
Proof.
  induction l1 as [|a l1 IH]; intros l2.
  - cbn [app]. now rewrite xor_atoms_nil, N.lxor_0_l.
  - cbn [app]. rewrite !xor_atoms_cons, IH. now rewrite N.lxor_assoc.
Qed.

Lemma xor_atoms_perm : forall l l', Permutation l l' -> xor_atoms l = xor_atoms l'.
Proof.
  induction 1.
  - reflexivity.
  - rewrite !xor_atoms_cons. now f_equal.
  - rewrite !xor_atoms_cons. rewrite <- !N.lxor_assoc. f_equal. apply N.lxor_comm.
  - congruence.
Qed.

(* ------------------------------------------------------------------------------------------ *)
(* key_is_xor_of_atoms                                                                          *)
Lemma idx_sq_of_idx : forall i, idx (sq_of_idx i) = i.
Proof.
  intros i. unfold idx, sq_of_idx. cbn [rank file].
  pose proof (Nat.div_mod i 8). lia.
Qed.

Lemma z_piece_atom : forall k i, z_piece k (sq_of_idx i) = zt (piece_atom k i).
Proof. intros. rewrite z_piece_zt, idx_sq_of_idx. reflexivity. Qed.

Lemma piece_fold : forall b l acc,
  fold_left (fun acc i => match get_piece b (sq_of_idx i) with
                          | Some k => N.lxor acc (z_piece k (sq_of_idx i))
                          | None => acc end) l acc
  = N.lxor acc (xor_atoms (flat_map (fun i => match get_piece b (sq_of_idx i) with
                                              | Some k => [piece_atom k i] | None => [] end) l)).
Proof.
  intros b. induction l as [|i l IH]; intros acc; cbn [fold_left flat_map].
  - now rewrite xor_atoms_nil, N.lxor_0_r.
  - rewrite IH. rewrite xor_atoms_app. destruct (get_piece b (sq_of_idx i)) as [k|].
    + rewrite xor_atoms_cons, xor_atoms_nil, N.lxor_0_r, z_piece_atom. now rewrite N.lxor_assoc.
    + now rewrite xor_atoms_nil, N.lxor_0_l.
Qed.

Lemma toggle_if_atoms : forall c z a,
  toggle_if c z (zt a) = N.lxor z (xor_atoms (if c then [a] else [])).
Proof.
  intros [] z a; unfold toggle_if.
  - now rewrite xor_atoms_cons, xor_atoms_nil, N.lxor_0_r.
  - now rewrite xor_atoms_nil, N.lxor_0_r.
Qed.

Lemma key_is_xor_of_atoms : forall b, key_from_scratch b = xor_atoms (atoms b).
Proof.
  intros b. unfold key_from_scratch, atoms. cbv zeta.
  rewrite !z_castle_zt, z_turn_zt, !toggle_if_atoms, piece_fold, N.lxor_0_l.
  rewrite !xor_atoms_app.
  destruct (ep_file b) as [f|].
  - rewrite z_ep_zt, xor_atoms_cons, xor_atoms_nil, N.lxor_0_r. now rewrite !N.lxor_assoc.
  - rewrite xor_atoms_nil, N.lxor_0_l. now rewrite !N.lxor_assoc.
Qed.

(* ------------------------------------------------------------------------------------------ *)
(* generic facts about the checkers                                                             *)
Lemma adn_spec : forall l seen, all_distinct_nonzero l seen = true ->
  NoDup l /\ ~ In 0 l /\ (forall p, In (Npos p) l -> PositiveSet.mem p seen = false).
Proof.
  induction l as [|a l IH]; intros seen H.
  - repeat split; [constructor | intros [] | intros p []].
  - cbn [all_distinct_nonzero] in H. destruct a as [|p]; [discriminate|].
    destruct (PositiveSet.mem p seen) eqn:E; [discriminate|].
    destruct (IH _ H) as (ND & NZ & NS).
    assert (Hp : ~ In (Npos p) l).
    { intros Hin. specialize (NS p Hin).
      assert (PositiveSet.mem p (PositiveSet.add p seen) = true)
        by (apply PositiveSet.mem_1, PositiveSet.add_1; reflexivity).
      congruence. }
    repeat split.
    + constructor; assumption.
    + intros [H0|H0]; [discriminate | auto].
    + intros q [Hq|Hq].
      * inversion Hq; subst. exact E.
      * specialize (NS q Hq).
        destruct (PositiveSet.mem q seen) eqn:E2; [|reflexivity].
        assert (PositiveSet.mem q (PositiveSet.add p seen) = true)
          by (apply PositiveSet.mem_1, PositiveSet.add_2, PositiveSet.mem_2; exact E2).
        congruence.
Qed.

Lemma set_of_list_gen : forall p l s,
  In (Npos p) l \/ PositiveSet.mem p s = true ->
  PositiveSet.mem p (fold_left (fun s x => match x with 0 => s | Npos q => PositiveSet.add q s end) l s) = true.
Proof.
  intros p. induction l as [|a l IH]; intros s H; cbn [fold_left].
  - destruct H as [[]|H]; exact H.
  - apply IH. destruct H as [[Ha|Hl]|Hs].
    + subst a. right. apply PositiveSet.mem_1, PositiveSet.add_1. reflexivity.
    + now left.
    + right. destruct a as [|q]; [exact Hs|].
      apply PositiveSet.mem_1, PositiveSet.add_2, PositiveSet.mem_2. exact Hs.
Qed.

Lemma set_of_list_mem : forall p l, In (Npos p) l -> PositiveSet.mem p (set_of_list l) = true.
Proof. intros. unfold set_of_list. apply set_of_list_gen. now left. Qed.

Lemma NoDup_map_inj : forall (A B : Type) (f : A -> B) (l : list A),
  NoDup (map f l) -> forall x y, In x l -> In y l -> f x = f y -> x = y.
Proof.
  induction l as [|a l IH]; intros ND x y Hx Hy E; [destruct Hx|].
  cbn [map] in ND. inversion ND as [|? ? Hn ND']; subst.
  destruct Hx as [Hx|Hx], Hy as [Hy|Hy].
  - congruence.
  - subst a. exfalso. apply Hn. rewrite E. now apply in_map.
  - subst a. exfalso. apply Hn. rewrite <- E. now apply in_map.
  - now apply IH.
Qed.

Lemma index_pairs_in : forall i j, In (i, j) index_pairs <-> (i < j < 781)%nat.
Proof.
  intros i j. unfold index_pairs. rewrite in_flat_map. rewrite nwords_eq. split.
  - intros (x & Hx & Hin). apply in_map_iff in Hin. destruct Hin as (y & Hy & Hin).
    inversion Hy; subst. apply in_seq in Hx. apply in_seq in Hin. lia.
  - intros H. exists i. split; [apply in_seq; lia|].
    apply in_map_iff. exists j. split; [reflexivity|]. apply in_seq. lia.
Qed.

(* ------------------------------------------------------------------------------------------ *)
(* consequences of table_ok                                                                     *)
Lemma table_facts :
  length words = 781%nat
  /\ (forall w, In w words -> w <> 0)
  /\ NoDup pair_xors
  /\ ~ In 0 pair_xors
  /\ (forall w, In w words -> ~ In w pair_xors).
Proof.
  pose proof table_ok_holds as H. rewrite table_ok_unfold in H.
  apply andb_true_iff in H. destruct H as [H H4].
  apply andb_true_iff in H. destruct H as [H H3].
  apply andb_true_iff in H. destruct H as [H1 H2].
  apply Nat.eqb_eq in H1. rewrite nwords_eq in H1.
  rewrite forallb_forall in H2, H4.
  apply adn_spec in H3. destruct H3 as (ND & NZ & _).
  repeat split; try assumption.
  - intros w Hw E. specialize (H2 w Hw). subst w. discriminate.
  - intros w Hw Hin. specialize (H4 w Hw). destruct w as [|p]; [discriminate|].
    rewrite (set_of_list_mem p _ Hin) in H4. discriminate.
Qed.

Lemma zt_in_words : forall a, (a < 781)%nat -> In (zt a) words.
Proof.
  intros a Ha. rewrite zt_nth. apply nth_In.
  destruct table_facts as (L & _). rewrite L. exact Ha.
Qed.

Lemma pair_wlog : forall a b, a <> b -> (a < 781)%nat -> (b < 781)%nat ->
  exists p, In p index_pairs /\ N.lxor (zt a) (zt b) = xorw p
            /\ ((fst p = a /\ snd p = b) \/ (fst p = b /\ snd p = a)).
Proof.
  intros a b Hab Ha Hb.
  destruct (Nat.lt_ge_cases a b) as [Hlt|Hge].
  - exists (a, b). split; [apply index_pairs_in; lia|]. split; [|left; split; reflexivity].
    unfold xorw. cbn [fst snd]. now rewrite !zt_nth.
  - exists (b, a). split; [apply index_pairs_in; lia|]. split; [|right; split; reflexivity].
    unfold xorw. cbn [fst snd]. rewrite !zt_nth. apply N.lxor_comm.
Qed.

Lemma pair_xor_in : forall a b, a <> b -> (a < 781)%nat -> (b < 781)%nat ->
  In (N.lxor (zt a) (zt b)) pair_xors.
Proof.
  intros a b Hab Ha Hb. destruct (pair_wlog a b Hab Ha Hb) as (p & Hp & E & _).
  rewrite E, pair_xors_map. now apply in_map.
Qed.

Lemma small_xor_nonzero : forall d : list nat,
  NoDup d -> (forall a, In a d -> (a < 781)%nat) -> (1 <= length d <= 4)%nat -> xor_atoms d <> 0.
Proof.
  intros d ND Hlt Hlen.
  destruct table_facts as (L & NZ & NDP & NZP & NWP).
  destruct d as [|a [|b [|c [|e [|x y]]]]]; cbn [length] in Hlen; try lia.
  - (* one atom *)
    rewrite xor_atoms_cons, xor_atoms_nil, N.lxor_0_r.
    apply NZ, zt_in_words, Hlt. now left.
  - (* two atoms *)
    rewrite !xor_atoms_cons, xor_atoms_nil, N.lxor_0_r.
    intros E. apply NZP. rewrite <- E.
    inversion ND as [|? ? Hn _]; subst.
    apply pair_xor_in.
    + intros ->. apply Hn. now left.
    + apply Hlt. now left.
    + apply Hlt. right. now left.
  - (* three atoms *)
    rewrite !xor_atoms_cons, xor_atoms_nil, N.lxor_0_r.
    intros E. rewrite N.lxor_comm in E. apply N.lxor_eq in E.
    inversion ND as [|? ? Hn ND']; subst. inversion ND' as [|? ? Hn' _]; subst.
    apply (NWP (zt a)).
    + apply zt_in_words, Hlt. now left.
    + rewrite <- E. apply pair_xor_in.
      * intros ->. apply Hn'. now left.
      * apply Hlt. right. now left.
      * apply Hlt. right. right. now left.
  - (* four atoms *)
    rewrite !xor_atoms_cons, xor_atoms_nil, N.lxor_0_r.
    intros E. rewrite <- N.lxor_assoc in E. apply N.lxor_eq in E.
    assert (Ha : (a < 781)%nat) by (apply Hlt; now left).
    assert (Hb : (b < 781)%nat) by (apply Hlt; right; now left).
    assert (Hc : (c < 781)%nat) by (apply Hlt; right; right; now left).
    assert (He : (e < 781)%nat) by (apply Hlt; right; right; right; now left).
    inversion ND as [|? ? Hn1 ND1]; subst. inversion ND1 as [|? ? Hn2 ND2]; subst.
    inversion ND2 as [|? ? Hn3 _]; subst.
    assert (Hab : a <> b) by (intros ->; apply Hn1; now left).
    assert (Hac : a <> c) by (intros ->; apply Hn1; right; now left).
    assert (Hae : a <> e) by (intros ->; apply Hn1; right; right; now left).
    assert (Hce : c <> e) by (intros ->; apply Hn3; now left).
    destruct (pair_wlog a b Hab Ha Hb) as (p & Hp & Ep & Sp).
    destruct (pair_wlog c e Hce Hc He) as (q & Hq & Eq & Sq).
    assert (p = q).
    { rewrite pair_xors_map in NDP.
      apply (NoDup_map_inj _ _ xorw index_pairs NDP p q Hp Hq). congruence. }
    subst q. destruct Sp as [[P1 P2]|[P1 P2]], Sq as [[Q1 Q2]|[Q1 Q2]]; congruence.
Qed.

(* ------------------------------------------------------------------------------------------ *)
(* sym_diff and xor                                                                             *)
Lemma memn_spec : forall a l, memn a l = true <-> In a l.
Proof.
  intros a l. unfold memn. rewrite existsb_exists. split.
  - intros (x & Hx & E). apply Nat.eqb_eq in E. now subst.
  - intros H. exists a. split; [exact H | apply Nat.eqb_refl].
Qed.

Lemma memn_false : forall a l, memn a l = false <-> ~ In a l.
Proof.
  intros a l. rewrite <- memn_spec. destruct (memn a l); split; congruence.
Qed.

Lemma xor_atoms_filter_split : forall (f : nat -> bool) l,
  xor_atoms l = N.lxor (xor_atoms (filter f l)) (xor_atoms (filter (fun a => negb (f a)) l)).
Proof.
  intros f. induction l as [|a l IH]; [reflexivity|].
  cbn [filter]. rewrite xor_atoms_cons, IH. destruct (f a); cbn [negb].
  - rewrite xor_atoms_cons. now rewrite N.lxor_assoc.
  - rewrite xor_atoms_cons. rewrite <- !N.lxor_assoc. f_equal. apply N.lxor_comm.
Qed.

Lemma NoDup_app_intro : forall (A : Type) (l1 l2 : list A),
  NoDup l1 -> NoDup l2 -> (forall x, In x l1 -> ~ In x l2) -> NoDup (l1 ++ l2).
Proof.
  induction l1 as [|a l1 IH]; intros l2 N1 N2 D; [exact N2|].
  cbn [app]. inversion N1 as [|? ? Hn N1']; subst. constructor.
  - rewrite in_app_iff. intros [H|H]; [auto|]. apply (D a); [now left | exact H].
  - apply IH; auto. intros x Hx. apply D. now right.
Qed.

Lemma xor_sym_diff : forall l1 l2, NoDup l1 -> NoDup l2 ->
  N.lxor (xor_atoms l1) (xor_atoms l2) = xor_atoms (sym_diff l1 l2).
Proof.
  intros l1 l2 N1 N2. unfold sym_diff. rewrite xor_atoms_app.
  rewrite (xor_atoms_filter_split (fun a => memn a l2) l1).
  rewrite (xor_atoms_filter_split (fun a => memn a l1) l2).
  assert (E : xor_atoms (filter (fun a => memn a l2) l1) = xor_atoms (filter (fun a => memn a l1) l2)).
  { apply xor_atoms_perm. apply NoDup_Permutation.
    - now apply NoDup_filter.
    - now apply NoDup_filter.
    - intros x. rewrite !filter_In, !memn_spec. tauto. }
  rewrite E.
  set (C := xor_atoms (filter (fun a => memn a l1) l2)).
  set (P1 := xor_atoms (filter (fun a => negb (memn a l2)) l1)).
  set (P2 := xor_atoms (filter (fun a => negb (memn a l1)) l2)).
  rewrite (N.lxor_comm C P1). rewrite N.lxor_assoc. rewrite <- (N.lxor_assoc C C P2).
  now rewrite N.lxor_nilpotent, N.lxor_0_l.
Qed.

Lemma sym_diff_NoDup : forall l1 l2, NoDup l1 -> NoDup l2 -> NoDup (sym_diff l1 l2).
Proof.
  intros l1 l2 N1 N2. unfold sym_diff. apply NoDup_app_intro.
  - now apply NoDup_filter.
  - now apply NoDup_filter.
  - intros x H1 H2. apply filter_In in H1. apply filter_In in H2.
    destruct H1 as [_ H1]. destruct H2 as [H2 _].
    apply memn_spec in H2. rewrite H2 in H1. discriminate.
Qed.

Lemma sym_diff_in : forall l1 l2 x, In x (sym_diff l1 l2) -> In x l1 \/ In x l2.
Proof.
  intros l1 l2 x H. unfold sym_diff in H. apply in_app_iff in H.
  destruct H as [H|H]; apply filter_In in H; tauto.
Qed.

(* ------------------------------------------------------------------------------------------ *)
(* atoms are distinct and below 781                                                             *)
Definition bounded (lo hi : nat) (l : list nat) : Prop :=
  NoDup l /\ forall x, In x l -> (lo <= x < hi)%nat.

Lemma bounded_app : forall lo mid hi l1 l2,
  bounded lo mid l1 -> bounded mid hi l2 -> (lo <= mid <= hi)%nat -> bounded lo hi (l1 ++ l2).
Proof.
  intros lo mid hi l1 l2 [N1 B1] [N2 B2] Hm. split.
  - apply NoDup_app_intro; auto. intros x H1 H2. specialize (B1 x H1). specialize (B2 x H2). lia.
  - intros x H. apply in_app_iff in H. destruct H as [H|H]; [specialize (B1 x H) | specialize (B2 x H)]; lia.
Qed.

Lemma bounded_nil : forall lo hi, bounded lo hi [].
Proof. intros. split; [constructor | intros x []]. Qed.

Lemma bounded_single : forall lo hi a, (lo <= a < hi)%nat -> bounded lo hi [a].
Proof.
  intros. split.
  - constructor; [intros [] | constructor].
  - intros x [<-|[]]. assumption.
Qed.

Lemma bounded_if : forall lo hi (c : bool) a, (lo <= a < hi)%nat -> bounded lo hi (if c then [a] else []).
Proof. intros lo hi [] a H; [now apply bounded_single | apply bounded_nil]. Qed.

Lemma piece_atom_bound : forall k i, (i < 64)%nat -> (piece_atom k i < 768)%nat.
Proof.
  intros [[] []] i H; unfold piece_atom; cbn [fst snd color_idx ptype_idx]; lia.
Qed.

Lemma piece_atom_mod : forall k i, (i < 64)%nat -> (piece_atom k i mod 64 = i)%nat.
Proof.
  intros k i H. symmetry.
  apply Nat.mod_unique with (q := (color_idx (snd k) * 6 + ptype_idx (fst k))%nat); [exact H|].
  unfold piece_atom. lia.
Qed.

Lemma NoDup_flat_map_key : forall (g : nat -> nat) (f : nat -> list nat) l,
  NoDup l -> (forall i, In i l -> NoDup (f i)) ->
  (forall i x, In i l -> In x (f i) -> g x = i) -> NoDup (flat_map f l).
Proof.
  intros g f. induction l as [|a l IH]; intros ND Hf Hg; [constructor|].
  cbn [flat_map]. inversion ND as [|? ? Hn ND']; subst.
  apply NoDup_app_intro.
  - apply Hf. now left.
  - apply IH; auto.
    + intros i Hi. apply Hf. now right.
    + intros i x Hi. apply Hg. now right.
  - intros x H1 H2. apply in_flat_map in H2. destruct H2 as (i & Hi & Hx).
    assert (g x = a) by (apply Hg; [now left | exact H1]).
    assert (g x = i) by (apply Hg; [now right | exact Hx]).
    apply Hn. congruence.
Qed.

Lemma piece_atoms_bounded : forall b,
  bounded 0 768 (flat_map (fun i => match get_piece b (sq_of_idx i) with
                                    | Some k => [piece_atom k i] | None => [] end) (seq 0 64)).
Proof.
  intros b. split.
  - apply NoDup_flat_map_key with (g := fun x => (x mod 64)%nat).
    + apply seq_NoDup.
    + intros i _. destruct (get_piece b (sq_of_idx i)); [|constructor].
      constructor; [intros [] | constructor].
    + intros i x Hi Hx. apply in_seq in Hi.
      destruct (get_piece b (sq_of_idx i)) as [k|]; [|destruct Hx].
      destruct Hx as [<-|[]]. apply piece_atom_mod. lia.
  - intros x H. apply in_flat_map in H. destruct H as (i & Hi & Hx). apply in_seq in Hi.
    destruct (get_piece b (sq_of_idx i)) as [k|]; [|destruct Hx].
    destruct Hx as [<-|[]]. pose proof (piece_atom_bound k i). lia.
Qed.

Lemma atoms_bounded : forall b, (forall f, ep_file b = Some f -> (f < 8)%nat) -> bounded 0 781 (atoms b).
Proof.
  intros b Hep. unfold atoms.
  apply bounded_app with (mid := 768%nat); [apply piece_atoms_bounded | | lia].
  apply bounded_app with (mid := 769%nat); [apply bounded_if; cbv; lia | | lia].
  apply bounded_app with (mid := 770%nat); [apply bounded_if; cbv; lia | | lia].
  apply bounded_app with (mid := 771%nat); [apply bounded_if; cbv; lia | | lia].
  apply bounded_app with (mid := 772%nat); [apply bounded_if; cbv; lia | | lia].
  apply bounded_app with (mid := 780%nat); [ | apply bounded_if; cbv; lia | lia].
  destruct (ep_file b) as [f|]; [|apply bounded_nil].
  apply bounded_single. specialize (Hep f eq_refl). unfold ep_atom. lia.
Qed.

Lemma small_diff_keys_differ : forall b1 b2,
  (forall f, ep_file b1 = Some f -> (f < 8)%nat) -> (forall f, ep_file b2 = Some f -> (f < 8)%nat) ->
  (1 <= length (sym_diff (atoms b1) (atoms b2)) <= 4)%nat ->
  key_from_scratch b1 <> key_from_scratch b2.
Proof.
  intros b1 b2 H1 H2 Hlen E.
  destruct (atoms_bounded b1 H1) as [N1 B1]. destruct (atoms_bounded b2 H2) as [N2 B2].
  rewrite !key_is_xor_of_atoms in E.
  apply (small_xor_nonzero (sym_diff (atoms b1) (atoms b2))).
  - now apply sym_diff_NoDup.
  - intros a Ha. apply sym_diff_in in Ha. destruct Ha as [Ha|Ha]; [apply B1 in Ha | apply B2 in Ha]; lia.
  - exact Hlen.
  - rewrite <- xor_sym_diff by assumption. rewrite E. apply N.lxor_nilpotent.
Qed.

(* ------------------------------------------------------------------------------------------ *)
(* side to move                                                                                 *)
Lemma filter_none : forall (A : Type) (f : A -> bool) l, (forall x, In x l -> f x = false) -> filter f l = [].
Proof.
  induction l as [|a l IH]; intros H; [reflexivity|].
  cbn [filter]. rewrite (H a) by now left. apply IH. intros x Hx. apply H. now right.
Qed.

Lemma sym_diff_snoc_r : forall l t, NoDup (l ++ [t]) -> sym_diff l (l ++ [t]) = [t].
Proof.
  intros l t ND. unfold sym_diff.
  assert (Ht : ~ In t l).
  { apply NoDup_remove_2 with (l' := []) in ND. rewrite app_nil_r in ND. exact ND. }
  rewrite filter_app.
  rewrite (filter_none _ _ l).
  2:{ intros x Hx. apply negb_false_iff, memn_spec, in_app_iff. now left. }
  rewrite (filter_none _ _ l).
  2:{ intros x Hx. apply negb_false_iff, memn_spec. exact Hx. }
  cbn [filter app]. apply memn_false in Ht. rewrite Ht. reflexivity.
Qed.

Lemma sym_diff_snoc_l : forall l t, NoDup (l ++ [t]) -> sym_diff (l ++ [t]) l = [t].
Proof.
  intros l t ND. unfold sym_diff.
  assert (Ht : ~ In t l).
  { apply NoDup_remove_2 with (l' := []) in ND. rewrite app_nil_r in ND. exact ND. }
  rewrite filter_app.
  rewrite (filter_none _ _ l).
  2:{ intros x Hx. apply negb_false_iff, memn_spec. exact Hx. }
  rewrite (filter_none _ (fun a => negb (memn a (l ++ [t]))) l).
  2:{ intros x Hx. apply negb_false_iff, memn_spec, in_app_iff. now left. }
  cbn [filter app]. apply memn_false in Ht. rewrite Ht. reflexivity.
Qed.

Lemma side_to_move_differs : forall b b',
  atoms b' = atoms b ++ [turn_atom] \/ atoms b = atoms b' ++ [turn_atom] ->
  (forall f, ep_file b = Some f -> (f < 8)%nat) -> (forall f, ep_file b' = Some f -> (f < 8)%nat) ->
  key_from_scratch b <> key_from_scratch b'.
Proof.
  intros b b' H Hb Hb'. apply small_diff_keys_differ; try assumption.
  destruct (atoms_bounded b Hb) as [N1 _]. destruct (atoms_bounded b' Hb') as [N2 _].
  destruct H as [H|H].
  - rewrite H in N2 |- *. rewrite sym_diff_snoc_r by exact N2. cbn [length]. lia.
  - rewrite H in N1 |- *. rewrite sym_diff_snoc_l by exact N1. cbn [length]. lia.
Qed.

(* ------------------------------------------------------------------------------------------ *)
(* the starting position                                                                        *)
Fixpoint nodupb (l : list nat) : bool :=
  match l with
  | [] => true
  | a :: t => negb (memn a t) && nodupb t
  end.

Lemma nodupb_sound : forall l, nodupb l = true -> NoDup l.
Proof.
  induction l as [|a l IH]; intros H; [constructor|].
  cbn [nodupb] in H. apply andb_true_iff in H. destruct H as [H1 H2].
  constructor; [|now apply IH].
  apply negb_true_iff in H1. now apply memn_false.
Qed.

Lemma start_atoms_ok : length (atoms start_board) = 37%nat /\ NoDup (atoms start_board).
Proof.
  split.
  - vm_compute. reflexivity.
  - apply nodupb_sound. vm_compute. reflexivity.
Qed.
