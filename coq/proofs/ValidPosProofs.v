(* ValidPosProofs.v — proofs for props/ValidPos.v: the boolean hypotheses of the rules-level
   theorems (`wf_rules`, `chess_inv`, over the bitboard model) are exactly `valid_pos` (spec/ValidPos.v,
   mailbox only) of the abstracted position; hence every FEN of a valid position is loaded into a
   board satisfying them, validity is preserved by the legal moves of the rules, and the end-to-end
   statement holds from any valid position given as a FEN. *)
From Coq Require Import NArith ZArith List Lia Bool Ascii String FMapPositive Arith.
Import ListNotations.
From RCE Require Import lib.Bits lib.Geometry model.Board model.Movegen model.Fen model.Wf model.WfFull model.Abs
  model.Play model.Eval model.Search model.ChessSearch model.Uci spec.Rules spec.Notation spec.SpecFen spec.PrintFen
  spec.ValidPos
  proofs.BoardProofsPBB proofs.BoardProofs proofs.AttackProofs proofs.EvalProofs proofs.RulesProofs
  proofs.FenProofs proofs.PrintFenProofs proofs.UciProofs proofs.ChessSearchProofs proofs.SearchAbortProofs
  proofs.EndToEndProofs.
From RCE Require proofs.RulesProofsB.
(* the imported models open string_scope / N_scope / Z_scope; below naturals and lists are the default *)
Local Open Scope nat_scope.
Local Open Scope list_scope.

(* ------------------------------------------------------------------ *)
(* 1. popcount is the number of set bits among the first n indices *)

Lemma filter_length_shift (f : nat -> bool) a n :
  List.length (filter f (seq (S a) n)) = List.length (filter (fun i => f (S i)) (seq a n)).
Proof.
  rewrite <- seq_shift. induction (seq a n) as [|x l IH]; cbn [map filter].
  - reflexivity.
  - destruct (f (S x)); cbn [List.length]; rewrite IH; reflexivity.
Qed.

Lemma popcount_filter : forall n x, (x < 2 ^ N.of_nat n)%N ->
  popcount x = List.length (filter (tb x) (seq 0 n)).
Proof.
  induction n as [|n IH]; intros x Hx.
  - cbn [seq filter List.length]. assert (E : x = 0%N) by (cbn in Hx; lia). subst x. reflexivity.
  - rewrite Nat2N.inj_succ, N.pow_succ_r' in Hx.
    pose proof (N.div2_odd x) as E.
    assert (Hy : (N.div2 x < 2 ^ N.of_nat n)%N).
    { destruct (N.odd x); cbn [N.b2n] in E; lia. }
    assert (T : forall i, tb x (S i) = tb (N.div2 x) i).
    { intros i. unfold tb. rewrite Nat2N.inj_succ. apply N.testbit_succ_r_div2. apply N.le_0_l. }
    assert (T0 : tb x 0 = N.odd x).
    { unfold tb. cbn [N.of_nat]. apply N.bit0_odd. }
    cbn [seq filter]. rewrite T0.
    assert (R : List.length (filter (tb x) (seq 1 n)) = popcount (N.div2 x)).
    { rewrite filter_length_shift, (filter_ext _ _ T). symmetry. apply IH. exact Hy. }
    destruct (N.odd x); cbn [N.b2n] in E; cbn [List.length]; rewrite R.
    + rewrite E at 1. apply popcount_succ_double.
    + rewrite E at 1. rewrite N.add_0_r. apply popcount_double.
Qed.

(* ------------------------------------------------------------------ *)
(* 2. the mailbox side: the men of a colour are its queens, rooks, bishops, knights and pawns *)

Definition b2n (b : bool) : nat := if b then 1 else 0.

Lemma filter_len5 {A} (f g1 g2 g3 g4 g5 : A -> bool) (l : list A) :
  (forall x, b2n (f x) = b2n (g1 x) + b2n (g2 x) + b2n (g3 x) + b2n (g4 x) + b2n (g5 x)) ->
  List.length (filter f l)
  = List.length (filter g1 l) + List.length (filter g2 l) + List.length (filter g3 l)
    + List.length (filter g4 l) + List.length (filter g5 l).
Proof.
  intros H. induction l as [|a l IH]; cbn [filter List.length]; [reflexivity|].
  specialize (H a).
  destruct (f a), (g1 a), (g2 a), (g3 a), (g4 a), (g5 a); cbn [b2n] in H; cbn [List.length]; lia.
Qed.

Lemma men_sum c col :
  men c col = count_piece c (Queen, col) + count_piece c (Rook, col) + count_piece c (Bishop, col)
              + count_piece c (Knight, col) + count_piece c (Pawn, col).
Proof.
  unfold men, count_piece. apply filter_len5. intros s. unfold has_piece.
  destruct (at_ c s) as [[[] []]|]; destruct col; reflexivity.
Qed.

Lemma has_piece_iff c k n : has_piece c k n = true <-> at_ c n = Some k.
Proof.
  unfold has_piece. destruct (at_ c n) as [x|]; [|split; discriminate].
  destruct (kind_eqb_spec x k) as [->|Hne]; split; try reflexivity; try discriminate.
  intros E. injection E as E. contradiction.
Qed.

Lemma occupied_false_iff c n : occupied c n = false <-> at_ c n = None.
Proof. unfold occupied. destruct (at_ c n); split; try reflexivity; discriminate. Qed.

(* the three shape conditions, as the propositions RulesProofsB uses *)
Lemma rights_valid_iff p : rights_valid p = true <-> RulesProofsB.rc_pos (cells p) (rights p).
Proof.
  unfold rights_valid, RulesProofsB.rc_pos. cbv zeta.
  set (c := cells p). set (r := rights p). split.
  - intros H k Hk.
    apply andb_true_iff in H; destruct H as [H H4].
    apply andb_true_iff in H; destruct H as [H H3].
    apply andb_true_iff in H; destruct H as [H1 H2].
    destruct k; cbn [get_right RulesProofsB.rhome RulesProofsB.rcorner RulesProofsB.rcol] in *;
      rewrite Hk in *;
      [apply andb_true_iff in H1; destruct H1 as [X Y]
      |apply andb_true_iff in H2; destruct H2 as [X Y]
      |apply andb_true_iff in H3; destruct H3 as [X Y]
      |apply andb_true_iff in H4; destruct H4 as [X Y]];
      apply has_piece_iff in X; apply has_piece_iff in Y; split; assumption.
  - intros RC.
    assert (G : forall k, (if get_right r k
                           then has_piece c (King, RulesProofsB.rcol k) (RulesProofsB.rhome k)
                                && has_piece c (Rook, RulesProofsB.rcol k) (RulesProofsB.rcorner k)
                           else true) = true).
    { intros k. destruct (get_right r k) eqn:E; [|reflexivity].
      destruct (RC k E) as [X Y]. apply has_piece_iff in X. apply has_piece_iff in Y.
      rewrite X, Y. reflexivity. }
    pose proof (G WK) as G1. pose proof (G WQ) as G2. pose proof (G BK) as G3. pose proof (G BQ) as G4.
    cbn [get_right RulesProofsB.rhome RulesProofsB.rcorner RulesProofsB.rcol] in G1, G2, G3, G4.
    rewrite G1, G2, G3, G4. reflexivity.
Qed.

Lemma ep_valid_iff p : ep_valid p = true <-> RulesProofsB.ep_ok_pos (cells p) (side p) (ep p).
Proof.
  unfold ep_valid, RulesProofsB.ep_ok_pos. destruct (ep p) as [f|]; [|tauto].
  destruct (Nat.ltb_spec f 8) as [Hf|Hf]; [|split; [discriminate|intros [X _]; lia]].
  cbn [andb].
  destruct (side p); rewrite !andb_true_iff, !negb_true_iff, has_piece_iff, !occupied_false_iff; tauto.
Qed.

Lemma no_pawn_iff c : no_pawn_on_ends c = true <-> RulesProofsB.npbr_pos c.
Proof.
  unfold no_pawn_on_ends, RulesProofsB.npbr_pos. rewrite forallb_forall. split.
  - intros H n Hn Hr. apply (H n). apply RulesProofsB.back_In. split; assumption.
  - intros H n Hin. apply RulesProofsB.back_In in Hin. destruct Hin as [Hn Hr].
    exact (H n Hn Hr).
Qed.

(* what valid_pos says *)
Lemma valid_pos_facts p : valid_pos p = true <->
  List.length (cells p) = 64
  /\ count_piece (cells p) (King, White) <= 1 /\ count_piece (cells p) (King, Black) <= 1
  /\ rights_valid p = true /\ ep_valid p = true /\ no_pawn_on_ends (cells p) = true
  /\ in_check (cells p) (opposite (side p)) = false
  /\ (Rules.halfmove p < 65536)%N /\ (Rules.fullmove p < 65536)%N
  /\ men (cells p) White <= 16 /\ men (cells p) Black <= 16.
Proof.
  unfold valid_pos. rewrite !andb_true_iff, Nat.eqb_eq, !Nat.leb_le, negb_true_iff, !N.ltb_lt. split.
  - intros [[[[[[[[[[H1 H2] H3] H4] H5] H6] H7] H8] H9] H10] H11]. repeat apply conj; assumption.
  - intros (H1 & H2 & H3 & H4 & H5 & H6 & H7 & H8 & H9 & H10 & H11). repeat apply conj; assumption.
Qed.

(* ------------------------------------------------------------------ *)
(* 3. the bitboards against the mailbox *)

Lemma count_piece_abs b k : pbb_wf (bbs b) = true ->
  popcount (bb_get (bbs b) k) = count_piece (cells (abs b)) k.
Proof.
  intros W. rewrite (popcount_filter 64) by exact (bb_get_lt b k W).
  unfold count_piece. f_equal. apply filter_ext_in. intros n Hn. apply in_seq in Hn.
  apply has_piece_abs; [exact W|lia].
Qed.

Lemma material_abs b col : pbb_wf (bbs b) = true ->
  material_count (bbs b) col = men (cells (abs b)) col.
Proof.
  intros W. unfold material_count. rewrite !(count_piece_abs b _ W). symmetry. apply men_sum.
Qed.

Lemma kings_bridge b : pbb_wf (bbs b) = true ->
  kings_ok b = Nat.leb (count_piece (cells (abs b)) (King, White)) 1
               && Nat.leb (count_piece (cells (abs b)) (King, Black)) 1.
Proof.
  intros W. unfold kings_ok.
  change (white_king (bbs b)) with (bb_get (bbs b) (King, White)).
  change (black_king (bbs b)) with (bb_get (bbs b) (King, Black)).
  rewrite !(count_piece_abs b _ W). reflexivity.
Qed.

Lemma material_bridge b : pbb_wf (bbs b) = true ->
  material_bounded b = Nat.leb (men (cells (abs b)) White) 16 && Nat.leb (men (cells (abs b)) Black) 16.
Proof. intros W. unfold material_bounded. rewrite !(material_abs b _ W). reflexivity. Qed.

Lemma rights_bridge b : rights_consistent b = true <-> rights_valid (abs b) = true.
Proof. rewrite RulesProofsB.rc_iff, rights_valid_iff. reflexivity. Qed.

Lemma ep_bridge b : ep_target_ok b = true <-> ep_valid (abs b) = true.
Proof. rewrite RulesProofsB.ep_ok_iff, ep_valid_iff. reflexivity. Qed.

Lemma no_pawn_bridge b : pbb_wf (bbs b) = true ->
  (no_pawn_on_back_ranks b = true <-> no_pawn_on_ends (cells (abs b)) = true).
Proof. intros W. rewrite (RulesProofsB.npbr_iff b W), no_pawn_iff. reflexivity. Qed.

(* ------------------------------------------------------------------ *)
(* 4. chess_inv is valid_pos of the abstraction *)

Theorem valid_iff_chess_inv : forall b,
  wfb b = true -> (chess_inv b <-> valid_pos (abs b) = true).
Proof.
  intros b Wb. destruct (wfb_facts b Wb) as (_ & _ & Hfm & _ & Hhm).
  pose proof (RulesProofsB.wfb_pbb b Wb) as W.
  rewrite valid_pos_facts. unfold chess_inv. split.
  - intros [WR MB].
    destruct (RulesProofsB.wf_rules_facts b WR) as (_ & RC & EP & NP & CK & KO).
    rewrite (kings_bridge b W) in KO. apply andb_true_iff in KO. destruct KO as [K1 K2].
    rewrite (material_bridge b W) in MB. apply andb_true_iff in MB. destruct MB as [M1 M2].
    apply Nat.leb_le in K1, K2, M1, M2.
    rewrite (in_check_spec b _ W) in CK.
    split; [apply cells_abs_length|]. split; [exact K1|]. split; [exact K2|].
    split; [apply rights_bridge; exact RC|]. split; [apply ep_bridge; exact EP|].
    split; [apply (no_pawn_bridge b W); exact NP|]. split; [exact CK|].
    split; [exact Hhm|]. split; [exact Hfm|]. split; assumption.
  - intros (_ & K1 & K2 & RV & EV & NE & IC & _ & _ & M1 & M2).
    apply Nat.leb_le in K1, K2, M1, M2. split.
    + unfold wf_rules, wf_full.
      rewrite Wb, (proj2 (rights_bridge b) RV), (proj2 (ep_bridge b) EV), (proj2 (no_pawn_bridge b W) NE).
      rewrite (in_check_spec b _ W). change (current_turn b) with (side (abs b)). rewrite IC.
      rewrite (kings_bridge b W), K1, K2. reflexivity.
    + rewrite (material_bridge b W), M1, M2. reflexivity.
Qed.

(* ------------------------------------------------------------------ *)
(* 5. a FEN of a valid position is loaded into a board satisfying every hypothesis *)

Theorem valid_fen_loads : forall s p,
  SpecFen.parse s = Some p -> valid_pos p = true ->
  exists b, from_fen s = Some b /\ abs b = p /\ chess_inv b.
Proof.
  intros s p HP HV.
  destruct (fen_parse_agrees s p HP) as (b & F & A & W & _ & EC & _).
  exists b. split; [exact F|]. split; [exact A|].
  assert (Hh : match history b with [] => false | _ => true end = true).
  { clear - F. unfold from_fen, from_fen_fields in F.
    destruct (split_ws s) as [|f0 [|f1 [|f2 [|f3 rest]]]]; try discriminate F.
    destruct (placement f0 0 acc_empty) as [a|]; [|discriminate F].
    destruct (fen_turn f1) as [turn|]; [|discriminate F].
    destruct (fen_rights f2 (mkRights false false false false)) as [r|]; [|discriminate F].
    destruct (fen_ep f3) as [e|]; [|discriminate F].
    destruct (parse_u16 (nth 0 rest "0"%string)) as [hm|]; [|discriminate F].
    destruct (parse_u16 (nth 1 rest "1"%string)) as [fm|]; [|discriminate F].
    injection F as <-. cbn [history with_key with_bbs_key]. reflexivity. }
  assert (Wb : wfb b = true).
  { apply valid_pos_facts in HV. destruct HV as (_ & _ & _ & _ & _ & _ & _ & H1 & H2 & _).
    rewrite <- A in H1, H2. cbn [abs Rules.halfmove Rules.fullmove] in H1, H2. unfold halfmove_clock in H1.
    apply N.ltb_lt in H1, H2.
    unfold wfb. rewrite W, EC, H2, Hh, H1. reflexivity. }
  apply (valid_iff_chess_inv b Wb). rewrite A. exact HV.
Qed.

(* ------------------------------------------------------------------ *)
(* 6. validity is preserved by every legal move of the rules *)

Lemma valid_describable p : valid_pos p = true -> describable p.
Proof.
  intros HV. apply valid_pos_facts in HV.
  destruct HV as (L & _ & _ & _ & EV & _ & _ & H1 & H2 & _).
  unfold describable. split; [exact L|]. split; [|split; lia].
  unfold ep_valid in EV. destruct (ep p) as [f|]; [|exact I].
  apply andb_true_iff in EV. destruct EV as [EV _]. apply Nat.ltb_lt. exact EV.
Qed.

Theorem valid_preserved : forall p m,
  valid_pos p = true -> In m (Rules.legal_moves p) ->
  (Rules.halfmove p < 65535)%N -> (Rules.fullmove p < 65535)%N ->
  valid_pos (Rules.apply p m) = true.
Proof.
  intros p m HV Hin Lh Lf.
  destruct (valid_fen_loads _ p (print_parse p (valid_describable p HV)) HV) as (b & _ & A & Inv).
  pose proof Inv as [WR _]. subst p.
  rewrite abs_fullmove in Lf. rewrite abs_halfmove in Lh.
  apply (legal_spec b WR Lf Lh) in Hin. apply in_map_iff in Hin. destruct Hin as [pm [Em Hpm]].
  pose proof (step_refines b pm WR Hpm Lf Lh) as Hstep. rewrite Em in Hstep.
  destruct (legal_in_all b pm Hpm) as [Hall Hlegal].
  pose proof (chess_inv_make b pm Inv Hall Hlegal) as Inv'.
  rewrite <- Hstep. apply valid_iff_chess_inv; [|exact Inv'].
  destruct Inv' as [WR' _]. destruct (RulesProofsB.wf_rules_facts _ WR') as [Wb' _]. exact Wb'.
Qed.

(* ------------------------------------------------------------------ *)
(* 7. end to end from a valid position given as a FEN *)

Theorem e2e_fen_position_then_go :
  forall (sess : Session) (fen : string) (p0 : Rules.Pos) (ms : list string) (q : Rules.Pos),
    SpecFen.parse fen = Some p0 -> valid_pos p0 = true ->
    (Rules.halfmove p0 + N.of_nat (List.length ms) < 65535)%N ->
    (Rules.fullmove p0 + N.of_nat (List.length ms) < 65535)%N ->
    rules_play_p p0 ms = Some q ->
    exists sess',
      execute sess (CPosition (FenPos fen) (Some ms)) = Ok sess'
      /\ abs (s_board sess') = q
      /\ forall (l : GoLimits) (lim : Limits) (clock : nat -> N) (ext_stop : nat -> bool) (tt_on : bool)
                (s0 : CSt) (D : option nat),
           best_move Ply s0 = None -> best_score Ply s0 = None ->
           (forall k e, PositiveMap.find k (tt Ply s0) = Some e -> (-32768 < e_score Ply e <= 32767)%Z) ->
           Rules.legal_moves q <> [] ->
           exists infos m,
             snd (c_search lim clock ext_stop tt_on s0 (s_board sess') D) = infos ++ [Bestmove Ply m]
             /\ (forall o, In o infos -> match o with Bestmove _ _ => true | _ => false end = false)
             /\ In (move_of m) (Rules.legal_moves q).
Proof.
  intros sess fen p0 ms q HP HV Lh Lf HR.
  destruct (valid_fen_loads fen p0 HP HV) as (b0 & F & A & Inv). subst p0.
  rewrite abs_fullmove in Lf. rewrite abs_halfmove in Lh.
  destruct (game_simulates ms b0 q Inv Lf Lh HR) as (b' & Hplay & Habs & Inv' & Lf' & Lh').
  destruct (position_accept sess (FenPos fen) (Some ms) b0 b' F Hplay) as (sess' & Hexec & Hboard & _).
  exists sess'. split; [exact Hexec|]. rewrite Hboard. split; [exact Habs|].
  intros l lim clock ext_stop tt_on s0 D Hbm Hbs Htt Hne.
  pose proof Inv' as [Wf' _].
  assert (Hne' : get_legal_moves b' <> []).
  { intros E. destruct (Rules.legal_moves q) as [|m0 r0] eqn:EQ; [apply Hne; reflexivity|].
    assert (Hin : In m0 (Rules.legal_moves (abs b'))). { rewrite Habs, EQ. left. reflexivity. }
    apply (legal_spec b' Wf' Lf' Lh') in Hin. rewrite E in Hin. destruct Hin. }
  destruct (chess_answers lim clock ext_stop tt_on s0 b' D Inv' Hbm Hbs Htt Hne')
    as (infos & m & Hout & Hinfos & Hm).
  exists infos, m. split; [exact Hout|]. split; [exact Hinfos|].
  rewrite <- Habs. apply (legal_spec b' Wf' Lf' Lh'). apply in_map. exact Hm.
Qed.
