(* RulesProofs.v — the final composition for C01 and C03: the C01 side (RulesProofsA) is
   re-exported, and the C03 side (RulesProofsB, stated under Section hypotheses) is instantiated
   with it. *)
From Coq Require Import NArith List Bool.
Import ListNotations.
From RCE Require Import lib.Bits lib.Geometry model.Board model.Movegen model.Wf model.WfFull model.Abs model.Play
  spec.Rules.
From RCE Require Export proofs.RulesProofsA.
From RCE Require proofs.ApplyProofs proofs.RulesProofsB.

(* well-formedness is preserved by every legal move *)
Theorem wf_rules_step : forall b m,
  wf_rules b = true -> In m (get_legal_moves b) -> wf_rules (make_move b m) = true.
Proof.
  exact (RulesProofsB.wf_rules_step generated_moves_ok cells_step kings_ok_unique pseudo_in_rules).
Qed.

(* games of any length *)
Theorem game_refines : forall ms b,
  wf_rules b = true -> legal_game b ms ->
  (Board.fullmove b + N.of_nat (length ms) < 65535)%N -> (halfmove_clock b + N.of_nat (length ms) < 65535)%N ->
  abs (play_plies b ms) = fold_left apply (map move_of ms) (abs b) /\ wf_rules (play_plies b ms) = true.
Proof.
  exact (RulesProofsB.game_refines generated_moves_ok step_refines cells_step kings_ok_unique pseudo_in_rules).
Qed.

Theorem remembers_positions : forall ms b,
  pos_hist (play_plies b ms) = rev (keys_along b ms) ++ pos_hist b.
Proof. exact RulesProofsB.remembers_positions. Qed.

Theorem rights_monotone : forall p m k,
  get_right (rights (apply p m)) k = true -> get_right (rights p) k = true.
Proof. exact ApplyProofs.rights_monotone. Qed.

Theorem ep_iff_double_push : forall p m,
  (exists f, ep (apply p m) = Some f) <-> is_double_push (cells p) m = true.
Proof. exact ApplyProofs.ep_iff_double_push. Qed.
