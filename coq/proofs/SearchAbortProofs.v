(* SearchAbortProofs.v — proofs of C13 (an interrupted search writes nothing to the cache after
   the node budget is hit or the flag is cleared) and C09 (whatever the limits, the clock and the
   stop oracle, the search answers with info lines followed by exactly one legal bestmove). *)
From Coq Require Import NArith ZArith List Lia Bool FMapPositive Permutation.
Import ListNotations.
From RCE Require Import model.Search proofs.SearchProofs.
Open Scope Z_scope.

(* ------------------------------------------------------------------ *)
(* the local loops of the model as top-level functions, any limits      *)
(* ------------------------------------------------------------------ *)
Section General.
  Variables pos mv : Type.
  Variable moves : pos -> list mv.
  Variable legal : pos -> mv -> bool.
  Variable make : pos -> mv -> pos.
  Variable in_check : pos -> bool.
  Variable evalf : pos -> Z.
  Variable is_cap is_promo : mv -> bool.
  Variable cap_score : mv -> N.
  Variable mv_eqb : mv -> mv -> bool.
  Variable key : pos -> N.
  Variable halfmove : pos -> N.
  Variable repeated : pos -> bool.
  Variable default_mv : mv.
  Variable lim : Limits.
  Variable clock : nat -> N.
  Variable ext_stop : nat -> bool.
  Variable tt_on : bool.

  Local Notation State := (St mv).
  Local Notation abt := (aborted mv lim clock ext_stop).
  Local Notation qs := (quiescence pos mv moves legal make evalf is_cap is_promo cap_score mv_eqb key
                                   lim clock ext_stop).
  Local Notation ab := (alpha_beta pos mv moves legal make in_check evalf is_cap is_promo cap_score mv_eqb key
                                   halfmove repeated default_mv lim clock ext_stop tt_on).
  Local Notation start := (alpha_beta_start pos mv moves legal make in_check evalf is_cap is_promo cap_score
                                   mv_eqb key halfmove repeated default_mv lim clock ext_stop tt_on).
  Local Notation order := (order_moves pos mv is_cap is_promo cap_score mv_eqb key).
  Local Notation tins := (tt_insert mv ext_stop).
  Local Notation skill := (store_killers mv is_cap is_promo mv_eqb).
  Local Notation cscore := (child_score pos mv).

  Definition qloop (rec : State -> pos -> Z -> Z -> Z * State) (p : pos) (beta : Z) (ply : nat) :=
    fix loop (ms : list mv) (s : State) (alpha : Z) : Z * State :=
      match ms with
      | [] => (alpha, s)
      | m :: t =>
        if negb (legal p m) then loop t s alpha
        else
          let s := enter_node mv s (S ply) true in
          let (r, s) := rec s (make p m) (sneg beta) (sneg alpha) in
          let sc := sneg r in
          if sc >=? beta then (beta, s)
          else loop t s (if sc >? alpha then sc else alpha)
      end.

  Definition abloop (rec : State -> pos -> Z -> Z -> State * Z) (p : pos) (alpha_start beta : Z)
             (depth ply : nat) :=
    fix loop (ms : list mv) (s : State) (alpha : Z) (best : mv) (pvs : bool) (cnt : nat) : Z * State :=
      match ms with
      | [] => match cnt with
              | O => ((if in_check p then SCORE_MIN + Z.of_nat ply else 0), s)
              | _ => (alpha, tins s (key p)
                                  (mkE mv alpha depth (if alpha <=? alpha_start then Upper else Exact) best))
              end
      | m :: t =>
        if negb (legal p m) then loop t s alpha best pvs cnt
        else
          let s := enter_node mv s (S ply) true in
          let (s, sc) := cscore rec s (make p m) alpha beta pvs in
          let (ab0, s) := abt s ply in
          if ab0 then (0, s)
          else if sc >=? beta then (beta, skill (tins s (key p) (mkE mv sc depth Lower m)) ply m)
          else if sc >? alpha then loop t s sc m true (S cnt)
          else loop t s alpha best pvs (S cnt)
      end.

  Definition rootloop (rec : State -> pos -> Z -> Z -> State * Z) (p : pos) (depth : nat) :=
    fix loop (ms : list mv) (s : State) (alpha : Z) (best : mv) (pvs : bool) (cnt : nat) : State :=
      match ms with
      | [] => match cnt with
              | O => s
              | _ => let (ab0, s) := abt s 0 in
                     if ab0 then s
                     else set_best mv (tins s (key p) (mkE mv alpha depth Exact best)) (Some best) (Some alpha)
              end
      | m :: t =>
        if negb (legal p m) then loop t s alpha best pvs cnt
        else
          let s := enter_node mv s 1 false in
          let (s, sc) := cscore rec s (make p m) alpha SCORE_MAX pvs in
          let (ab0, s) := abt s 0 in
          if ab0 then
            match best_score mv s with
            | Some bs => if alpha >? bs then set_best mv s (Some best) (Some alpha) else s
            | None => s
            end
          else if sc >? alpha then loop t s sc m true (S cnt)
          else loop t s alpha best pvs (S cnt)
      end.

  Definition qrec (f : nat) (ply : nat) : State -> pos -> Z -> Z -> Z * State :=
    fun s c a b => qs f s c a b (S ply).
  Definition abrec (f : nat) (dm1 ply : nat) : State -> pos -> Z -> Z -> State * Z :=
    fun s c a b => let (r, s') := ab f s c a b dm1 (S ply) in (s', r).

  Lemma gqs_S f s p a b ply :
    qs (S f) s p a b ply =
    let (ab0, s1) := abt s ply in
    if ab0 then (0, s1)
    else if evalf p >=? b then (b, s1)
    else qloop (qrec f ply) p b ply (order s1 p ply (filter is_cap (moves p))) s1
               (if evalf p >? a then evalf p else a).
  Proof. reflexivity. Qed.

  Lemma gab_S f s p a b d ply :
    ab (S f) s p a b d ply =
    let (ab0, s1) := abt s ply in
    if ab0 then (0, s1)
    else if N.leb 100 (halfmove p) then (0, s1)
    else if repeated p then (0, s1)
    else
      let s2 := if tt_on then s1 else set_tt mv s1 (PositiveMap.empty _) in
      match probe pos mv key s2 p d a b with
      | (Some v, _, _) => (v, s2)
      | (None, alpha0, beta) =>
        let depth := if in_check p then S d else d in
        match depth with
        | O => qs f s2 p alpha0 beta ply
        | S dm1 =>
          abloop (abrec f dm1 ply) p a beta depth ply (order s2 p ply (moves p)) s2 alpha0
                 (match moves p with m :: _ => m | [] => default_mv end) false O
        end
      end.
  Proof. reflexivity. Qed.

  Lemma gstart_eq s p d :
    start s p d =
    match moves p with
    | [] => s
    | m0 :: _ => rootloop (abrec FUEL (pred d) 0) p d (order s p 0%nat (moves p)) s SCORE_MIN m0 false O
    end.
  Proof. reflexivity. Qed.
End General.

(* ------------------------------------------------------------------ *)
(* C13: node budget only, no external stop                              *)
(* ------------------------------------------------------------------ *)
Section Budget.
  Variables pos mv : Type.
  Variable moves : pos -> list mv.
  Variable legal : pos -> mv -> bool.
  Variable make : pos -> mv -> pos.
  Variable in_check : pos -> bool.
  Variable evalf : pos -> Z.
  Variable is_cap is_promo : mv -> bool.
  Variable cap_score : mv -> N.
  Variable mv_eqb : mv -> mv -> bool.
  Variable key : pos -> N.
  Variable halfmove : pos -> N.
  Variable repeated : pos -> bool.
  Variable default_mv : mv.
  Variable clock : nat -> N.
  Variable tt_on : bool.
  Variable n : N.

  Local Notation blim := (mkLimits (Some n) None false 0).
  Local Notation never := (fun _ : nat => false).
  Local Notation State := (St mv).
  Local Notation run_ := (running mv).
  Local Notation trc := (trace mv).
  Local Notation abt := (aborted mv blim clock never).
  Local Notation qs := (quiescence pos mv moves legal make evalf is_cap is_promo cap_score mv_eqb key
                                   blim clock never).
  Local Notation ab := (alpha_beta pos mv moves legal make in_check evalf is_cap is_promo cap_score mv_eqb key
                                   halfmove repeated default_mv blim clock never tt_on).
  Local Notation start := (alpha_beta_start pos mv moves legal make in_check evalf is_cap is_promo cap_score
                                   mv_eqb key halfmove repeated default_mv blim clock never tt_on).
  Local Notation iter := (iter_loop pos mv moves legal make in_check evalf is_cap is_promo cap_score mv_eqb key
                                   halfmove repeated default_mv blim clock never tt_on).
  Local Notation srch := (search pos mv moves legal make in_check evalf is_cap is_promo cap_score mv_eqb key
                                   halfmove repeated default_mv blim clock never tt_on).
  Local Notation order := (order_moves pos mv is_cap is_promo cap_score mv_eqb key).
  Local Notation tins := (tt_insert mv never).
  Local Notation skill := (store_killers mv is_cap is_promo mv_eqb).
  Local Notation cscore := (child_score pos mv).
  Local Notation qlp := (qloop pos mv legal make).
  Local Notation ablp := (abloop pos mv legal make in_check is_cap is_promo mv_eqb key blim clock never).
  Local Notation rootlp := (rootloop pos mv legal make key blim clock never).
  Local Notation q_rec := (qrec pos mv moves legal make evalf is_cap is_promo cap_score mv_eqb key
                                blim clock never).
  Local Notation ab_rec := (abrec pos mv moves legal make in_check evalf is_cap is_promo cap_score mv_eqb key
                                  halfmove repeated default_mv blim clock never tt_on).

  Lemma babt_eq (s : State) ply :
    abt s ply =
    if negb (run_ s) then (true, tick_load mv s)
    else if Nat.eqb ply 255 then (true, tick_load mv s)
    else if N.leb n (nodes mv s) then (true, set_running mv (tick_load mv s) false)
    else (false, tick_read mv (tick_load mv s)).
  Proof.
    unfold aborted, is_running, flag_now, limits_exceeded, PLY_MAX.
    cbn [l_nodes l_movetime l_any_clock l_timer negb nodes tick_load].
    destruct (run_ s); cbn [andb negb]; [|reflexivity].
    destruct (Nat.eqb ply 255); [reflexivity|].
    destruct (N.leb n (nodes mv s)); reflexivity.
  Qed.

  Lemma babt_false (s s1 : State) ply : abt s ply = (false, s1) ->
    run_ s = true /\ (nodes mv s < n)%N /\ s1 = tick_read mv (tick_load mv s).
  Proof.
    rewrite babt_eq. destruct (run_ s); cbn [negb]; [|discriminate].
    destruct (Nat.eqb ply 255); [discriminate|].
    destruct (N.leb n (nodes mv s)) eqn:E; [discriminate|].
    apply N.leb_gt in E. intros H. inversion H. repeat split. exact E.
  Qed.

  Lemma babt_trace (s : State) ply : trc (snd (abt s ply)) = trc s.
  Proof.
    rewrite babt_eq. destruct (negb (run_ s)); [reflexivity|].
    destruct (Nat.eqb ply 255); [reflexivity|].
    destruct (N.leb n (nodes mv s)); reflexivity.
  Qed.

  Lemma trace_skill (s : State) ply m : trc (skill s ply m) = trc s.
  Proof.
    unfold store_killers. destruct (is_cap m || is_promo m); [reflexivity|].
    destruct (okill_eqb mv mv_eqb m _); reflexivity.
  Qed.

  (* l' extends l by writes that are all below the budget with the flag set *)
  Definition E (l l' : list (WriteEv mv)) : Prop :=
    exists new, l' = new ++ l /\ forall k e c f, In (k, e, c, f) new -> (c < n)%N /\ f = true.

  Lemma E_refl l : E l l.
  Proof. exists []. split; [reflexivity|]. intros k e c f []. Qed.

  Lemma E_trans l1 l2 l3 : E l1 l2 -> E l2 l3 -> E l1 l3.
  Proof.
    intros [n1 [H1 G1]] [n2 [H2 G2]]. exists (n2 ++ n1). split.
    - rewrite H2, H1. apply app_assoc.
    - intros k e c f H. apply in_app_or in H. destruct H; [eapply G2 | eapply G1]; eassumption.
  Qed.

  Lemma E_tins (s : State) k e : run_ s = true -> (nodes mv s < n)%N -> E (trc s) (trc (tins s k e)).
  Proof.
    intros Hr Hn. exists [(k, e, nodes mv s, flag_now mv never s)]. split; [reflexivity|].
    intros k' e' c f [H|[]]. inversion H; subst. split; [exact Hn|].
    unfold flag_now. rewrite Hr. reflexivity.
  Qed.

  (* quiescence writes nothing *)
  Lemma qlp_trace rec p beta ply :
    (forall s c a b, trc (snd (rec s c a b)) = trc s) ->
    forall ms s alpha, trc (snd (qlp rec p beta ply ms s alpha)) = trc s.
  Proof.
    intros Hrec. induction ms as [|m t IH]; intros s alpha; cbn [qloop]; [reflexivity|].
    destruct (negb (legal p m)); [apply IH|]. cbv zeta.
    pose proof (Hrec (enter_node mv s (S ply) true) (make p m) (sneg beta) (sneg alpha)) as H1.
    destruct (rec _ _ _ _) as [r s1]. cbn [snd] in H1.
    destruct (sneg r >=? beta); [exact H1|].
    rewrite IH. exact H1.
  Qed.

  Lemma qs_trace : forall f s p a b ply, trc (snd (qs f s p a b ply)) = trc s.
  Proof.
    induction f as [|f IH]; intros s p a b ply; [reflexivity|].
    rewrite gqs_S. pose proof (babt_trace s ply) as HA.
    destruct (abt s ply) as [b0 s1]. cbn [snd] in HA.
    destruct b0; [exact HA|].
    destruct (evalf p >=? b); [exact HA|].
    rewrite qlp_trace; [exact HA|].
    intros s' c a' b'. unfold qrec. apply IH.
  Qed.

  Definition keepsE (rec : State -> pos -> Z -> Z -> State * Z) : Prop :=
    forall s c a b, E (trc s) (trc (fst (rec s c a b))).

  Lemma cscore_E rec s c alpha beta pvs : keepsE rec ->
    E (trc s) (trc (fst (cscore rec s c alpha beta pvs))).
  Proof.
    intros Hrec. unfold child_score. destruct pvs.
    - pose proof (Hrec s c (sneg alpha - 1) (sneg alpha)) as H1.
      destruct (rec s c (sneg alpha - 1) (sneg alpha)) as [s1 r1]. cbn [fst] in H1.
      destruct ((alpha <? sneg r1) && (sneg r1 <? beta)); [|exact H1].
      pose proof (Hrec s1 c (sneg beta) (sneg alpha)) as H2.
      destruct (rec s1 c (sneg beta) (sneg alpha)) as [s2 r2]. cbn [fst] in H2 |- *.
      eapply E_trans; eassumption.
    - pose proof (Hrec s c (sneg beta) (sneg alpha)) as H1.
      destruct (rec s c (sneg beta) (sneg alpha)) as [s1 r1]. exact H1.
  Qed.

  Lemma ablp_E rec p a0 beta depth ply : keepsE rec ->
    forall ms s alpha best pvs cnt, run_ s = true -> (nodes mv s < n)%N ->
      E (trc s) (trc (snd (ablp rec p a0 beta depth ply ms s alpha best pvs cnt))).
  Proof.
    intros Hrec. induction ms as [|m t IH]; intros s alpha best pvs cnt Hr Hn; cbn [abloop].
    - destruct cnt; cbn [snd]; [apply E_refl|]. apply E_tins; assumption.
    - destruct (negb (legal p m)); [apply IH; assumption|]. cbv zeta.
      pose proof (cscore_E rec (enter_node mv s (S ply) true) (make p m) alpha beta pvs Hrec) as H1.
      destruct (cscore rec _ _ _ _ _) as [s1 sc]. cbn [fst] in H1.
      change (trc (enter_node mv s (S ply) true)) with (trc s) in H1.
      pose proof (babt_trace s1 ply) as HA.
      destruct (abt s1 ply) as [b0 s2] eqn:A. cbn [snd] in HA.
      destruct b0.
      + cbn [snd]. rewrite HA. exact H1.
      + apply babt_false in A. destruct A as [Hr1 [Hn1 ->]].
        destruct (sc >=? beta).
        * cbn [snd]. rewrite trace_skill.
          eapply E_trans; [exact H1|]. rewrite <- HA. apply E_tins; assumption.
        * destruct (sc >? alpha); (eapply E_trans; [exact H1|]; rewrite <- HA; apply IH; assumption).
  Qed.

  Lemma ab_E : forall f s p a b d ply, E (trc s) (trc (snd (ab f s p a b d ply))).
  Proof.
    induction f as [|f IH]; intros s p a b d ply; [apply E_refl|].
    rewrite gab_S. pose proof (babt_trace s ply) as HA.
    destruct (abt s ply) as [b0 s1] eqn:A. cbn [snd] in HA.
    destruct b0; [cbn [snd]; rewrite HA; apply E_refl|].
    destruct (N.leb 100 (halfmove p)); [cbn [snd]; rewrite HA; apply E_refl|].
    destruct (repeated p); [cbn [snd]; rewrite HA; apply E_refl|].
    apply babt_false in A. destruct A as [Hr [Hn Hs1]].
    cbv zeta.
    set (s2 := if tt_on then s1 else set_tt mv s1 (PositiveMap.empty _)).
    assert (H2 : trc s2 = trc s /\ run_ s2 = true /\ (nodes mv s2 < n)%N).
    { subst s2 s1. destruct tt_on; cbn; repeat split; assumption. }
    destruct H2 as [T2 [R2 N2]]. clearbody s2.
    destruct (probe pos mv key s2 p d a b) as [[[v|] alpha0] beta].
    - cbn [snd]. rewrite T2. apply E_refl.
    - destruct (if in_check p then S d else d) as [|dm1].
      + rewrite qs_trace, T2. apply E_refl.
      + rewrite <- T2. apply ablp_E; [|assumption|assumption].
        intros s' c a' b'. unfold abrec. specialize (IH s' c a' b' dm1 (S ply)).
        destruct (ab f s' c a' b' dm1 (S ply)) as [r s'']. exact IH.
  Qed.

  Lemma ab_rec_E f dm1 ply : keepsE (ab_rec f dm1 ply).
  Proof.
    intros s c a b. unfold abrec. pose proof (ab_E f s c a b dm1 (S ply)) as H.
    destruct (ab f s c a b dm1 (S ply)) as [r s']. exact H.
  Qed.

  Lemma rootlp_E rec p depth : keepsE rec ->
    forall ms s alpha best pvs cnt, E (trc s) (trc (rootlp rec p depth ms s alpha best pvs cnt)).
  Proof.
    intros Hrec. induction ms as [|m t IH]; intros s alpha best pvs cnt; cbn [rootloop].
    - destruct cnt; [apply E_refl|].
      pose proof (babt_trace s 0) as HA.
      destruct (abt s 0) as [b0 s1] eqn:A. cbn [snd] in HA.
      destruct b0; [rewrite HA; apply E_refl|].
      apply babt_false in A. destruct A as [Hr [Hn ->]].
      cbn [trace set_best]. rewrite <- HA. apply E_tins; assumption.
    - destruct (negb (legal p m)); [apply IH|]. cbv zeta.
      pose proof (cscore_E rec (enter_node mv s 1 false) (make p m) alpha SCORE_MAX pvs Hrec) as H1.
      destruct (cscore rec _ _ _ _ _) as [s1 sc]. cbn [fst] in H1.
      change (trc (enter_node mv s 1 false)) with (trc s) in H1.
      pose proof (babt_trace s1 0) as HA.
      destruct (abt s1 0) as [b0 s2]. cbn [snd] in HA.
      destruct b0.
      + destruct (best_score mv s2) as [bs|]; [destruct (alpha >? bs)|];
          cbn [trace set_best]; rewrite HA; exact H1.
      + destruct (sc >? alpha); (eapply E_trans; [exact H1|]; rewrite <- HA; apply IH).
  Qed.

  Lemma start_E s p d : E (trc s) (trc (start s p d)).
  Proof.
    rewrite gstart_eq. destruct (moves p); [apply E_refl|].
    apply rootlp_E, ab_rec_E.
  Qed.

  Lemma iter_E p : forall k d s out, E (trc s) (trc (fst (iter k d s p out))).
  Proof.
    induction k as [|k IH]; intros d s out; cbn [iter_loop]; [apply E_refl|].
    pose proof (start_E s p d) as H1.
    pose proof (babt_trace (start s p d) 0) as HA.
    destruct (abt (start s p d) 0) as [b0 s2]. cbn [snd] in HA.
    destruct b0; cbn [fst].
    - rewrite HA. exact H1.
    - eapply E_trans; [exact H1|]. rewrite <- HA. apply IH.
  Qed.

  Lemma budget_writes : forall (s0 : State) (p : pos) (D : option nat),
    run_ s0 = true ->
    exists new, trc (fst (srch s0 p D)) = new ++ trc s0
                /\ forall k e c f, In (k, e, c, f) new -> (c < n)%N /\ f = true.
  Proof.
    intros s0 p D _. unfold search.
    pose proof (iter_E p (match D with Some d => d | None => 255%nat end) 1%nat s0 []) as H.
    destruct (iter _ 1%nat s0 p []) as [s out]. exact H.
  Qed.

  Lemma over_budget_inert : forall fuel (s : State) p a b d ply,
    (n <= nodes mv s)%N -> run_ s = true ->
    let r := ab fuel s p a b d ply in
    fst r = 0 /\ trc (snd r) = trc s /\ tt mv (snd r) = tt mv s /\ kill mv (snd r) = kill mv s
    /\ nodes mv (snd r) = nodes mv s.
  Proof.
    intros fuel s p a b d ply Hn Hr. cbv zeta.
    destruct fuel as [|f]; [cbn [alpha_beta fst snd]; repeat split|].
    rewrite gab_S, babt_eq, Hr. cbn [negb].
    apply N.leb_le in Hn. rewrite Hn.
    destruct (Nat.eqb ply 255); cbn [fst snd]; repeat split.
  Qed.
End Budget.


(* ------------------------------------------------------------------ *)
(* C09: any limits, any clock, any stop oracle                          *)
(* ------------------------------------------------------------------ *)
Definition inR (x : Z) : Prop := -32768 <= x <= 32767.

Lemma sneg_R x : inR x -> inrange (sneg x).
Proof.
  unfold inR, inrange, sneg, SCORE_MIN, SCORE_MAX. intros H.
  destruct (x =? -32768) eqn:E; [lia | apply Z.eqb_neq in E; lia].
Qed.

Lemma inrange_R x : inrange x -> inR x.
Proof. unfold inR, inrange. lia. Qed.

Section AnswerInv.
  Variables pos mv : Type.
  Variable moves : pos -> list mv.
  Variable legal : pos -> mv -> bool.
  Variable make : pos -> mv -> pos.
  Variable in_check : pos -> bool.
  Variable evalf : pos -> Z.
  Variable is_cap is_promo : mv -> bool.
  Variable cap_score : mv -> N.
  Variable mv_eqb : mv -> mv -> bool.
  Variable key : pos -> N.
  Variable halfmove : pos -> N.
  Variable repeated : pos -> bool.
  Variable default_mv : mv.
  Variable lim : Limits.
  Variable clock : nat -> N.
  Variable ext_stop : nat -> bool.
  Variable tt_on : bool.

  Local Notation State := (St mv).
  Local Notation abt := (aborted mv lim clock ext_stop).
  Local Notation qs := (quiescence pos mv moves legal make evalf is_cap is_promo cap_score mv_eqb key
                                   lim clock ext_stop).
  Local Notation ab := (alpha_beta pos mv moves legal make in_check evalf is_cap is_promo cap_score mv_eqb key
                                   halfmove repeated default_mv lim clock ext_stop tt_on).
  Local Notation start := (alpha_beta_start pos mv moves legal make in_check evalf is_cap is_promo cap_score
                                   mv_eqb key halfmove repeated default_mv lim clock ext_stop tt_on).
  Local Notation iter := (iter_loop pos mv moves legal make in_check evalf is_cap is_promo cap_score mv_eqb key
                                   halfmove repeated default_mv lim clock ext_stop tt_on).
  Local Notation srch := (search pos mv moves legal make in_check evalf is_cap is_promo cap_score mv_eqb key
                                   halfmove repeated default_mv lim clock ext_stop tt_on).
  Local Notation order := (order_moves pos mv is_cap is_promo cap_score mv_eqb key).
  Local Notation tins := (tt_insert mv ext_stop).
  Local Notation skill := (store_killers mv is_cap is_promo mv_eqb).
  Local Notation cscore := (child_score pos mv).
  Local Notation qlp := (qloop pos mv legal make).
  Local Notation ablp := (abloop pos mv legal make in_check is_cap is_promo mv_eqb key lim clock ext_stop).
  Local Notation rootlp := (rootloop pos mv legal make key lim clock ext_stop).
  Local Notation q_rec := (qrec pos mv moves legal make evalf is_cap is_promo cap_score mv_eqb key
                                lim clock ext_stop).
  Local Notation ab_rec := (abrec pos mv moves legal make in_check evalf is_cap is_promo cap_score mv_eqb key
                                  halfmove repeated default_mv lim clock ext_stop tt_on).
  Local Notation is_bm := (fun o : Output mv => match o with Bestmove _ _ => true | _ => false end).

  Lemma search_clears_flag : forall (s0 : State) (p : pos) (D : option nat),
    running mv (fst (srch s0 p D)) = false.
  Proof.
    intros s0 p D. unfold search.
    destruct (iter _ 1%nat s0 p []) as [s out]. reflexivity.
  Qed.

  Variable Inv : pos -> Prop.
  Hypothesis Inv_make : forall p m, Inv p -> In m (moves p) -> legal p m = true -> Inv (make p m).
  Hypothesis Inv_eval : forall p, Inv p -> -32768 < evalf p <= 32767.

  (* ---- frames ---- *)
  Definition fr (s s' : State) : Prop :=
    tt mv s' = tt mv s /\ best_move mv s' = best_move mv s /\ best_score mv s' = best_score mv s.
  Definition ttok (s : State) : Prop :=
    forall k e, PositiveMap.find k (tt mv s) = Some e -> inR (e_score mv e).
  Definition Post (s s' : State) : Prop :=
    ttok s' /\ best_move mv s' = best_move mv s /\ best_score mv s' = best_score mv s.

  Lemma fr_refl s : fr s s.
  Proof. repeat split. Qed.
  Lemma fr_trans s1 s2 s3 : fr s1 s2 -> fr s2 s3 -> fr s1 s3.
  Proof. unfold fr. intros [A [B C]] [A' [B' C']]. repeat split; congruence. Qed.
  Lemma Post_refl s : ttok s -> Post s s.
  Proof. intros H. split; [exact H | split; reflexivity]. Qed.
  Lemma Post_trans s1 s2 s3 : Post s1 s2 -> Post s2 s3 -> Post s1 s3.
  Proof. unfold Post. intros [A [B C]] [A' [B' C']]. split; [assumption | split; congruence]. Qed.
  Lemma Post_fr s1 s2 s3 : Post s1 s2 -> fr s2 s3 -> Post s1 s3.
  Proof.
    unfold Post, fr, ttok. intros [A [B C]] [A' [B' C']]. split; [|split; congruence].
    rewrite A'. exact A.
  Qed.
  Lemma fr_Post s1 s2 : ttok s1 -> fr s1 s2 -> Post s1 s2.
  Proof. intros H F. eapply Post_fr; [apply Post_refl, H | exact F]. Qed.

  Lemma abt_fr (s : State) ply : fr s (snd (abt s ply)).
  Proof.
    unfold aborted, is_running. cbv beta iota.
    destruct (negb (flag_now mv ext_stop s)); [repeat split|].
    unfold limits_exceeded.
    destruct (Nat.eqb ply PLY_MAX); [repeat split|].
    destruct (l_nodes lim) as [nn|].
    - destruct (N.leb nn _); [repeat split|].
      destruct (l_movetime lim) as [mt|]; [destruct (N.leb mt _)|]; repeat split.
    - destruct (l_movetime lim) as [mt|]; [destruct (N.leb mt _)|]; repeat split.
  Qed.

  Lemma abt_ply (s s1 : State) ply : abt s ply = (false, s1) -> Nat.eqb ply 255 = false.
  Proof.
    unfold aborted, is_running. cbv beta iota.
    destruct (negb (flag_now mv ext_stop s)); [discriminate|].
    unfold limits_exceeded, PLY_MAX.
    destruct (Nat.eqb ply 255); [discriminate|reflexivity].
  Qed.

  Lemma skill_fr (s : State) ply m : fr s (skill s ply m).
  Proof.
    unfold store_killers. destruct (is_cap m || is_promo m); [apply fr_refl|].
    destruct (okill_eqb mv mv_eqb m _); repeat split.
  Qed.

  Lemma ttok_tins (s : State) k e : ttok s -> inR (e_score mv e) -> ttok (tins s k e).
  Proof.
    intros H He k' e' F. cbn [tt tt_insert] in F.
    destruct (Pos.eq_dec k' (kpos k)) as [->|Hne].
    - rewrite PositiveMap.gss in F. inversion F; subst. exact He.
    - rewrite PositiveMap.gso in F by exact Hne. eapply H; eassumption.
  Qed.

  Lemma Post_tins (s : State) k e : ttok s -> inR (e_score mv e) -> Post s (tins s k e).
  Proof. intros H He. split; [apply ttok_tins; assumption | split; reflexivity]. Qed.

  Lemma probe_R (s : State) p d a b : ttok s -> inR a -> inR b ->
    match probe pos mv key s p d a b with
    | (Some v, _, _) => inR v
    | (None, a', b') => inR a' /\ inR b'
    end.
  Proof.
    intros H Ha Hb. unfold probe, tt_get.
    destruct (PositiveMap.find (kpos (key p)) (tt mv s)) as [e|] eqn:F; [|split; assumption].
    pose proof (H _ _ F) as He.
    destruct (Nat.leb d (e_depth mv e)); [|split; assumption].
    unfold inR in *.
    destruct (e_bound mv e).
    - exact He.
    - destruct (Z.max a (e_score mv e) >=? b); [exact He|]. lia.
    - destruct (a >=? Z.min b (e_score mv e)); [exact He|]. lia.
  Qed.

  (* ---- quiescence ---- *)
  Definition qok (rec : State -> pos -> Z -> Z -> Z * State) : Prop :=
    forall s c a b, Inv c -> inR a -> inR b -> inR (fst (rec s c a b)) /\ fr s (snd (rec s c a b)).

  Lemma qlp_ok rec p beta ply : qok rec -> Inv p -> inR beta ->
    forall ms s alpha, (forall m, In m ms -> In m (moves p)) -> inR alpha ->
      inR (fst (qlp rec p beta ply ms s alpha)) /\ fr s (snd (qlp rec p beta ply ms s alpha)).
  Proof.
    intros Hrec HI Hb. induction ms as [|m t IH]; intros s alpha Hin Ha; cbn [qloop].
    - split; [exact Ha | apply fr_refl].
    - assert (Hin' : forall m', In m' t -> In m' (moves p)) by (intros m' H'; apply Hin; right; exact H').
      destruct (legal p m) eqn:L; cbn [negb]; [|apply IH; assumption]. cbv zeta.
      destruct (Hrec (enter_node mv s (S ply) true) (make p m) (sneg beta) (sneg alpha)
                     (Inv_make p m HI (Hin m (or_introl eq_refl)) L)
                     (inrange_R _ (sneg_R _ Hb)) (inrange_R _ (sneg_R _ Ha))) as [R1 F1].
      destruct (rec _ _ _ _) as [r s1]. cbn [fst snd] in R1, F1.
      change (fr s s1) in F1.
      destruct (sneg r >=? beta).
      + split; [exact Hb | exact F1].
      + destruct (IH s1 (if sneg r >? alpha then sneg r else alpha) Hin') as [R2 F2].
        { destruct (sneg r >? alpha); [apply inrange_R, sneg_R, R1 | exact Ha]. }
        split; [exact R2 | eapply fr_trans; eassumption].
  Qed.

  Lemma qs_ok : forall f s p a b ply, Inv p -> inR a -> inR b ->
    inR (fst (qs f s p a b ply)) /\ fr s (snd (qs f s p a b ply)).
  Proof.
    induction f as [|f IH]; intros s p a b ply HI Ha Hb.
    - cbn [quiescence fst snd]. split; [unfold inR; lia | apply fr_refl].
    - rewrite gqs_S. pose proof (abt_fr s ply) as FA.
      destruct (abt s ply) as [b0 s1]. cbn [snd] in FA.
      destruct b0; [split; [unfold inR; cbn [fst]; lia | exact FA]|].
      destruct (evalf p >=? b); [split; [exact Hb | exact FA]|].
      match goal with |- context [qloop _ _ _ _ ?r0 ?p0 ?b0 ?ply0 ?ms0 ?s0 ?al0] =>
        destruct (qlp_ok r0 p0 b0 ply0) with (ms := ms0) (s := s0) (alpha := al0) as [R2 F2] end.
      + intros s' c a' b' Hc Ha' Hb'. unfold qrec. apply IH; assumption.
      + exact HI.
      + exact Hb.
      + intros m Hm. apply order_incl in Hm. apply filter_In in Hm. apply Hm.
      + destruct (evalf p >? a); [|exact Ha]. pose proof (Inv_eval p HI). unfold inR. lia.
      + split; [exact R2 | eapply fr_trans; eassumption].
  Qed.

  (* ---- alpha_beta ---- *)
  Definition abok (rec : State -> pos -> Z -> Z -> State * Z) : Prop :=
    forall s c a b, Inv c -> ttok s -> inR a -> inR b ->
      inR (snd (rec s c a b)) /\ Post s (fst (rec s c a b)).

  Lemma cscore_ok rec s c alpha beta pvs : abok rec -> Inv c -> ttok s -> inR alpha -> inR beta ->
    inrange (snd (cscore rec s c alpha beta pvs)) /\ Post s (fst (cscore rec s c alpha beta pvs)).
  Proof.
    intros Hrec Hc Hs Ha Hb. unfold child_score.
    pose proof (sneg_R _ Ha) as Sa. pose proof (sneg_R _ Hb) as Sb.
    destruct pvs.
    - destruct (Hrec s c (sneg alpha - 1) (sneg alpha) Hc Hs) as [R1 P1];
        [unfold inR, inrange in *; lia | apply inrange_R, Sa |].
      destruct (rec s c (sneg alpha - 1) (sneg alpha)) as [s1 r1]. cbn [fst snd] in R1, P1.
      destruct ((alpha <? sneg r1) && (sneg r1 <? beta)).
      + destruct (Hrec s1 c (sneg beta) (sneg alpha) Hc (proj1 P1)) as [R2 P2];
          [apply inrange_R, Sb | apply inrange_R, Sa |].
        destruct (rec s1 c (sneg beta) (sneg alpha)) as [s2 r2]. cbn [fst snd] in R2, P2 |- *.
        split; [apply sneg_R, R2 | eapply Post_trans; eassumption].
      + cbn [fst snd]. split; [apply sneg_R, R1 | exact P1].
    - destruct (Hrec s c (sneg beta) (sneg alpha) Hc Hs) as [R1 P1];
        [apply inrange_R, Sb | apply inrange_R, Sa |].
      destruct (rec s c (sneg beta) (sneg alpha)) as [s1 r1]. cbn [fst snd] in R1, P1 |- *.
      split; [apply sneg_R, R1 | exact P1].
  Qed.

  Lemma ablp_ok rec p a0 beta depth ply : abok rec -> Inv p -> inR beta -> (ply <= 255)%nat ->
    forall ms s alpha best pvs cnt, (forall m, In m ms -> In m (moves p)) -> ttok s -> inR alpha ->
      inR (fst (ablp rec p a0 beta depth ply ms s alpha best pvs cnt))
      /\ Post s (snd (ablp rec p a0 beta depth ply ms s alpha best pvs cnt)).
  Proof.
    intros Hrec HI Hb Hply. induction ms as [|m t IH]; intros s alpha best pvs cnt Hin Hs Ha; cbn [abloop].
    - destruct cnt; cbn [fst snd].
      + split; [|apply Post_refl, Hs]. unfold inR, SCORE_MIN. destruct (in_check p); lia.
      + split; [exact Ha|]. apply Post_tins; [exact Hs | exact Ha].
    - assert (Hin' : forall m', In m' t -> In m' (moves p)) by (intros m' H'; apply Hin; right; exact H').
      destruct (legal p m) eqn:L; cbn [negb]; [|apply IH; assumption]. cbv zeta.
      destruct (cscore_ok rec (enter_node mv s (S ply) true) (make p m) alpha beta pvs Hrec
                          (Inv_make p m HI (Hin m (or_introl eq_refl)) L) Hs Ha Hb)
        as [R1 P1].
      destruct (cscore rec _ _ _ _ _) as [s1 sc]. cbn [fst snd] in R1, P1.
      change (Post s s1) in P1.
      pose proof (abt_fr s1 ply) as FA.
      destruct (abt s1 ply) as [b0 s2]. cbn [snd] in FA.
      pose proof (Post_fr _ _ _ P1 FA) as P2.
      destruct b0; [split; [unfold inR; cbn [fst]; lia | exact P2]|].
      destruct (sc >=? beta).
      + cbn [fst snd]. split; [exact Hb|].
        eapply Post_fr; [|apply skill_fr].
        eapply Post_trans; [exact P2|]. apply Post_tins; [exact (proj1 P2) | apply inrange_R, R1].
      + destruct (sc >? alpha).
        * destruct (IH s2 sc m true (S cnt) Hin' (proj1 P2) (inrange_R _ R1)) as [R3 P3].
          split; [exact R3 | eapply Post_trans; eassumption].
        * destruct (IH s2 alpha best pvs (S cnt) Hin' (proj1 P2) Ha) as [R3 P3].
          split; [exact R3 | eapply Post_trans; eassumption].
  Qed.

  Lemma ab_ok : forall f s p a b d ply, Inv p -> ttok s -> inR a -> inR b -> (ply <= 255)%nat ->
    inR (fst (ab f s p a b d ply)) /\ Post s (snd (ab f s p a b d ply)).
  Proof.
    induction f as [|f IH]; intros s p a b d ply HI Hs Ha Hb Hply.
    - cbn [alpha_beta fst snd]. split; [unfold inR; lia | apply Post_refl, Hs].
    - rewrite gab_S. pose proof (abt_fr s ply) as FA.
      destruct (abt s ply) as [b0 s1] eqn:A. cbn [snd] in FA.
      pose proof (fr_Post _ _ Hs FA) as P1.
      assert (Z0 : inR 0) by (unfold inR; lia).
      destruct b0; [split; [exact Z0 | exact P1]|].
      destruct (N.leb 100 (halfmove p)); [split; [exact Z0 | exact P1]|].
      destruct (repeated p); [split; [exact Z0 | exact P1]|].
      apply abt_ply in A. apply Nat.eqb_neq in A.
      cbv zeta.
      set (s2 := if tt_on then s1 else set_tt mv s1 (PositiveMap.empty _)).
      assert (P2 : Post s s2).
      { subst s2. destruct tt_on; [exact P1|].
        destruct P1 as [_ [B C]]. split; [|split; [exact B | exact C]].
        intros k e F. cbn [tt set_tt] in F. rewrite PositiveMap.gempty in F. discriminate. }
      clearbody s2.
      pose proof (probe_R s2 p d a b (proj1 P2) Ha Hb) as PR.
      destruct (probe pos mv key s2 p d a b) as [[[v|] alpha0] beta].
      + cbn [fst snd]. split; [exact PR | exact P2].
      + destruct PR as [Ha0 Hb0].
        destruct (if in_check p then S d else d) as [|dm1].
        * destruct (qs_ok f s2 p alpha0 beta ply HI Ha0 Hb0) as [R3 F3].
          split; [exact R3 | eapply Post_fr; eassumption].
        * match goal with |- context [abloop _ _ _ _ _ _ _ _ _ _ _ _ ?r0 ?p0 ?a00 ?b0 ?d0 ?ply0 ?ms0 ?s0 ?al0 ?bst ?pv ?c0] =>
            destruct (ablp_ok r0 p0 a00 b0 d0 ply0) with (ms := ms0) (s := s0) (alpha := al0)
                                                      (best := bst) (pvs := pv) (cnt := c0) as [R3 P3] end.
          -- intros s' c a' b' Hc Hs' Ha' Hb'. unfold abrec.
             pose proof (IH s' c a' b' dm1 (S ply) Hc Hs' Ha' Hb' ltac:(lia)) as H.
             destruct (ab f s' c a' b' dm1 (S ply)) as [r s'']. cbn [fst snd] in H |- *.
             split; apply H.
          -- exact HI.
          -- exact Hb0.
          -- exact Hply.
          -- intros m Hm. apply order_incl in Hm. exact Hm.
          -- exact (proj1 P2).
          -- exact Ha0.
          -- split; [exact R3 | eapply Post_trans; eassumption].
  Qed.

  Lemma ab_rec_ok f dm1 : abok (ab_rec f dm1 0).
  Proof.
    intros s c a b Hc Hs Ha Hb. unfold abrec.
    pose proof (ab_ok f s c a b dm1 1 Hc Hs Ha Hb ltac:(lia)) as H.
    destruct (ab f s c a b dm1 1) as [r s']. cbn [fst snd] in H |- *. split; apply H.
  Qed.

  (* ---- the root ---- *)
  Definition Good (p : pos) (s : State) : Prop :=
    ttok s /\ (forall v, best_score mv s = Some v -> -32768 <= v)
    /\ (forall m, best_move mv s = Some m -> In m (moves p) /\ legal p m = true).

  Lemma Good_Post p s s' : Good p s -> Post s s' -> Good p s'.
  Proof.
    intros [A [B C]] [A' [B' C']]. split; [exact A'|]. rewrite B', C'. split; assumption.
  Qed.

  Lemma rootlp_ok rec p depth : abok rec -> Inv p ->
    forall ms s alpha best pvs cnt, (forall m, In m ms -> In m (moves p)) -> Good p s -> inR alpha ->
      ((alpha = -32768 /\ cnt = 0%nat) \/ (In best (moves p) /\ legal p best = true)) ->
      Good p (rootlp rec p depth ms s alpha best pvs cnt).
  Proof.
    intros Hrec HIp. induction ms as [|m t IH]; intros s alpha best pvs cnt Hin Hs Ha HI; cbn [rootloop].
    - destruct cnt; [exact Hs|].
      destruct HI as [[_ H0]|[Hb Hl]]; [discriminate|].
      pose proof (abt_fr s 0) as FA.
      destruct (abt s 0) as [b0 s1]. cbn [snd] in FA.
      pose proof (Good_Post p _ _ Hs (fr_Post _ _ (proj1 Hs) FA)) as G1.
      destruct b0; [exact G1|].
      split; [|split].
      + apply (ttok_tins s1 (key p) (mkE mv alpha depth Exact best) (proj1 G1) Ha).
      + cbn [best_score set_best]. intros v H. inversion H; subst. apply Ha.
      + cbn [best_move set_best]. intros m' H. inversion H; subst. split; assumption.
    - assert (Hin' : forall m', In m' t -> In m' (moves p)) by (intros m' H'; apply Hin; right; exact H').
      destruct (legal p m) eqn:L; cbn [negb]; [|apply IH; assumption].
      cbv zeta.
      assert (Hm : In m (moves p)) by (apply Hin; left; reflexivity).
      destruct (cscore_ok rec (enter_node mv s 1 false) (make p m) alpha SCORE_MAX pvs Hrec
                          (Inv_make p m HIp Hm L) (proj1 Hs) Ha)
        as [R1 P1]; [unfold inR, SCORE_MAX; lia|].
      destruct (cscore rec _ _ _ _ _) as [s1 sc]. cbn [fst snd] in R1, P1.
      change (Post s s1) in P1.
      pose proof (abt_fr s1 0) as FA.
      destruct (abt s1 0) as [b0 s2]. cbn [snd] in FA.
      pose proof (Good_Post p _ _ Hs (Post_fr _ _ _ P1 FA)) as G2.
      destruct b0.
      + destruct (best_score mv s2) as [bs|] eqn:Ebs; [|exact G2].
        destruct (alpha >? bs) eqn:E; [|exact G2].
        rewrite Z.gtb_ltb in E. apply Z.ltb_lt in E.
        pose proof (proj1 (proj2 G2) bs Ebs) as Hbs.
        destruct HI as [[H0 _]|[Hb Hl]]; [lia|].
        split; [|split].
        * exact (proj1 G2).
        * cbn [best_score set_best]. intros v H. inversion H; subst. apply Ha.
        * cbn [best_move set_best]. intros m' H. inversion H; subst. split; assumption.
      + destruct (sc >? alpha) eqn:E; rewrite Z.gtb_ltb in E;
          [apply Z.ltb_lt in E | apply Z.ltb_ge in E].
        * apply IH; [exact Hin' | exact G2 | apply inrange_R, R1 | right; split; assumption].
        * apply IH; [exact Hin' | exact G2 | exact Ha |].
          destruct HI as [[H0 _]|HR]; [unfold inrange in R1; lia | right; exact HR].
  Qed.

  Lemma start_ok s p d : Inv p -> Good p s -> Good p (start s p d).
  Proof.
    intros HI Hs. rewrite gstart_eq. destruct (moves p) as [|m0 t] eqn:Em; [exact Hs|].
    apply rootlp_ok.
    - apply ab_rec_ok.
    - exact HI.
    - intros m Hm. rewrite Em. eapply order_incl. exact Hm.
    - exact Hs.
    - unfold inR, SCORE_MIN; lia.
    - left. split; reflexivity.
  Qed.

  Lemma info_not_bm (s : State) d pv : is_bm (info_line mv s d pv) = false.
  Proof.
    unfold info_line. destruct (best_score mv s) as [sc|]; [|reflexivity].
    destruct (sc <=? _); [reflexivity|]. destruct (sc >=? _); reflexivity.
  Qed.

  Lemma iter_ok p : Inv p -> forall k d s out, Good p s -> (forall o, In o out -> is_bm o = false) ->
    Good p (fst (iter k d s p out)) /\ (forall o, In o (snd (iter k d s p out)) -> is_bm o = false).
  Proof.
    intros HI. induction k as [|k IH]; intros d s out Hs Ho; cbn [iter_loop]; [split; assumption|].
    pose proof (start_ok s p d HI Hs) as G1.
    pose proof (abt_fr (start s p d) 0) as FA.
    destruct (abt (start s p d) 0) as [b0 s2]. cbn [snd] in FA.
    pose proof (Good_Post p _ _ G1 (fr_Post _ _ (proj1 G1) FA)) as G2.
    destruct b0; [split; assumption|].
    apply IH; [exact G2|].
    intros o [<-|H]; [apply info_not_bm | apply Ho, H].
  Qed.

  Lemma search_answers_inv : forall (s0 : State) (p : pos) (D : option nat),
    Inv p -> best_move mv s0 = None -> best_score mv s0 = None ->
    (forall k e, PositiveMap.find k (tt mv s0) = Some e -> -32768 < e_score mv e <= 32767) ->
    (exists m, In m (moves p) /\ legal p m = true) ->
    exists infos m,
      snd (srch s0 p D) = infos ++ [Bestmove mv m]
      /\ (forall o, In o infos -> is_bm o = false)
      /\ In m (moves p) /\ legal p m = true.
  Proof.
    intros s0 p D HI Hbm Hbs Htt [m0 [Hm0 Hl0]]. unfold search.
    assert (G0 : Good p s0).
    { split; [|split].
      - intros k e F. specialize (Htt k e F). unfold inR. lia.
      - rewrite Hbs. discriminate.
      - rewrite Hbm. discriminate. }
    destruct (iter_ok p HI (match D with Some d => d | None => 255%nat end) 1%nat s0 [] G0) as [G1 O1];
      [intros o []|].
    destruct (iter _ 1%nat s0 p []) as [s out]. cbn [fst snd] in G1, O1 |- *.
    exists (rev out), (announced pos mv moves legal default_mv s p).
    split; [reflexivity|]. split.
    - intros o H. apply O1. apply in_rev. exact H.
    - unfold announced. destruct (best_move mv s) as [m|] eqn:E.
      + apply (proj2 (proj2 G1)). exact E.
      + assert (Hf : In m0 (filter (legal p) (moves p))) by (apply filter_In; split; assumption).
        destruct (filter (legal p) (moves p)) as [|m1 t] eqn:Ef; [contradiction|].
        assert (H1 : In m1 (filter (legal p) (moves p))) by (rewrite Ef; left; reflexivity).
        apply filter_In in H1. exact H1.
  Qed.
End AnswerInv.

(* the global-bound version: the instance Inv := fun _ => True *)
Section Answer.
  Variables pos mv : Type.
  Variable moves : pos -> list mv.
  Variable legal : pos -> mv -> bool.
  Variable make : pos -> mv -> pos.
  Variable in_check : pos -> bool.
  Variable evalf : pos -> Z.
  Variable is_cap is_promo : mv -> bool.
  Variable cap_score : mv -> N.
  Variable mv_eqb : mv -> mv -> bool.
  Variable key : pos -> N.
  Variable halfmove : pos -> N.
  Variable repeated : pos -> bool.
  Variable default_mv : mv.
  Variable lim : Limits.
  Variable clock : nat -> N.
  Variable ext_stop : nat -> bool.
  Variable tt_on : bool.
  Hypothesis eval_i16 : forall p, -32768 < evalf p <= 32767.

  Lemma search_answers : forall (s0 : St mv) (p : pos) (D : option nat),
    best_move mv s0 = None -> best_score mv s0 = None ->
    (forall k e, PositiveMap.find k (tt mv s0) = Some e -> -32768 < e_score mv e <= 32767) ->
    (exists m, In m (moves p) /\ legal p m = true) ->
    exists infos m,
      snd (search pos mv moves legal make in_check evalf is_cap is_promo cap_score mv_eqb key
                  halfmove repeated default_mv lim clock ext_stop tt_on s0 p D) = infos ++ [Bestmove mv m]
      /\ (forall o, In o infos -> match o with Bestmove _ _ => true | _ => false end = false)
      /\ In m (moves p) /\ legal p m = true.
  Proof.
    intros s0 p D.
    exact (search_answers_inv pos mv moves legal make in_check evalf is_cap is_promo cap_score mv_eqb key
             halfmove repeated default_mv lim clock ext_stop tt_on (fun _ => True)
             (fun _ _ _ _ _ => I) (fun q _ => eval_i16 q) s0 p D I).
  Qed.
End Answer.
