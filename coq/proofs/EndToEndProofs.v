(* EndToEndProofs.v — proofs for props/EndToEnd.v: the composition of C08 (position command),
   C03 (make_move refines the rules' apply), C01 (the generator offers exactly the legal moves),
   the chess invariant of C11/C17 and C09 (exactly one bestmove, a legal move). *)
From Coq Require Import NArith ZArith List Lia Bool Ascii String FMapPositive Arith.
Import ListNotations.
From RCE Require Import lib.Bits lib.Geometry model.Board model.Movegen model.Fen model.Wf model.WfFull model.Abs
  model.Play model.Eval model.Search model.ChessSearch model.Uci spec.Rules spec.Notation
  proofs.UciProofs proofs.RulesProofs proofs.ChessSearchProofs proofs.SearchAbortProofs.
(* the imported models open string_scope / N_scope / Z_scope / nat_scope; `++` below is list append *)
Local Open Scope list_scope.

(* ---------- 1. the engine's notation is the rules' notation of the abstracted move ---------- *)

Lemma geom_file_idx : forall s : Square,
  sq_valid s = true -> Geometry.file (idx s) = Z.of_nat (Board.file s).
Proof.
  intros s V. apply sq_valid_bounds in V. destruct V as [_ Vf].
  unfold Geometry.file, idx. f_equal.
  rewrite Nat.add_comm, Nat.mod_add by discriminate. apply Nat.mod_small. exact Vf.
Qed.

Lemma geom_rank_idx : forall s : Square,
  sq_valid s = true -> Geometry.rank (idx s) = Z.of_nat (Board.rank s).
Proof.
  intros s V. apply sq_valid_bounds in V. destruct V as [_ Vf].
  unfold Geometry.rank, idx. f_equal.
  rewrite Nat.div_add_l by discriminate. rewrite Nat.div_small by exact Vf. apply Nat.add_0_r.
Qed.

Lemma square_name_idx : forall s : Square,
  sq_valid s = true -> square_name (idx s) = sq_str s.
Proof.
  intros s V. unfold square_name, sq_str, file_letter, rank_digit, file_char, rank_char.
  rewrite (geom_file_idx s V), (geom_rank_idx s V), !Nat2Z.id. reflexivity.
Qed.

Lemma promo_agree : forall k : option Kind,
  promo_letter_rules (match k with Some x => Some (fst x) | None => None end) = promo_letter k.
Proof. intros [[[] c]|]; reflexivity. Qed.

Lemma notation_agree : forall m : Ply,
  sq_valid (p_start m) = true -> sq_valid (p_dest m) = true ->
  to_notation m = to_notation_rules (move_of m).
Proof.
  intros m Vs Vd. rewrite to_notation_promo. unfold to_notation_rules, move_of.
  cbn [m_from m_to m_promo].
  rewrite (square_name_idx _ Vs), (square_name_idx _ Vd), promo_agree. reflexivity.
Qed.

(* ---------- what a generated legal ply looks like ---------- *)

Definition promo_fine (m : Ply) : Prop :=
  forall t c, p_promoted m = Some (t, c) -> t <> Pawn /\ t <> King.

Lemma legal_in_all : forall b m,
  In m (get_legal_moves b) -> In m (get_all_moves b) /\ is_legal_move b m = true.
Proof. intros b m. unfold get_legal_moves. apply filter_In. Qed.

Lemma move_ok_shape : forall b m, move_okb b m = true ->
  sq_valid (p_start m) = true /\ sq_valid (p_dest m) = true /\ promo_fine m.
Proof.
  intros b m H. unfold move_okb in H.
  repeat match type of H with
         | (_ && _) = true => let H' := fresh "K" in apply andb_true_iff in H; destruct H as [H H']
         end.
  split; [exact H|]. split; [assumption|].
  intros t c E.
  match goal with K : match p_promoted m with Some _ => _ | None => _ end = true |- _ =>
    rewrite E in K;
    repeat match type of K with
           | (_ && _) = true => let K' := fresh "J" in apply andb_true_iff in K; destruct K as [K K']
           end
  end.
  split; intros ->; discriminate.
Qed.

Lemma legal_ply_shape : forall b m, wf_rules b = true -> In m (get_legal_moves b) ->
  sq_valid (p_start m) = true /\ sq_valid (p_dest m) = true /\ promo_fine m.
Proof.
  intros b m Wf Hin. destruct (legal_in_all b m Hin) as [Hall _].
  destruct (generated_moves_ok b m Wf Hall) as [Hok _].
  exact (move_ok_shape b m Hok).
Qed.

(* ---------- 2. among the legal plies the notation determines the rules move ---------- *)

Lemma promo_letter_type : forall k1 k2 : option Kind,
  (forall t c, k1 = Some (t, c) -> t <> Pawn /\ t <> King) ->
  (forall t c, k2 = Some (t, c) -> t <> Pawn /\ t <> King) ->
  promo_letter k1 = promo_letter k2 ->
  match k1 with Some x => Some (fst x) | None => None end
  = match k2 with Some x => Some (fst x) | None => None end.
Proof.
  intros [[t1 c1]|] [[t2 c2]|] F1 F2 E.
  - destruct (F1 t1 c1 eq_refl) as [A1 A2]. destruct (F2 t2 c2 eq_refl) as [B1 B2].
    destruct t1; try (exfalso; apply A1; reflexivity); try (exfalso; apply A2; reflexivity);
    destruct t2; try (exfalso; apply B1; reflexivity); try (exfalso; apply B2; reflexivity);
    cbn [promo_letter] in E; try discriminate E; reflexivity.
  - destruct (F1 t1 c1 eq_refl) as [A1 A2].
    destruct t1; try (exfalso; apply A1; reflexivity); try (exfalso; apply A2; reflexivity);
    cbn [promo_letter] in E; discriminate E.
  - destruct (F2 t2 c2 eq_refl) as [B1 B2].
    destruct t2; try (exfalso; apply B1; reflexivity); try (exfalso; apply B2; reflexivity);
    cbn [promo_letter] in E; discriminate E.
  - reflexivity.
Qed.

Lemma legal_notation_inj : forall b p1 p2, wf_rules b = true ->
  In p1 (get_legal_moves b) -> In p2 (get_legal_moves b) ->
  to_notation p1 = to_notation p2 -> move_of p1 = move_of p2.
Proof.
  intros b p1 p2 Wf H1 H2 E.
  destruct (legal_ply_shape b p1 Wf H1) as (S1 & D1 & F1).
  destruct (legal_ply_shape b p2 Wf H2) as (S2 & D2 & F2).
  destruct (notation_inj p1 p2 S1 D1 S2 D2 E) as (Es & Ed & Ep).
  unfold move_of. rewrite Es, Ed. f_equal.
  apply promo_letter_type; assumption.
Qed.

(* ---------- the rules' game named by coordinate strings (same body as in props/EndToEnd.v) ---------- *)

Fixpoint rules_play_p (p : Rules.Pos) (ms : list string) : option Rules.Pos :=
  match ms with
  | [] => Some p
  | s :: t => match filter (fun m => String.eqb (to_notation_rules m) s) (Rules.legal_moves p) with
              | m :: _ => rules_play_p (Rules.apply p m) t
              | [] => None
              end
  end.

(* ---------- the counters ---------- *)

Lemma abs_fullmove : forall b, Rules.fullmove (abs b) = Board.fullmove b.
Proof. intros b. reflexivity. Qed.
Lemma abs_halfmove : forall b, Rules.halfmove (abs b) = halfmove_clock b.
Proof. intros b. reflexivity. Qed.

Lemma apply_fullmove_le : forall p m, (Rules.fullmove (Rules.apply p m) <= Rules.fullmove p + 1)%N.
Proof. intros p m. unfold Rules.apply. cbn [Rules.fullmove]. destruct (side p); lia. Qed.
Lemma apply_halfmove_le : forall p m, (Rules.halfmove (Rules.apply p m) <= Rules.halfmove p + 1)%N.
Proof.
  intros p m. unfold Rules.apply. cbn [Rules.halfmove].
  match goal with |- context [if ?c then _ else _] => destruct c end; lia.
Qed.

(* ---------- 3. one step, then the whole game ---------- *)

(* the rules' choice and the engine's choice for the same string are the same rules move *)
Lemma step_simulates : forall b s m rest,
  wf_rules b = true -> (Board.fullmove b < 65535)%N -> (halfmove_clock b < 65535)%N ->
  filter (fun m => String.eqb (to_notation_rules m) s) (Rules.legal_moves (abs b)) = m :: rest ->
  exists p rest', filter (fun p => String.eqb (to_notation p) s) (get_legal_moves b) = p :: rest'
                  /\ In p (get_legal_moves b) /\ move_of p = m.
Proof.
  intros b s m rest Wf Lf Lh EF.
  assert (Hm : In m (filter (fun m => String.eqb (to_notation_rules m) s) (Rules.legal_moves (abs b)))).
  { rewrite EF. left. reflexivity. }
  apply filter_In in Hm. destruct Hm as [Hleg Hs]. apply String.eqb_eq in Hs.
  apply (legal_spec b Wf Lf Lh) in Hleg. apply in_map_iff in Hleg. destruct Hleg as [p0 [Ep0 Hp0]].
  destruct (legal_ply_shape b p0 Wf Hp0) as (S0 & D0 & _).
  assert (N0 : to_notation p0 = s).
  { rewrite (notation_agree p0 S0 D0), Ep0. exact Hs. }
  destruct (filter (fun p => String.eqb (to_notation p) s) (get_legal_moves b)) as [|p rest'] eqn:EF'.
  - exfalso.
    assert (Hin : In p0 (filter (fun p => String.eqb (to_notation p) s) (get_legal_moves b))).
    { apply filter_In. split; [exact Hp0|]. apply String.eqb_eq. exact N0. }
    rewrite EF' in Hin. destruct Hin.
  - assert (Hp : In p (filter (fun p => String.eqb (to_notation p) s) (get_legal_moves b))).
    { rewrite EF'. left. reflexivity. }
    apply filter_In in Hp. destruct Hp as [Hp Np]. apply String.eqb_eq in Np.
    exists p, rest'. split; [reflexivity|]. split; [exact Hp|].
    rewrite <- Ep0. apply (legal_notation_inj b p p0 Wf Hp Hp0). rewrite Np, N0. reflexivity.
Qed.

Lemma game_simulates : forall ms b q,
  chess_inv b ->
  (Board.fullmove b + N.of_nat (List.length ms) < 65535)%N ->
  (halfmove_clock b + N.of_nat (List.length ms) < 65535)%N ->
  rules_play_p (abs b) ms = Some q ->
  exists b', play_game b ms = Some b' /\ abs b' = q /\ chess_inv b'
             /\ (Board.fullmove b' < 65535)%N /\ (halfmove_clock b' < 65535)%N.
Proof.
  induction ms as [|s t IH]; intros b q Inv Lf Lh HR.
  - cbn [rules_play_p] in HR. injection HR as HR. cbn [List.length] in Lf, Lh.
    exists b. cbn [play_game]. repeat split; try assumption; try lia.
    + destruct Inv as [W _]. exact W.
    + destruct Inv as [_ M]. exact M.
  - cbn [List.length] in Lf, Lh. rewrite Nat2N.inj_succ in Lf, Lh.
    cbn [rules_play_p] in HR.
    destruct (filter (fun m => String.eqb (to_notation_rules m) s) (Rules.legal_moves (abs b)))
      as [|m rest] eqn:EF; [discriminate HR|].
    pose proof Inv as [Wf _].
    destruct (step_simulates b s m rest Wf ltac:(lia) ltac:(lia) EF) as (p & rest' & EF' & Hp & Em).
    pose proof (step_refines b p Wf Hp ltac:(lia) ltac:(lia)) as Hstep. rewrite Em in Hstep.
    destruct (legal_in_all b p Hp) as [Hall Hlegal].
    pose proof (chess_inv_make b p Inv Hall Hlegal) as Inv'.
    pose proof (apply_fullmove_le (abs b) m) as F1. pose proof (apply_halfmove_le (abs b) m) as F2.
    rewrite <- Hstep in F1, F2. rewrite !abs_fullmove in F1. rewrite !abs_halfmove in F2.
    rewrite <- Hstep in HR.
    destruct (IH (make_move b p) q Inv' ltac:(lia) ltac:(lia) HR) as (b' & Hplay & Habs & Inv'' & Lf' & Lh').
    exists b'. cbn [play_game]. rewrite EF'. repeat split; try assumption.
    + destruct Inv'' as [W _]. exact W.
    + destruct Inv'' as [_ M]. exact M.
Qed.

(* ---------- the start position ---------- *)

Lemma start_chess_inv : chess_inv start_board.
Proof. split; vm_compute; reflexivity. Qed.
Lemma start_fullmove : Board.fullmove start_board = 1%N.
Proof. vm_compute. reflexivity. Qed.
Lemma start_halfmove : halfmove_clock start_board = 0%N.
Proof. vm_compute. reflexivity. Qed.

(* ---------- 5. the bestmove of a position with a legal move ---------- *)

Lemma chess_inv_eval_i16 : forall p, chess_inv p -> (-32768 < evaluate p <= 32767)%Z.
Proof. intros p Hp. pose proof (chess_inv_eval p Hp) as H. lia. Qed.

Lemma chess_answers : forall (lim : Limits) (clock : nat -> N) (ext_stop : nat -> bool) (tt_on : bool)
                             (s0 : CSt) (b : Board) (D : option nat),
  chess_inv b -> best_move Ply s0 = None -> best_score Ply s0 = None ->
  (forall k e, PositiveMap.find k (tt Ply s0) = Some e -> (-32768 < e_score Ply e <= 32767)%Z) ->
  get_legal_moves b <> [] ->
  exists infos m,
    snd (c_search lim clock ext_stop tt_on s0 b D) = infos ++ [Bestmove Ply m]
    /\ (forall o, In o infos -> match o with Bestmove _ _ => true | _ => false end = false)
    /\ In m (get_legal_moves b).
Proof.
  intros lim clock ext_stop tt_on s0 b D Hinv Hbm Hbs Htt Hleg.
  assert (Hex : exists m, In m (get_all_moves b) /\ is_legal_move b m = true).
  { destruct (get_legal_moves b) as [|m t] eqn:E; [contradiction|].
    exists m. apply filter_In. unfold get_legal_moves in E. rewrite E. left. reflexivity. }
  destruct (search_answers_inv Board Ply get_all_moves is_legal_move make_move c_in_check evaluate
              is_capture is_promotion cap_score ply_eqb zkey halfmove_clock c_repeated ply_default
              lim clock ext_stop tt_on chess_inv chess_inv_make
              chess_inv_eval_i16
              s0 b D Hinv Hbm Hbs Htt Hex) as [infos [m [H1 [H2 [H3 H4]]]]].
  exists infos, m. split; [exact H1|]. split; [exact H2|].
  unfold get_legal_moves. apply filter_In. split; assumption.
Qed.

(* ---------- the end-to-end statement ---------- *)

Lemma len_bound : forall n : nat, (n < 60000)%nat -> (N.of_nat n < 60000)%N.
Proof.
  (* 60000%nat is kept by Coq as Nat.of_num_uint of its decimal digits: evaluate it to products of 10 only *)
  intros n H. unfold Nat.of_num_uint, Nat.of_uint in H. cbn [Nat.of_uint_acc] in H.
  rewrite !Nat.tail_mul_spec in H. lia.
Qed.

Theorem e2e_position_then_go :
  forall (sess : Session) (ms : list string) (q : Rules.Pos),
    (List.length ms < 60000)%nat ->
    rules_play_p (abs start_board) ms = Some q ->
    exists sess',
      execute sess (CPosition StartPos (Some ms)) = Ok sess'
      /\ abs (s_board sess') = q
      /\ forall (l : GoLimits) (lim : Limits) (clock : nat -> N) (ext_stop : nat -> bool) (tt_on : bool)
                (s0 : CSt) (D : option nat),
           best_move Ply s0 = None -> best_score Ply s0 = None ->
           (forall k e, PositiveMap.find k (tt Ply s0) = Some e -> (-32768 < e_score Ply e <= 32767)%Z) ->
           Rules.legal_moves q <> [] ->
           exists sess'' infos m,
             execute sess' (CGo l) = Ok sess''
             /\ s_events sess'' = EGo (s_board sess') l :: s_events sess'
             /\ snd (c_search lim clock ext_stop tt_on s0 (s_board sess') D) = infos ++ [Bestmove Ply m]
             /\ (forall o, In o infos -> match o with Bestmove _ _ => true | _ => false end = false)
             /\ In (move_of m) (Rules.legal_moves q).
Proof.
  intros sess ms q Hlen HR.
  assert (Lf : (Board.fullmove start_board + N.of_nat (List.length ms) < 65535)%N).
  { rewrite start_fullmove. pose proof (len_bound _ Hlen) as Hl. lia. }
  assert (Lh : (halfmove_clock start_board + N.of_nat (List.length ms) < 65535)%N).
  { rewrite start_halfmove. pose proof (len_bound _ Hlen) as Hl. lia. }
  destruct (game_simulates ms start_board q start_chess_inv Lf Lh HR)
    as (b' & Hplay & Habs & Inv' & Lf' & Lh').
  destruct (position_accept sess StartPos (Some ms) start_board b' eq_refl Hplay)
    as (sess' & Hexec & Hboard & Hev).
  exists sess'. split; [exact Hexec|]. rewrite Hboard. split; [exact Habs|].
  intros l lim clock ext_stop tt_on s0 D Hbm Hbs Htt Hne.
  pose proof Inv' as [Wf' _].
  assert (Hne' : get_legal_moves b' <> []).
  { intros E. destruct (Rules.legal_moves q) as [|m0 r0] eqn:EQ; [apply Hne; reflexivity|].
    assert (Hin : In m0 (Rules.legal_moves (abs b'))). { rewrite Habs, EQ. left. reflexivity. }
    apply (legal_spec b' Wf' Lf' Lh') in Hin. rewrite E in Hin. destruct Hin. }
  destruct (chess_answers lim clock ext_stop tt_on s0 b' D Inv' Hbm Hbs Htt Hne')
    as (infos & m & Hout & Hinfos & Hm).
  exists (emit sess' (EGo (s_board sess') l)), infos, m.
  split; [reflexivity|]. split; [rewrite Hboard; reflexivity|].
  split; [exact Hout|]. split; [exact Hinfos|].
  rewrite <- Habs. apply (legal_spec b' Wf' Lf' Lh'). apply in_map. exact Hm.
Qed.

(* ---------- 6. the rules' starting position ---------- *)

Theorem e2e_start : cells (abs start_board) =
  map Some [(Rook,White);(Knight,White);(Bishop,White);(Queen,White);(King,White);(Bishop,White);(Knight,White);(Rook,White)]
  ++ repeat (Some (Pawn,White)) 8 ++ repeat None 32 ++ repeat (Some (Pawn,Black)) 8
  ++ map Some [(Rook,Black);(Knight,Black);(Bishop,Black);(Queen,Black);(King,Black);(Bishop,Black);(Knight,Black);(Rook,Black)]
  /\ side (abs start_board) = White /\ ep (abs start_board) = None
  /\ halfmove (abs start_board) = 0%N /\ fullmove (abs start_board) = 1%N.
Proof. repeat split; vm_compute; reflexivity. Qed.
