(* ChessSearchMutProofs.v — the in-place theorems of SearchMutProofs.v at the chess model.
   The invariant is chess_inv (ChessSearchProofs.v, preserved by legal generated moves); the
   legality probe is is_legal_move by definition; that unmake_move restores the board after a
   generated move is taken as a premise here and supplied by C02 (props/C02closed.v) in
   props/C02search.v. *)
From Coq Require Import NArith ZArith List Lia Bool.
Import ListNotations.
From RCE Require Import lib.Bits model.Board model.Movegen model.Wf model.WfFull model.Eval model.Search
  model.SearchMut model.ChessSearch model.ChessSearchMut proofs.ChessSearchProofs
  proofs.SearchPrefixProofs proofs.SearchMutProofs.

Definition generated_moves_restore : Prop :=
  forall b m, wf_rules b = true -> In m (get_all_moves b) -> unmake_move (make_move b m) = Some b.

Lemma chess_restore : generated_moves_restore ->
  forall b m, chess_inv b -> In m (get_all_moves b) -> unmake_move (make_move b m) = Some b.
Proof. intros HR b m [Hw _] Hm. exact (HR b m Hw Hm). Qed.

(* Board::is_legal_move = make_move; is_in_check(ply.piece.get_color()); unmake_move *)
Lemma chess_legal_def : forall b m, is_legal_move b m = negb (c_left_in_check (make_move b m) m).
Proof. reflexivity. Qed.

Section Chess.
  Hypothesis HR : generated_moves_restore.
  Variable lim : Limits.
  Variable clock : nat -> N.
  Variable ext_stop : nat -> bool.
  Variable tt_on : bool.

  Lemma chess_quiescence_in_place : forall f (s : CSt) b a bt ply,
    chess_inv b ->
    c_quiescence_mut lim clock ext_stop f s b a bt ply = Some (c_quiescence lim clock ext_stop f s b a bt ply, b).
  Proof.
    exact (quiescence_in_place Board Ply get_all_moves is_legal_move make_move unmake_move c_left_in_check
             evaluate is_capture is_promotion cap_score ply_eqb zkey lim clock ext_stop
             chess_inv chess_inv_make (chess_restore HR) chess_legal_def).
  Qed.

  Lemma chess_alpha_beta_in_place : forall f (s : CSt) b a bt d ply,
    chess_inv b ->
    c_alpha_beta_mut lim clock ext_stop tt_on f s b a bt d ply
    = Some (c_alpha_beta lim clock ext_stop tt_on f s b a bt d ply, b).
  Proof.
    exact (alpha_beta_in_place Board Ply get_all_moves is_legal_move make_move unmake_move c_left_in_check
             c_in_check evaluate is_capture is_promotion cap_score ply_eqb zkey halfmove_clock c_repeated
             ply_default lim clock ext_stop tt_on
             chess_inv chess_inv_make (chess_restore HR) chess_legal_def).
  Qed.

  Hypothesis clock_mono : mono_clk clock.
  Hypothesis stop_mono : mono_stp ext_stop.

  Lemma chess_start_in_place : forall (s : CSt) b d,
    chess_inv b ->
    exists b', c_alpha_beta_start_mut lim clock ext_stop tt_on s b d
               = Some (c_alpha_beta_start lim clock ext_stop tt_on s b d, b')
               /\ (b' = b \/ exists m, In m (get_legal_moves b) /\ b' = make_move b m).
  Proof.
    intros s b d HI.
    destruct (start_in_place Board Ply get_all_moves is_legal_move make_move unmake_move c_left_in_check
                c_in_check evaluate is_capture is_promotion cap_score ply_eqb zkey halfmove_clock c_repeated
                ply_default lim clock ext_stop tt_on
                chess_inv chess_inv_make (chess_restore HR) chess_legal_def clock_mono stop_mono s b d HI)
      as [b' [E L]].
    exists b'. split; [exact E|].
    destruct L as [L|[_ [m [Hm [Hl Hb]]]]]; [left; exact L|].
    right. exists m. split; [|exact Hb]. unfold get_legal_moves. apply filter_In. split; assumption.
  Qed.

  Lemma chess_search_in_place : forall (s0 : CSt) b D,
    chess_inv b ->
    exists b', c_search_mut lim clock ext_stop tt_on s0 b D = Some (c_search lim clock ext_stop tt_on s0 b D, b')
               /\ (b' = b \/ exists m, In m (get_legal_moves b) /\ b' = make_move b m).
  Proof.
    intros s0 b D HI.
    destruct (search_in_place Board Ply get_all_moves is_legal_move make_move unmake_move c_left_in_check
                c_in_check evaluate is_capture is_promotion cap_score ply_eqb zkey halfmove_clock c_repeated
                ply_default lim clock ext_stop tt_on
                chess_inv chess_inv_make (chess_restore HR) chess_legal_def clock_mono stop_mono s0 b D HI)
      as [b' [E L]].
    exists b'. split; [exact E|].
    destruct L as [L|[m [Hm [Hl Hb]]]]; [left; exact L|].
    right. exists m. split; [|exact Hb]. unfold get_legal_moves. apply filter_In. split; assumption.
  Qed.
End Chess.

(* The second alternative does occur: the start position, node budget 30, depth limit 3, constant
   clock, no stop (both oracles monotone).  The budget runs out inside the second root
   iteration; whatever board the in-place search returns has two entries on its undo stack, the
   start position has one.  (A closed computation on the executable model, as in C02_start_wf.) *)
Lemma chess_interrupted_root_displaced : forall r b',
  c_search_mut (mkLimits (Some 30%N) None false 0) (fun _ => 0%N) (fun _ => false) true (init_st Ply)
               start_board (Some 3%nat) = Some (r, b') ->
  b' <> start_board.
Proof.
  intros r b' E Hb.
  assert (W : match c_search_mut (mkLimits (Some 30%N) None false 0) (fun _ => 0%N) (fun _ => false) true
                                 (init_st Ply) start_board (Some 3%nat) with
              | Some (_, b1) => length (history b1)
              | None => 0%nat
              end = 2%nat) by (vm_compute; reflexivity).
  rewrite E in W. subst b'. vm_compute in W. discriminate W.
Qed.
