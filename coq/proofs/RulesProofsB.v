(* RulesProofsB.v — C03 side: well-formedness (wf_rules) is preserved by every legal move, games
   of any length refine the rules, the engine remembers the earlier positions. *)
From Coq Require Import NArith ZArith List Lia Bool.
Import ListNotations.
From RCE Require Import lib.Bits lib.Geometry model.Board model.Movegen model.Wf model.WfFull spec.Rules
     model.Abs model.Play.
From RCE Require Import proofs.BoardProofsPBB proofs.BoardProofsKey proofs.BoardProofs proofs.AttackProofs
     proofs.ApplyProofs.
Local Open Scope nat_scope.

(* ------------------------------------------------------------------ *)
(* the remembered positions (no hypothesis at all) *)
Lemma pos_hist_make b m : pos_hist (make_move b m) = zkey b :: pos_hist b.
Proof.
  unfold make_move. cbv zeta.
  destruct (p_dpp m); cbv beta iota;
    match goal with |- context [castling_revocations ?a ?b] => destruct (castling_revocations a b) as [z3 r'] end;
    cbv beta iota; unfold switch_turn, with_key, with_bbs_key; cbn [pos_hist];
    (destruct (p_castles m); [destruct (castle_rook_squares (p_dest m)) as [[rs rd]|]|]);
    unfold move_piece, add_piece, remove_piece, with_bbs_key; cbn [pos_hist];
    repeat match goal with |- context [match ?x with _ => _ end] => destruct x end; reflexivity.
Qed.

Lemma remembers_positions : forall ms b,
  pos_hist (play_plies b ms) = rev (keys_along b ms) ++ pos_hist b.
Proof.
  induction ms as [|m t IH]; intros b; cbn [play_plies keys_along rev]; [reflexivity|].
  rewrite IH, pos_hist_make, <- app_assoc. reflexivity.
Qed.

(* ------------------------------------------------------------------ *)
(* coordinates *)
Local Open Scope Z_scope.
Lemma geo_bounds s : (s < 64)%nat -> 0 <= Geometry.rank s < 8 /\ 0 <= Geometry.file s < 8.
Proof.
  intros H. unfold Geometry.rank, Geometry.file.
  pose proof (Nat.mod_upper_bound s 8 ltac:(discriminate)).
  assert (s / 8 < 8)%nat by (apply Nat.div_lt_upper_bound; lia). lia.
Qed.
Lemma geo_mk r f : inb r f = true -> Geometry.rank (mk r f) = r /\ Geometry.file (mk r f) = f /\ (mk r f < 64)%nat.
Proof.
  unfold inb, mk, Geometry.rank, Geometry.file. intros H.
  assert (0 <= r < 8 /\ 0 <= f < 8) as [Hr Hf] by lia.
  rewrite Nat2Z.inj_div, Nat2Z.inj_mod, Z2Nat.id by lia. cbn [Z.of_nat Pos.of_succ_nat Pos.succ].
  split; [symmetry; apply (Z.div_unique _ 8 r f); lia|].
  split; [symmetry; apply (Z.mod_unique _ 8 r f); lia|lia].
Qed.
Lemma geo_eta s : mk (Geometry.rank s) (Geometry.file s) = s.
Proof.
  unfold mk, Geometry.rank, Geometry.file.
  pose proof (Nat.div_mod s 8 ltac:(discriminate)) as H.
  generalize dependent (s / 8)%nat. generalize (s mod 8)%nat. intros; lia.
Qed.
Lemma walk1_In r f dr df x : In x (walk 1 r f dr df) ->
  inb (r + dr) (f + df) = true /\ x = mk (r + dr) (f + df).
Proof.
  cbn [walk]. destruct (inb (r + dr) (f + df)); [|intros []].
  intros [H|[]]. split; [reflexivity|]. symmetry. exact H.
Qed.
Lemma leaper_In ds s x : In x (leaper_targets ds s) ->
  exists d, In d ds /\ inb (Geometry.rank s + fst d) (Geometry.file s + snd d) = true /\
            x = mk (Geometry.rank s + fst d) (Geometry.file s + snd d).
Proof.
  unfold leaper_targets. rewrite in_flat_map. intros [d [Hd H]]. exists d. split; [exact Hd|].
  apply walk1_In. exact H.
Qed.

(* ------------------------------------------------------------------ *)
(* the shape of the pseudo-legal moves of the rules *)
Definition home (col : Color) : nat := match col with White => 4 | Black => 60 end%nat.

Definition promo_cond (col : Color) (m : Move) : Prop :=
  (Geometry.rank (m_to m) = last_rank col /\ exists t, m_promo m = Some t /\ t <> Pawn /\ t <> King) \/
  (Geometry.rank (m_to m) <> last_rank col /\ m_promo m = None).

Lemma with_promotions_In col from to m : In m (with_promotions col from to) ->
  m_from m = from /\ m_to m = to /\ promo_cond col m.
Proof.
  unfold with_promotions, promo_cond.
  destruct (Z.eqb_spec (Geometry.rank to) (last_rank col)) as [E|E].
  - cbn [map In]. intros [<-|[<-|[<-|[<-|[]]]]]; cbn [m_from m_to m_promo];
      (split; [reflexivity|split; [reflexivity|]]); left; (split; [exact E|]);
      eexists; (split; [reflexivity|split; discriminate]).
  - intros [<-|[]]. cbn [m_from m_to m_promo]. split; [reflexivity|split; [reflexivity|]].
    right. split; [exact E|reflexivity].
Qed.

Definition pawn_shape (p : Pos) (m : Move) : Prop :=
  let c := cells p in let col := side p in
  let r := Geometry.rank (m_from m) in let f := Geometry.file (m_from m) in let d := forward col in
  let rt := Geometry.rank (m_to m) in let ft := Geometry.file (m_to m) in
  (m_to m < 64)%nat /\
  ((ft = f /\ rt = r + d /\ promo_cond col m)
   \/ (ft = f /\ rt = r + 2 * d /\ r = start_rank col /\ m_promo m = None /\
       occupied c (sq (r + d) f) = false /\ occupied c (m_to m) = false)
   \/ (occupied c (m_to m) = true /\ rt = r + d /\ promo_cond col m)
   \/ (r = ep_rank col /\ rt = r + d /\ m_promo m = None)).

Lemma has_color_occupied c col s : has_color c col s = true -> occupied c s = true.
Proof. unfold has_color, occupied. destruct (at_ c s) as [[t x]|]; [reflexivity|discriminate]. Qed.

Lemma pawn_moves_shape p from m : (from < 64)%nat -> (forall f, ep p = Some f -> (f < 8)%nat) ->
  In m (pawn_moves p from) -> m_from m = from /\ pawn_shape p m.
Proof.
  intros Hf Hep. unfold pawn_moves, pawn_shape. cbv zeta.
  destruct (geo_bounds from Hf) as [Br Bf].
  set (r := Geometry.rank from) in *. set (f := Geometry.file from) in *.
  rewrite !in_app_iff. intros [H|[H|H]].
  - destruct (inb (r + forward (side p)) f && negb (occupied (cells p) (sq (r + forward (side p)) f))) eqn:E;
      [|contradiction].
    apply andb_true_iff in E. destruct E as [E1 E2]. apply negb_true_iff in E2.
    destruct (geo_mk _ _ E1) as (G1 & G2 & G3).
    apply in_app_iff in H. destruct H as [H|H].
    + apply with_promotions_In in H. destruct H as (A1 & A2 & A3).
      rewrite A1, A2. fold r f. unfold sq. rewrite G1, G2.
      split; [reflexivity|]. split; [exact G3|]. left. split; [reflexivity|]. split; [reflexivity|].
      exact A3.
    + destruct ((r =? start_rank (side p)) && negb (occupied (cells p) (sq (r + 2 * forward (side p)) f))) eqn:E3;
        [|contradiction].
      destruct H as [<-|[]]. cbn [m_from m_to m_promo]. fold r f.
      apply andb_true_iff in E3. destruct E3 as [E3 E4]. apply Z.eqb_eq in E3. apply negb_true_iff in E4.
      assert (I2 : inb (r + 2 * forward (side p)) f = true).
      { unfold inb. destruct (side p); cbn [forward start_rank] in *; lia. }
      destruct (geo_mk _ _ I2) as (K1 & K2 & K3). unfold sq in *. rewrite K1, K2.
      split; [reflexivity|]. split; [exact K3|]. right. left. repeat (split; [reflexivity || assumption|]). assumption.
  - apply in_flat_map in H. destruct H as [t [Ht H]].
    destruct (has_color (cells p) (opposite (side p)) t) eqn:E; [|contradiction].
    apply with_promotions_In in H. destruct H as (A1 & A2 & A3).
    apply leaper_In in Ht. destruct Ht as [d [Hd [I X]]]. fold r f in I, X.
    destruct (geo_mk _ _ I) as (G1 & G2 & G3).
    assert (Ed : fst d = forward (side p)).
    { destruct (side p); cbn in Hd; destruct Hd as [<-|[<-|[]]]; reflexivity. }
    rewrite A1, A2. fold r f. split; [reflexivity|]. split; [rewrite X; exact G3|].
    right. right. left. split; [eapply has_color_occupied; exact E|].
    split; [rewrite X, G1, Ed; reflexivity|exact A3].
  - destruct (ep p) as [ef|] eqn:Eep; [|contradiction].
    destruct ((r =? ep_rank (side p)) && (Z.abs (f - Z.of_nat ef) =? 1)) eqn:E; [|contradiction].
    destruct H as [<-|[]]. cbn [m_from m_to m_promo]. fold r f.
    apply andb_true_iff in E. destruct E as [E1 E2]. apply Z.eqb_eq in E1.
    pose proof (Hep ef eq_refl) as Lef.
    assert (I : inb (r + forward (side p)) (Z.of_nat ef) = true).
    { unfold inb. destruct (side p); cbn [forward ep_rank] in *; lia. }
    destruct (geo_mk _ _ I) as (G1 & G2 & G3). unfold sq. rewrite G1.
    split; [reflexivity|]. split; [exact G3|]. right. right. right. auto.
Qed.

Lemma castle_moves_shape p from m : In m (castle_moves p from) ->
  m_from m = from /\ m_promo m = None /\ from = home (side p) /\ (m_to m = from + 2 \/ m_to m = from - 2)%nat.
Proof.
  unfold castle_moves. cbv zeta. fold (home (side p)).
  destruct (Nat.eqb_spec from (home (side p))) as [E|E]; [|intros []].
  cbn [andb]. destruct (has_piece (cells p) (King, side p) (home (side p))); [|intros []].
  rewrite in_app_iff.
  intros [H|H];
    match type of H with In _ (if ?c then _ else _) => destruct c; [|contradiction] end;
    destruct H as [<-|[]]; cbn [m_from m_to m_promo]; subst from; auto.
Qed.

Lemma king_moves_shape p from k m : (from < 64)%nat -> fst k = King -> In m (piece_moves p from k) ->
  m_from m = from /\ m_promo m = None /\ (m_to m < 64)%nat /\
  (Z.abs (Geometry.file from - Geometry.file (m_to m)) <= 1 \/
   (from = home (side p) /\ (m_to m = from + 2 \/ m_to m = from - 2)%nat)).
Proof.
  intros Hf Hk. unfold piece_moves. cbv zeta. rewrite Hk. rewrite in_app_iff. intros [H|H].
  - apply in_map_iff in H. destruct H as [t [<- Ht]]. cbn [m_from m_to m_promo].
    apply filter_In in Ht. destruct Ht as [Ht _]. unfold attack_targets in Ht. rewrite Hk in Ht.
    apply leaper_In in Ht. destruct Ht as [d [Hd [I X]]].
    destruct (geo_mk _ _ I) as (G1 & G2 & G3). subst t.
    split; [reflexivity|]. split; [reflexivity|]. split; [exact G3|]. left. rewrite G2.
    cbn in Hd. repeat (destruct Hd as [<-|Hd]; [cbn [snd]; lia|]). contradiction.
  - apply castle_moves_shape in H. destruct H as (A1 & A2 & A3 & A4).
    split; [exact A1|]. split; [exact A2|]. split; [|right; auto].
    destruct (side p); cbn [home] in A3; lia.
Qed.

Lemma other_moves_shape p from k m : fst k <> Pawn -> fst k <> King -> In m (piece_moves p from k) ->
  m_from m = from /\ m_promo m = None /\ (m_to m < 64)%nat.
Proof.
  intros N1 N2. unfold piece_moves. cbv zeta.
  destruct (fst k) eqn:Ek; try congruence; intros H;
    apply in_map_iff in H; destruct H as [t [<- Ht]]; cbn [m_from m_to m_promo];
    apply filter_In in Ht; destruct Ht as [Ht _]; apply attack_targets_lt64 in Ht; auto.
Qed.

Lemma pseudo_shape p m : (forall f, ep p = Some f -> (f < 8)%nat) -> In m (pseudo_moves p) ->
  exists k, (m_from m < 64)%nat /\ (m_to m < 64)%nat /\ at_ (cells p) (m_from m) = Some k /\ snd k = side p /\
    match fst k with
    | Pawn => pawn_shape p m
    | King => m_promo m = None /\
              (Z.abs (Geometry.file (m_from m) - Geometry.file (m_to m)) <= 1 \/
               (m_from m = home (side p) /\ (m_to m = m_from m + 2 \/ m_to m = m_from m - 2)%nat))
    | _ => m_promo m = None
    end.
Proof.
  intros Hep. unfold pseudo_moves. rewrite in_flat_map. intros [from [Hf H]].
  apply in_seq in Hf. assert (Lf : (from < 64)%nat) by lia.
  destruct (at_ (cells p) from) as [k|] eqn:Ea; [|contradiction].
  destruct (color_eqb_spec (snd k) (side p)) as [Ec|Ec]; [|contradiction].
  exists k. destruct (fst k) eqn:Ek.
  - unfold piece_moves in H. rewrite Ek in H. apply pawn_moves_shape in H; [|exact Lf|exact Hep].
    destruct H as [E S]. rewrite E. pose proof S as S'. destruct S' as [Lt _]. auto 6.
  - apply king_moves_shape in H; [|exact Lf|exact Ek]. destruct H as (E & A & B & C). rewrite E. auto 7.
  - apply other_moves_shape in H; [|congruence|congruence]. destruct H as (E & A & B). rewrite E. auto 6.
  - apply other_moves_shape in H; [|congruence|congruence]. destruct H as (E & A & B). rewrite E. auto 6.
  - apply other_moves_shape in H; [|congruence|congruence]. destruct H as (E & A & B). rewrite E. auto 6.
  - apply other_moves_shape in H; [|congruence|congruence]. destruct H as (E & A & B). rewrite E. auto 6.
Qed.

Lemma pseudo_facts p m : (forall f, ep p = Some f -> (f < 8)%nat) -> In m (pseudo_moves p) ->
  exists k, (m_from m < 64)%nat /\ (m_to m < 64)%nat /\ at_ (cells p) (m_from m) = Some k /\ snd k = side p /\
  (forall t, m_promo m = Some t -> t <> Pawn) /\
  (fst k = Pawn -> m_promo m = None -> 1 <= Geometry.rank (m_to m) <= 6) /\
  (is_ep p m = true -> Geometry.rank (m_from m) = ep_rank (side p)) /\
  (is_castle (cells p) m = true ->
     fst k = King /\ m_from m = home (side p) /\ (m_to m = m_from m + 2 \/ m_to m = m_from m - 2)%nat) /\
  (is_double_push (cells p) m = true ->
     fst k = Pawn /\ m_promo m = None /\ Geometry.rank (m_from m) = start_rank (side p) /\
     Geometry.file (m_to m) = Geometry.file (m_from m) /\
     Geometry.rank (m_to m) = Geometry.rank (m_from m) + 2 * forward (side p) /\
     occupied (cells p) (sq (Geometry.rank (m_from m) + forward (side p)) (Geometry.file (m_from m))) = false /\
     occupied (cells p) (m_to m) = false).
Proof.
  intros Hep Hin. destruct (pseudo_shape p m Hep Hin) as [k (Lf & Lt & Ea & Ec & S)].
  exists k. split; [exact Lf|]. split; [exact Lt|]. split; [exact Ea|]. split; [exact Ec|].
  destruct (geo_bounds _ Lf) as [Brf Bff]. destruct (geo_bounds _ Lt) as [Brt Bft].
  unfold is_ep, is_castle, is_double_push. rewrite Ea.
  destruct k as [t c]. cbn [fst snd] in *. destruct t; cbv iota.
  - destruct S as [_ S]. cbv zeta in S.
    set (r := Geometry.rank (m_from m)) in *. set (f := Geometry.file (m_from m)) in *.
    set (rt := Geometry.rank (m_to m)) in *. set (ft := Geometry.file (m_to m)) in *.
    assert (PC : promo_cond (side p) m -> rt = r + forward (side p) ->
                 (forall t, m_promo m = Some t -> t <> Pawn) /\ (m_promo m = None -> 1 <= rt <= 6)).
    { unfold promo_cond. fold rt. intros [[P1 [t [P2 [P3 _]]]]|[P1 P2]] Ert.
      - split; [intros t' E; congruence|intros E; congruence].
      - split; [intros t' E; congruence|]. intros _.
        destruct (side p); cbn [forward last_rank] in *; lia. }
    destruct S as [(S1 & S2 & S3)|[(S1 & S2 & S3 & S4 & S5 & S6)|[(S1 & S2 & S3)|(S1 & S2 & S3)]]].
    + destruct (PC S3 S2) as [P1 P2].
      split; [exact P1|]. split; [intros _; exact P2|].
      split; [intros H; apply andb_true_iff in H; destruct H as [H _]; apply negb_true_iff in H; lia|].
      split; [discriminate|]. intros H. destruct (side p); cbn [forward] in *; lia.
    + split; [intros t' E; congruence|].
      split; [intros _ _; destruct (side p); cbn [forward start_rank] in *; lia|].
      split; [intros H; apply andb_true_iff in H; destruct H as [H _]; apply negb_true_iff in H; lia|].
      split; [discriminate|]. intros _. auto 8.
    + destruct (PC S3 S2) as [P1 P2].
      split; [exact P1|]. split; [intros _; exact P2|].
      split; [intros H; apply andb_true_iff in H; destruct H as [_ H]; rewrite S1 in H; discriminate|].
      split; [discriminate|]. intros H. destruct (side p); cbn [forward] in *; lia.
    + split; [intros t' E; congruence|].
      split; [intros _ _; destruct (side p); cbn [forward ep_rank] in *; lia|].
      split; [intros _; exact S1|].
      split; [discriminate|]. intros H. destruct (side p); cbn [forward] in *; lia.
  - destruct S as [S1 S2].
    split; [intros t' E; congruence|]. split; [discriminate|]. split; [discriminate|].
    split; [|discriminate]. intros H. split; [reflexivity|].
    destruct S2 as [S2|S2]; [lia|exact S2].
  - split; [intros t' E; congruence|]. repeat (split; [discriminate|]). discriminate.
  - split; [intros t' E; congruence|]. repeat (split; [discriminate|]). discriminate.
  - split; [intros t' E; congruence|]. repeat (split; [discriminate|]). discriminate.
  - split; [intros t' E; congruence|]. repeat (split; [discriminate|]). discriminate.
Qed.

(* ------------------------------------------------------------------ *)
(* the three position invariants on the rules side, and their preservation by [apply] *)
Definition not_pawn (o : option Kind) : bool := match o with Some (Pawn, _) => false | _ => true end.
Definition npbr_pos (c : list (option Kind)) : Prop :=
  forall n, (n < 64)%nat -> (n < 8 \/ 56 <= n)%nat -> not_pawn (at_ c n) = true.

Definition rhome (k : CastlingKind) : nat := match k with WK | WQ => 4 | _ => 60 end%nat.
Definition rcorner (k : CastlingKind) : nat := match k with WK => 7 | WQ => 0 | BK => 63 | BQ => 56 end%nat.
Definition rcol (k : CastlingKind) : Color := match k with WK | WQ => White | _ => Black end.
Definition rc_pos (c : list (option Kind)) (r : Rights) : Prop :=
  forall k, get_right r k = true ->
    at_ c (rhome k) = Some (King, rcol k) /\ at_ c (rcorner k) = Some (Rook, rcol k).

Definition ep_ok_pos (c : list (option Kind)) (s : Color) (e : option nat) : Prop :=
  match e with
  | None => True
  | Some f => (f < 8)%nat /\
    match s with
    | White => at_ c (32 + f) = Some (Pawn, Black) /\ at_ c (40 + f) = None /\ at_ c (48 + f) = None
    | Black => at_ c (24 + f) = Some (Pawn, White) /\ at_ c (16 + f) = None /\ at_ c (8 + f) = None
    end
  end.

Lemma occupied_false c s : occupied c s = false -> at_ c s = None.
Proof. unfold occupied. destruct (at_ c s); [discriminate|reflexivity]. Qed.

Ltac nat_eqb_cases :=
  repeat match goal with
         | |- context [Nat.eqb ?a ?b] => destruct (Nat.eqb_spec a b)
         end.

Section ApplyPres.
Variables (p : Pos) (m : Move).
Hypothesis L : length (cells p) = 64%nat.
Hypothesis Hep : forall f, ep p = Some f -> (f < 8)%nat.
Hypothesis Hin : In m (pseudo_moves p).

Lemma victim_range : is_ep p m = true ->
  (24 <= sq (Geometry.rank (m_from m)) (Geometry.file (m_to m)) < 40)%nat.
Proof.
  intros H. destruct (pseudo_facts p m Hep Hin) as [k (Lf & Lt & Ea & Ec & _ & _ & F3 & _)].
  specialize (F3 H). destruct (geo_bounds _ Lt) as [_ Bft]. unfold sq, mk. rewrite F3.
  destruct (side p); cbn [ep_rank]; lia.
Qed.

Lemma npbr_apply : npbr_pos (cells p) -> npbr_pos (cells (apply p m)).
Proof.
  intros NP n Hn Hr.
  destruct (pseudo_facts p m Hep Hin) as [k (Lf & Lt & Ea & Ec & F1 & F2 & F3 & F4 & _)].
  assert (Hpl : n = m_to m ->
                not_pawn (match m_promo m with Some t => Some (t, side p) | None => at_ (cells p) (m_from m) end) = true).
  { intros ->. destruct (m_promo m) as [t|] eqn:Ep.
    - specialize (F1 t eq_refl). destruct t; cbn; congruence.
    - rewrite Ea. destruct k as [[] kc]; try reflexivity. exfalso.
      specialize (F2 eq_refl eq_refl). unfold Geometry.rank in F2.
      assert (m_to m / 8 < 1 \/ 7 <= m_to m / 8)%nat as [X|X]; [|lia|lia].
      destruct Hr as [Hr|Hr]; [left; apply Nat.div_lt_upper_bound; lia|right].
      apply Nat.div_le_lower_bound; lia. }
  pose proof (NP n Hn Hr) as Hold.
  rewrite apply_cells. cbv zeta.
  destruct (is_ep p m) eqn:Eep; [pose proof (victim_range Eep) as Vr|];
    (destruct (is_castle (cells p) m) eqn:Ecs;
     [destruct (F4 eq_refl) as (_ & Eh & _); assert (m_from m = 4 \/ m_from m = 60)%nat by (rewrite Eh; destruct (side p); cbn; auto);
      destruct (Nat.ltb (m_from m) (m_to m))|]);
    rewrite !at_set_cell by (rewrite ?set_cell_length, L; lia);
    nat_eqb_cases; try reflexivity; try exact Hold; apply Hpl; assumption.
Qed.
Lemma rc_apply : rc_pos (cells p) (rights p) -> rc_pos (cells (apply p m)) (rights (apply p m)).
Proof.
  intros RC k Hk.
  destruct (pseudo_facts p m Hep Hin) as [k0 (Lf & Lt & Ea & Ec & _ & _ & _ & F4 & _)].
  unfold apply in Hk. cbn [rights] in Hk. rewrite !touch_get in Hk.
  apply andb_true_iff in Hk. destruct Hk as [Hk T2]. apply andb_true_iff in Hk. destruct Hk as [Hk T1].
  apply negb_true_iff in T1, T2.
  destruct (RC k Hk) as [HK HR].
  assert (Tf : m_from m <> rhome k /\ m_from m <> rcorner k).
  { unfold tc in T1. destruct k; cbn [rhome rcorner]; apply orb_false_iff in T1; destruct T1 as [A B];
      apply Nat.eqb_neq in A, B; auto. }
  assert (Tt : m_to m <> rhome k /\ m_to m <> rcorner k).
  { unfold tc in T2. destruct k; cbn [rhome rcorner]; apply orb_false_iff in T2; destruct T2 as [A B];
      apply Nat.eqb_neq in A, B; auto. }
  destruct Tf as [Tf1 Tf2], Tt as [Tt1 Tt2].
  rewrite apply_cells. cbv zeta.
  destruct (is_ep p m) eqn:Eep; [pose proof (victim_range Eep) as Vr|];
    (destruct (is_castle (cells p) m) eqn:Ecs;
     [destruct (F4 eq_refl) as (_ & Eh & Et);
      assert (m_from m = 4 \/ m_from m = 60)%nat as Eh' by (rewrite Eh; destruct (side p); cbn; auto);
      destruct (Nat.ltb (m_from m) (m_to m))|]);
    rewrite !at_set_cell by (rewrite ?set_cell_length, L; lia);
    destruct k; cbn [rhome rcorner rcol] in *;
    (split; nat_eqb_cases; try (exfalso; lia); assumption).
Qed.

Lemma ep_apply : ep_ok_pos (cells (apply p m)) (side (apply p m)) (ep (apply p m)).
Proof.
  destruct (pseudo_facts p m Hep Hin) as [k (Lf & Lt & Ea & Ec & _ & _ & _ & _ & F5)].
  unfold ep_ok_pos.
  change (ep (apply p m)) with (if is_double_push (cells p) m then Some (Z.to_nat (Geometry.file (m_to m))) else None).
  change (side (apply p m)) with (opposite (side p)).
  destruct (is_double_push (cells p) m) eqn:Edp; [|exact I].
  destruct (F5 eq_refl) as (Ek & Epr & Er & Efl & Ert & Omid & Oto).
  destruct (geo_bounds _ Lf) as [Brf Bff]. destruct (geo_bounds _ Lt) as [Brt Bft].
  split; [lia|].
  destruct k as [kt kc]. cbn [fst snd] in *. subst kt kc.
  assert (Eep : is_ep p m = false).
  { unfold is_ep. rewrite Ea, Efl, Z.eqb_refl. reflexivity. }
  assert (Ecs : is_castle (cells p) m = false).
  { unfold is_castle. rewrite Ea. reflexivity. }
  rewrite apply_cells. cbv zeta. rewrite Eep, Ecs, Epr, Ea.
  pose proof (geo_eta (m_from m)) as Hf. pose proof (geo_eta (m_to m)) as Ht.
  apply occupied_false in Omid, Oto.
  set (fN := Z.to_nat (Geometry.file (m_to m))) in *.
  rewrite !at_set_cell by (rewrite ?set_cell_length, L; lia).
  destruct (side p); cbn [opposite forward start_rank] in *.
  - assert (E1 : (m_from m = 8 + fN)%nat) by (unfold mk in *; lia).
    assert (E2 : (m_to m = 24 + fN)%nat) by (unfold mk in *; lia).
    assert (E3 : (sq (Geometry.rank (m_from m) + 1) (Geometry.file (m_from m)) = 16 + fN)%nat)
      by (unfold sq, mk in *; lia).
    rewrite E3 in Omid. rewrite E1, E2.
    repeat split; nat_eqb_cases; try (exfalso; lia); auto.
  - assert (E1 : (m_from m = 48 + fN)%nat) by (unfold mk in *; lia).
    assert (E2 : (m_to m = 32 + fN)%nat) by (unfold mk in *; lia).
    assert (E3 : (sq (Geometry.rank (m_from m) + -1) (Geometry.file (m_from m)) = 40 + fN)%nat)
      by (unfold sq, mk in *; lia).
    rewrite E3 in Omid. rewrite E1, E2.
    repeat split; nat_eqb_cases; try (exfalso; lia); auto.
Qed.
End ApplyPres.

(* ------------------------------------------------------------------ *)
(* the engine's boolean invariants are these invariants of the abstraction *)
Local Open Scope nat_scope.

Lemma has_at b r f k n : r < 8 -> f < 8 -> n = r * 8 + f ->
  has b r f k = okind_eqb (at_ (cells (abs b)) n) (Some k).
Proof.
  intros Hr Hf ->. unfold has.
  rewrite <- (abs_cells_idx b (mkSq r f)); [reflexivity|].
  unfold sq_valid. cbn [rank file]. apply andb_true_iff. split; apply Nat.ltb_lt; assumption.
Qed.
Lemma empty_at b r f n : r < 8 -> f < 8 -> n = r * 8 + f ->
  empty_sq b r f = is_none (at_ (cells (abs b)) n).
Proof.
  intros Hr Hf ->. unfold empty_sq.
  rewrite <- (abs_cells_idx b (mkSq r f)); [reflexivity|].
  unfold sq_valid. cbn [rank file]. apply andb_true_iff. split; apply Nat.ltb_lt; assumption.
Qed.
Lemma okind_eqb_iff o k : okind_eqb o (Some k) = true <-> o = Some k.
Proof. split; [apply okind_eqb_eq|intros ->; apply okind_eqb_refl]. Qed.
Lemma is_none_iff {A} (o : option A) : is_none o = true <-> o = None.
Proof. destruct o; cbn; split; congruence. Qed.

Lemma rc_iff b : rights_consistent b = true <-> rc_pos (cells (abs b)) (p_rights (last_ply b)).
Proof.
  unfold rights_consistent, rc_pos. cbv zeta.
  pose proof (fun r f k n => has_at b r f k n) as E.
  set (c := cells (abs b)) in *. clearbody c. set (r := p_rights (last_ply b)).
  rewrite !(E 0 4 _ 4), !(E 0 7 _ 7), !(E 0 0 _ 0), !(E 7 4 _ 60), !(E 7 7 _ 63), !(E 7 0 _ 56) by lia.
  clear E.
  rewrite !andb_true_iff. split.
  - intros [[[H1 H2] H3] H4] k Hk.
    destruct k; cbn [get_right rhome rcorner rcol] in *; rewrite Hk in *;
      [apply andb_true_iff in H1; destruct H1 as [X Y]
      |apply andb_true_iff in H2; destruct H2 as [X Y]
      |apply andb_true_iff in H3; destruct H3 as [X Y]
      |apply andb_true_iff in H4; destruct H4 as [X Y]];
      apply okind_eqb_iff in X, Y; auto.
  - intros RC.
    assert (G : forall k, (if get_right r k
                           then okind_eqb (at_ c (rhome k)) (Some (King, rcol k))
                                && okind_eqb (at_ c (rcorner k)) (Some (Rook, rcol k))
                           else true) = true).
    { intros k. destruct (get_right r k) eqn:E; [|reflexivity].
      destruct (RC k E) as [X Y]. rewrite X, Y, !okind_eqb_refl. reflexivity. }
    pose proof (G WK). pose proof (G WQ). pose proof (G BK). pose proof (G BQ). auto.
Qed.

Lemma ep_ok_iff b : ep_target_ok b = true <-> ep_ok_pos (cells (abs b)) (current_turn b) (ep_file b).
Proof.
  unfold ep_target_ok, ep_ok_pos. destruct (ep_file b) as [f|]; [|tauto].
  destruct (Nat.ltb_spec f 8) as [Hf|Hf]; [|split; [discriminate|intros [X _]; lia]].
  cbn [andb].
  pose proof (fun r f k n => has_at b r f k n) as E. pose proof (fun r f n => empty_at b r f n) as E'.
  set (c := cells (abs b)) in *. clearbody c.
  rewrite (E 4 f _ (32 + f)), (E 3 f _ (24 + f)), (E' 5 f (40 + f)), (E' 6 f (48 + f)),
    (E' 2 f (16 + f)), (E' 1 f (8 + f)) by lia.
  clear E E'.
  destruct (current_turn b); rewrite !andb_true_iff, okind_eqb_iff, !is_none_iff; tauto.
Qed.

Lemma back_mask : 0xff000000000000ff%N = set_of (seq 0 8 ++ seq 56 8).
Proof. vm_compute. reflexivity. Qed.
Lemma back_In n : In n (seq 0 8 ++ seq 56 8) <-> n < 64 /\ (n < 8 \/ 56 <= n).
Proof. rewrite in_app_iff, !in_seq. lia. Qed.

Lemma not_pawn_iff c n : not_pawn (at_ c n) = true <->
  has_piece c (Pawn, White) n = false /\ has_piece c (Pawn, Black) n = false.
Proof.
  unfold not_pawn, has_piece. destruct (at_ c n) as [[[] []]|]; cbn;
    (split; [intros H; try discriminate H; split; reflexivity
            |intros [H1 H2]; try discriminate H1; try discriminate H2; reflexivity]).
Qed.

Lemma npbr_iff b : pbb_wf (bbs b) = true ->
  (no_pawn_on_back_ranks b = true <-> npbr_pos (cells (abs b))).
Proof.
  intros W. unfold no_pawn_on_back_ranks, npbr_pos. rewrite N.eqb_eq. split.
  - intros H n Hn Hr. apply not_pawn_iff.
    assert (T : N.testbit (N.land (N.lor (white_pawns (bbs b)) (black_pawns (bbs b))) 0xff000000000000ff)
                          (N.of_nat n) = false) by (rewrite H; apply N.bits_0).
    rewrite N.land_spec, N.lor_spec in T.
    assert (M : N.testbit 0xff000000000000ff (N.of_nat n) = true).
    { rewrite back_mask. apply (set_of_tb _ n). apply back_In. auto. }
    rewrite M, andb_true_r in T. apply orb_false_iff in T. destruct T as [T1 T2].
    rewrite <- (has_piece_abs b (Pawn, White) n W Hn), <- (has_piece_abs b (Pawn, Black) n W Hn). auto.
  - intros NP. apply land_zero_bits. intros n.
    destruct (N.testbit 0xff000000000000ff n) eqn:E; [|apply andb_false_r].
    rewrite back_mask, set_of_spec in E. apply existsb_exists in E. destruct E as [i [Hi E]].
    apply N.eqb_eq in E. subst n. apply back_In in Hi. destruct Hi as [Hi Hr].
    pose proof (proj1 (not_pawn_iff _ _) (NP i Hi Hr)) as [P1 P2].
    rewrite <- (has_piece_abs b (Pawn, White) i W Hi) in P1. rewrite <- (has_piece_abs b (Pawn, Black) i W Hi) in P2.
    rewrite andb_true_r, N.lor_spec. unfold tb in P1, P2. cbn [bb_get] in P1, P2. rewrite P1, P2. reflexivity.
Qed.

(* ------------------------------------------------------------------ *)
(* at most one king, as a population count *)
Lemma ppop_le1 p :
  (forall i j, N.testbit (Npos p) i = true -> N.testbit (Npos p) j = true -> i = j) -> ppop p <= 1.
Proof.
  induction p as [q IH|q IH|]; intros U; cbn [ppop]; [exfalso| |lia].
  - assert (Hb : N.testbit (Npos q) (N.log2 (Npos q)) = true) by (apply N.bit_log2; discriminate).
    assert (H0 : N.testbit (Npos q~1) 0 = true) by reflexivity.
    assert (H1 : N.testbit (Npos q~1) (N.succ (N.log2 (Npos q))) = true).
    { change (Npos q~1) with (2 * Npos q + 1)%N. rewrite N.testbit_odd_succ by apply N.le_0_l. exact Hb. }
    pose proof (U _ _ H0 H1) as E. lia.
  - apply IH. intros i j Hi Hj. apply N.succ_inj. apply U.
    + change (Npos q~0) with (2 * Npos q)%N. rewrite N.testbit_even_succ by apply N.le_0_l. exact Hi.
    + change (Npos q~0) with (2 * Npos q)%N. rewrite N.testbit_even_succ by apply N.le_0_l. exact Hj.
Qed.
Lemma popcount_le1 x :
  (forall i j, N.testbit x i = true -> N.testbit x j = true -> i = j) -> popcount x <= 1.
Proof. destruct x as [|p]; cbn [popcount]; [lia|apply ppop_le1]. Qed.

Lemma has_piece_at c k n : has_piece c k n = true -> at_ c n = Some k.
Proof.
  unfold has_piece. destruct (at_ c n) as [x|]; [|discriminate].
  intros H. destruct (kind_eqb_spec x k); congruence.
Qed.

Lemma kings_ok_of_unique b : pbb_wf (bbs b) = true -> king_unique b -> kings_ok b = true.
Proof.
  intros W KU.
  assert (G : forall c, popcount (bb_get (bbs b) (King, c)) <= 1).
  { intros c. apply popcount_le1.
    assert (A : forall i, N.testbit (bb_get (bbs b) (King, c)) i = true ->
                          (N.to_nat i < 64) /\ get_piece b (sq_of_idx (N.to_nat i)) = Some (King, c)).
    { intros i Hi.
      assert (Li : (i < 64)%N).
      { destruct (N.lt_ge_cases i 64) as [X|X]; [exact X|exfalso].
        pose proof (proj1 (lt64_bits _) (bb_get_lt b (King, c) W) i X). congruence. }
      assert (Ln : N.to_nat i < 64) by lia. split; [exact Ln|].
      rewrite <- (at_abs b _ Ln). apply has_piece_at.
      rewrite <- (has_piece_abs b (King, c) _ W Ln). unfold tb. rewrite N2Nat.id. exact Hi. }
    intros i j Hi Hj. destruct (A i Hi) as [Li Ei], (A j Hj) as [Lj Ej].
    apply N2Nat.inj. rewrite <- (idx_sq_of_idx (N.to_nat i)), <- (idx_sq_of_idx (N.to_nat j)). f_equal.
    apply (KU c); try assumption; apply sq_of_idx_valid; assumption. }
  unfold kings_ok. apply andb_true_iff. split; apply Nat.leb_le.
  - exact (G White).
  - exact (G Black).
Qed.

(* ------------------------------------------------------------------ *)
(* what wf_rules says *)
Lemma wf_rules_facts b : wf_rules b = true ->
  wfb b = true /\ rights_consistent b = true /\ ep_target_ok b = true /\ no_pawn_on_back_ranks b = true /\
  is_in_check b (opposite (current_turn b)) = false /\ kings_ok b = true.
Proof.
  unfold wf_rules, wf_full. intros H.
  apply andb_true_iff in H; destruct H as [H H6].
  apply andb_true_iff in H; destruct H as [H H5].
  apply andb_true_iff in H; destruct H as [H H4].
  apply andb_true_iff in H; destruct H as [H H3].
  apply andb_true_iff in H; destruct H as [H1 H2].
  apply negb_true_iff in H5. auto 8.
Qed.

Lemma wfb_pbb b : wfb b = true -> pbb_wf (bbs b) = true.
Proof. intros H. apply pbb_wf_iff. apply (wfb_facts b H). Qed.

Lemma legal_in_all b m : In m (get_legal_moves b) -> In m (get_all_moves b) /\ is_legal_move b m = true.
Proof. unfold get_legal_moves. apply filter_In. Qed.

(* the counters after one move *)
Lemma wrap16_le x : (wrap16 x <= x)%N.
Proof.
  unfold wrap16, u16_max. change 65535%N with (N.ones 16). rewrite N.land_ones.
  apply N.mod_le. discriminate.
Qed.

Lemma turn_make b m : move_piece_panics (p_captured m) (p_ep m) = false ->
  current_turn (make_move b m) = opposite (current_turn b).
Proof. intros NP. rewrite (make_move_eq b m NP). reflexivity. Qed.

Lemma fullmove_make_le b m : move_piece_panics (p_captured m) (p_ep m) = false ->
  (Board.fullmove (make_move b m) <= Board.fullmove b + 1)%N.
Proof.
  intros NP. rewrite (make_move_eq b m NP). cbn [Board.fullmove].
  destruct (color_eqb (opposite (current_turn b)) White); [apply wrap16_le|lia].
Qed.

Lemma halfmove_make_le b m : move_piece_panics (p_captured m) (p_ep m) = false ->
  (halfmove_clock (make_move b m) <= halfmove_clock b + 1)%N.
Proof.
  intros NP. rewrite (make_move_eq b m NP). unfold halfmove_clock at 1, last_ply at 1. cbn [history].
  unfold new_ply. cbn [p_halfmove set_clock_rights]. unfold new_hm. fold (halfmove_clock b).
  repeat match goal with |- context [match ?x with _ => _ end] => destruct x end;
    try apply wrap16_le; lia.
Qed.

(* ------------------------------------------------------------------ *)
(* preservation of wf_rules, whole games *)
Section Main.
Hypothesis generated_moves_ok : forall b m, wf_rules b = true -> In m (get_all_moves b) ->
  move_okb b m = true /\ flags_ok b m = true.
Hypothesis step_refines : forall b m, wf_rules b = true -> In m (get_legal_moves b) ->
  (Board.fullmove b < 65535)%N -> (halfmove_clock b < 65535)%N ->
  abs (make_move b m) = apply (abs b) (move_of m).
Hypothesis cells_step : forall b m, wf_rules b = true -> In m (get_legal_moves b) ->
  cells (abs (make_move b m)) = cells (apply (abs b) (move_of m))
  /\ rights (abs (make_move b m)) = rights (apply (abs b) (move_of m))
  /\ ep (abs (make_move b m)) = ep (apply (abs b) (move_of m))
  /\ side (abs (make_move b m)) = side (apply (abs b) (move_of m)).
Hypothesis kings_ok_unique : forall b, pbb_wf (bbs b) = true -> kings_ok b = true -> king_unique b.
Hypothesis pseudo_in_rules : forall b m, wf_rules b = true -> In m (get_all_moves b) ->
  In (move_of m) (pseudo_moves (abs b)).

Lemma wf_rules_step : forall b m,
  wf_rules b = true -> In m (get_legal_moves b) -> wf_rules (make_move b m) = true.
Proof.
  intros b m Wf Hin.
  destruct (wf_rules_facts b Wf) as (Wb & RC & EP & NP & NC & KO).
  destruct (legal_in_all b m Hin) as [Hall Hleg].
  destruct (generated_moves_ok b m Wf Hall) as [Hok Hfl].
  pose proof (wfb_pbb b Wb) as Wp. pose proof (proj1 (pbb_wf_iff _) Wp) as W.
  destruct (move_ok_facts b m W Hok) as (_ & _ & _ & _ & Hk & NPn & _). cbv zeta in Hk.
  pose proof (wfb_make b m Wb Hok) as Wb'. pose proof (wfb_pbb _ Wb') as Wp'.
  destruct (cells_step b m Wf Hin) as (Ec & Er & Ee & Es).
  pose proof (pseudo_in_rules b m Wf Hall) as Hps.
  pose proof (abs_cells_length b) as L.
  assert (Hep : forall f, ep (abs b) = Some f -> f < 8).
  { intros f E. apply ep_ok_iff in EP. change (ep (abs b)) with (ep_file b) in E. rewrite E in EP.
    destruct EP as [X _]. exact X. }
  unfold wf_rules, wf_full. rewrite !andb_true_iff. repeat split.
  - exact Wb'.
  - apply rc_iff. change (p_rights (last_ply (make_move b m))) with (rights (abs (make_move b m))).
    rewrite Ec, Er. apply (rc_apply _ _ L Hep Hps). apply rc_iff in RC. exact RC.
  - apply ep_ok_iff.
    change (current_turn (make_move b m)) with (side (abs (make_move b m))).
    change (ep_file (make_move b m)) with (ep (abs (make_move b m))).
    rewrite Ec, Es, Ee. apply (ep_apply _ _ L Hep Hps).
  - apply (npbr_iff _ Wp'). rewrite Ec. apply (npbr_apply _ _ L Hep Hps). apply (npbr_iff _ Wp). exact NP.
  - rewrite (turn_make b m NPn), opposite_involutive.
    unfold is_legal_move in Hleg. rewrite Hk in Hleg. exact Hleg.
  - apply (kings_ok_of_unique _ Wp'). apply (king_unique_make b m W Hok). apply (kings_ok_unique b Wp KO).
Qed.

Lemma game_refines : forall ms b,
  wf_rules b = true -> legal_game b ms ->
  (Board.fullmove b + N.of_nat (length ms) < 65535)%N -> (halfmove_clock b + N.of_nat (length ms) < 65535)%N ->
  abs (play_plies b ms) = fold_left apply (map move_of ms) (abs b) /\ wf_rules (play_plies b ms) = true.
Proof.
  induction ms as [|m t IH]; intros b Wf Hg Lf Lh.
  - cbn [play_plies map fold_left]. auto.
  - destruct Hg as [Hin Hg]. cbn [play_plies map fold_left].
    cbn [length] in Lf, Lh. rewrite Nat2N.inj_succ in Lf, Lh.
    destruct (wf_rules_facts b Wf) as (Wb & _).
    destruct (legal_in_all b m Hin) as [Hall _].
    destruct (generated_moves_ok b m Wf Hall) as [Hok _].
    pose proof (proj1 (pbb_wf_iff _) (wfb_pbb b Wb)) as W.
    destruct (move_ok_facts b m W Hok) as (_ & _ & _ & _ & _ & NPn & _).
    pose proof (fullmove_make_le b m NPn) as F1. pose proof (halfmove_make_le b m NPn) as F2.
    rewrite <- (step_refines b m Wf Hin) by lia.
    apply IH; [apply wf_rules_step; assumption|exact Hg|lia|lia].
Qed.
End Main.
