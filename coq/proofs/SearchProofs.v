(* SearchProofs.v — proofs of C11: with caching neutralised, no limits and no stop the search model
   (fail-hard alpha-beta + PVS re-searches + move ordering + killers) returns window-correct
   scores w.r.t. the plain negamax reference V, the root returns the exact value Vroot together
   with a move attaining it, and the iterative-deepening driver announces that move. *)
From Coq Require Import NArith ZArith List Lia Bool FMapPositive Permutation.
Import ListNotations.
From RCE Require Import model.Search spec.Game.
Open Scope Z_scope.

(* ------------------------------------------------------------------ *)
(* generic facts: maxl, permutations, saturating negation              *)
(* ------------------------------------------------------------------ *)

Definition inrange (x : Z) : Prop := -32767 <= x <= 32767.

Lemma sneg_in x : inrange x -> sneg x = - x.
Proof.
  unfold inrange, sneg, SCORE_MIN. intros H.
  destruct (x =? -32768) eqn:E; [apply Z.eqb_eq in E; lia | reflexivity].
Qed.

Lemma sneg_min : sneg (-32768) = 32767.
Proof. reflexivity. Qed.

Lemma sneg_ge x : -32768 <= x -> sneg x <= 32767.
Proof.
  unfold sneg, SCORE_MIN, SCORE_MAX. intros H.
  destruct (x =? -32768) eqn:E; [lia | apply Z.eqb_neq in E; lia].
Qed.

Lemma maxl_cons x l d : maxl (x :: l) d = maxl l (Z.max d x).
Proof. reflexivity. Qed.

Lemma maxl_max l : forall a d, maxl l (Z.max a d) = Z.max a (maxl l d).
Proof.
  induction l as [|x l IH]; intros a d; [reflexivity|].
  rewrite !maxl_cons. rewrite <- IH. f_equal. lia.
Qed.

Lemma maxl_ge l : forall d, d <= maxl l d.
Proof.
  induction l as [|x l IH]; intros d; [cbn; lia|].
  rewrite maxl_cons. specialize (IH (Z.max d x)). lia.
Qed.

Lemma maxl_perm l l' : Permutation l l' -> forall d, maxl l d = maxl l' d.
Proof.
  induction 1; intros d.
  - reflexivity.
  - rewrite !maxl_cons. apply IHPermutation.
  - rewrite !maxl_cons. f_equal. lia.
  - rewrite IHPermutation1. apply IHPermutation2.
Qed.

Lemma maxl_range l : forall d, inrange d -> (forall x, In x l -> inrange x) -> inrange (maxl l d).
Proof.
  induction l as [|x l IH]; intros d Hd Hl; [exact Hd|].
  rewrite maxl_cons. apply IH.
  - assert (inrange x) by (apply Hl; left; reflexivity). unfold inrange in *. lia.
  - intros y Hy. apply Hl. right. exact Hy.
Qed.

(* head-default form of the maximum of a non-empty list *)
Lemma maxl_head x t d : d <= x -> maxl (x :: t) d = maxl t x.
Proof. intros H. rewrite maxl_cons. f_equal. lia. Qed.

Lemma filter_perm {A} (f : A -> bool) l l' : Permutation l l' -> Permutation (filter f l) (filter f l').
Proof.
  induction 1; cbn [filter].
  - constructor.
  - destruct (f x); [constructor|]; assumption.
  - destruct (f x), (f y); try apply Permutation_refl; [apply perm_swap].
  - eapply Permutation_trans; eassumption.
Qed.

(* what a window search may claim about the true value x when it returns r *)
Definition contract (a b r x : Z) : Prop :=
  (r <= a -> x <= r) /\ (r >= b -> x >= r) /\ (a < r < b -> r = x).

Lemma contract_minmax a b x : a < b -> contract a b (Z.min b (Z.max a x)) x.
Proof. unfold contract. lia. Qed.

Lemma contract_eq a b x : contract a b x x.
Proof. unfold contract. lia. Qed.

(* a result obeying the contract for an in-range window and an in-range value is in range *)
Lemma contract_range a b r x : -32767 <= a -> b <= 32767 -> inrange x -> contract a b r x -> inrange r.
Proof. unfold contract, inrange. lia. Qed.

(* ------------------------------------------------------------------ *)
(* selection sort returns a permutation                                 *)
(* ------------------------------------------------------------------ *)
Section Sort.
  Variable mv : Type.

  Lemma replace_nth_perm (h : mv * N) : forall t k,
    Permutation (h :: t) (nth k t h :: replace_nth k h t).
  Proof.
    induction t as [|x t IH]; intros k.
    - destruct k; cbn; apply Permutation_refl.
    - destruct k as [|k]; cbn [nth replace_nth].
      + apply perm_swap.
      + eapply Permutation_trans; [apply perm_swap|].
        eapply Permutation_trans; [apply perm_skip, (IH k)|]. apply perm_swap.
  Qed.

  Lemma select_next_perm (l : list (mv * N)) b rest :
    select_next mv l = Some (b, rest) -> Permutation l (b :: rest).
  Proof.
    destruct l as [|h t]; cbn [select_next]; [discriminate|].
    destruct (first_max mv 0 (snd h) 1 t) as [|k]; intros E; inversion E; subst.
    - apply Permutation_refl.
    - apply replace_nth_perm.
  Qed.

  Lemma select_next_none (l : list (mv * N)) : select_next mv l = None -> l = [].
  Proof.
    destruct l as [|h t]; cbn [select_next]; [reflexivity|].
    destruct (first_max mv 0 (snd h) 1 t); discriminate.
  Qed.

  Lemma sel_sort_perm : forall n (l : list (mv * N)), length l = n ->
    Permutation (sel_sort mv n l) (map fst l).
  Proof.
    induction n as [|n IH]; intros l Hl.
    - destruct l; [apply Permutation_refl | discriminate].
    - cbn [sel_sort]. destruct (select_next mv l) as [[b rest]|] eqn:E.
      + pose proof (select_next_perm _ _ _ E) as HP.
        assert (length rest = n).
        { apply Permutation_length in HP. cbn [length] in HP. lia. }
        eapply Permutation_trans; [apply perm_skip, IH; assumption|].
        change (fst b :: map fst rest) with (map fst (b :: rest)).
        apply Permutation_map, Permutation_sym, HP.
      + apply select_next_none in E. subst. discriminate.
  Qed.
End Sort.

Section SearchProofs.
  Variables pos mv : Type.
  Variable moves : pos -> list mv.
  Variable legal : pos -> mv -> bool.
  Variable make : pos -> mv -> pos.
  Variable in_check : pos -> bool.
  Variable evalf : pos -> Z.
  Variable is_cap is_promo : mv -> bool.
  Variable cap_score : mv -> N.
  Variable mv_eqb : mv -> mv -> bool.
  Variable key : pos -> N.
  Variable halfmove : pos -> N.
  Variable repeated : pos -> bool.
  Variable default_mv : mv.
  Variable Inv : pos -> Prop.
  Hypothesis Inv_make : forall p m, Inv p -> In m (moves p) -> legal p m = true -> Inv (make p m).
  Hypothesis Inv_eval : forall p, Inv p -> -32000 < evalf p < 32000.

  Local Notation clk := (fun _ : nat => 0%N).
  Local Notation nostop := (fun _ : nat => false).
  Local Notation State := (St mv).
  Local Notation run_ := (running mv).
  Local Notation abt := (aborted mv no_limits clk nostop).
  Local Notation qs := (quiescence pos mv moves legal make evalf is_cap is_promo cap_score mv_eqb key
                                   no_limits clk nostop).
  Local Notation ab := (alpha_beta pos mv moves legal make in_check evalf is_cap is_promo cap_score mv_eqb key
                                   halfmove repeated default_mv no_limits clk nostop false).
  Local Notation start := (alpha_beta_start pos mv moves legal make in_check evalf is_cap is_promo cap_score
                                   mv_eqb key halfmove repeated default_mv no_limits clk nostop false).
  Local Notation srch := (search pos mv moves legal make in_check evalf is_cap is_promo cap_score mv_eqb key
                                   halfmove repeated default_mv no_limits clk nostop false).
  Local Notation iter := (iter_loop pos mv moves legal make in_check evalf is_cap is_promo cap_score mv_eqb key
                                   halfmove repeated default_mv no_limits clk nostop false).
  Local Notation order := (order_moves pos mv is_cap is_promo cap_score mv_eqb key).
  Local Notation Vn := (V pos mv moves legal make in_check evalf is_cap halfmove repeated).
  Local Notation Vqn := (Vq pos mv moves legal make evalf is_cap).
  Local Notation Vr := (Vroot pos mv moves legal make in_check evalf is_cap halfmove repeated).
  Local Notation mval := (move_value pos mv moves legal make in_check evalf is_cap halfmove repeated).
  Local Notation tins := (tt_insert mv nostop).
  Local Notation skill := (store_killers mv is_cap is_promo mv_eqb).
  Local Notation cscore := (child_score pos mv).

  (* ---------------- (i) abort and state lemmas ---------------- *)

  Lemma aborted_run (s : State) ply : run_ s = true ->
    abt s ply = (Nat.eqb ply 255,
                 if Nat.eqb ply 255 then tick_load mv s else tick_read mv (tick_load mv s)).
  Proof.
    intros H. unfold aborted, is_running, flag_now, limits_exceeded, PLY_MAX.
    rewrite H. cbn [andb negb].
    destruct (Nat.eqb ply 255); reflexivity.
  Qed.

  Lemma aborted_255 (s : State) : run_ s = true -> abt s 255%nat = (true, tick_load mv s).
  Proof. intros H. rewrite (aborted_run _ _ H). reflexivity. Qed.

  Lemma aborted_not (s : State) ply : run_ s = true -> Nat.eqb ply 255 = false ->
    abt s ply = (false, tick_read mv (tick_load mv s)).
  Proof. intros H E. rewrite (aborted_run _ _ H), E. reflexivity. Qed.

  Lemma run_tick (s : State) : run_ (tick_read mv (tick_load mv s)) = run_ s.
  Proof. reflexivity. Qed.
  Lemma run_enter (s : State) ply u : run_ (enter_node mv s ply u) = run_ s.
  Proof. reflexivity. Qed.
  Lemma run_tins (s : State) k e : run_ (tins s k e) = run_ s.
  Proof. reflexivity. Qed.
  Lemma run_set_tt (s : State) t : run_ (set_tt mv s t) = run_ s.
  Proof. reflexivity. Qed.
  Lemma run_set_best (s : State) m v : run_ (set_best mv s m v) = run_ s.
  Proof. reflexivity. Qed.
  Lemma run_skill (s : State) ply m : run_ (skill s ply m) = run_ s.
  Proof.
    unfold store_killers. destruct (is_cap m || is_promo m); [reflexivity|].
    destruct (okill_eqb mv mv_eqb m _); reflexivity.
  Qed.

  Lemma probe_empty (s : State) p d a b :
    probe pos mv key (set_tt mv s (PositiveMap.empty _)) p d a b = (None, a, b).
  Proof. unfold probe, tt_get. cbn [tt set_tt]. rewrite PositiveMap.gempty. reflexivity. Qed.

  (* ---------------- (ii) ordering is a permutation ---------------- *)

  Lemma order_perm (s : State) p ply ms : Permutation (order s p ply ms) ms.
  Proof.
    unfold order_moves.
    eapply Permutation_trans; [apply sel_sort_perm; rewrite map_length; reflexivity|].
    rewrite map_map. cbn [fst]. rewrite map_id. apply Permutation_refl.
  Qed.

  Lemma order_legal_perm (s : State) p ply ms :
    Permutation (filter (legal p) (order s p ply ms)) (filter (legal p) ms).
  Proof. apply filter_perm, order_perm. Qed.

  Lemma order_incl (s : State) p ply ms m : In m (order s p ply ms) -> In m ms.
  Proof. apply Permutation_in, order_perm. Qed.

  (* ---------------- range of the reference values ---------------- *)

  Lemma Vq_range : forall fuel p ply, Inv p -> inrange (Vqn fuel p ply).
  Proof.
    induction fuel as [|f IH]; intros p ply HI; cbn [Vq]; [unfold inrange; lia|].
    destruct (Nat.eqb ply PLY_MAX); [unfold inrange; lia|].
    apply maxl_range.
    - pose proof (Inv_eval p HI). unfold inrange. lia.
    - intros x Hx. apply in_map_iff in Hx. destruct Hx as [m [<- Hm]].
      apply filter_In in Hm. destruct Hm as [Hm Hl]. apply filter_In in Hm. destruct Hm as [Hm _].
      specialize (IH (make p m) (S ply) (Inv_make p m HI Hm Hl)). unfold inrange in *. lia.
  Qed.

  Lemma V_range : forall fuel d p ply, Inv p -> (1 <= ply <= 255)%nat -> inrange (Vn fuel d p ply).
  Proof.
    induction fuel as [|f IH]; intros d p ply HI Hp; cbn [V]; [unfold inrange; lia|].
    unfold PLY_MAX. destruct (Nat.eqb ply 255) eqn:E; [unfold inrange; lia|].
    apply Nat.eqb_neq in E.
    destruct (N.leb 100 (halfmove p)); [unfold inrange; lia|].
    destruct (repeated p); [unfold inrange; lia|].
    destruct (if in_check p then S d else d) as [|dm1].
    - apply Vq_range, HI.
    - assert (Hall : forall x, In x (map (fun m => - Vn f dm1 (make p m) (S ply)) (filter (legal p) (moves p)))
                               -> inrange x).
      { intros x Hx. apply in_map_iff in Hx. destruct Hx as [m [<- Hm]].
        apply filter_In in Hm. destruct Hm as [Hm Hl].
        specialize (IH dm1 (make p m) (S ply) (Inv_make p m HI Hm Hl) ltac:(lia)).
        unfold inrange in *. lia. }
      destruct (map _ _) as [|x t].
      + unfold SCORE_MIN, inrange. destruct (in_check p); lia.
      + apply maxl_range.
        * apply Hall. left. reflexivity.
        * intros y Hy. apply Hall. right. exact Hy.
  Qed.

  (* ---------------- the local loops as top-level functions ---------------- *)

  Definition q_loop (rec : State -> pos -> Z -> Z -> Z * State) (p : pos) (beta : Z) (ply : nat) :=
    fix loop (ms : list mv) (s : State) (alpha : Z) : Z * State :=
      match ms with
      | [] => (alpha, s)
      | m :: t =>
        if negb (legal p m) then loop t s alpha
        else
          let s := enter_node mv s (S ply) true in
          let (r, s) := rec s (make p m) (sneg beta) (sneg alpha) in
          let sc := sneg r in
          if sc >=? beta then (beta, s)
          else loop t s (if sc >? alpha then sc else alpha)
      end.

  Definition ab_loop (rec : State -> pos -> Z -> Z -> State * Z) (p : pos) (alpha_start beta : Z)
             (depth ply : nat) :=
    fix loop (ms : list mv) (s : State) (alpha : Z) (best : mv) (pvs : bool) (cnt : nat) : Z * State :=
      match ms with
      | [] => match cnt with
              | O => ((if in_check p then SCORE_MIN + Z.of_nat ply else 0), s)
              | _ => (alpha, tins s (key p)
                                  (mkE mv alpha depth (if alpha <=? alpha_start then Upper else Exact) best))
              end
      | m :: t =>
        if negb (legal p m) then loop t s alpha best pvs cnt
        else
          let s := enter_node mv s (S ply) true in
          let (s, sc) := cscore rec s (make p m) alpha beta pvs in
          let (ab0, s) := abt s ply in
          if ab0 then (0, s)
          else if sc >=? beta then (beta, skill (tins s (key p) (mkE mv sc depth Lower m)) ply m)
          else if sc >? alpha then loop t s sc m true (S cnt)
          else loop t s alpha best pvs (S cnt)
      end.

  Definition root_loop (rec : State -> pos -> Z -> Z -> State * Z) (p : pos) (depth : nat) :=
    fix loop (ms : list mv) (s : State) (alpha : Z) (best : mv) (pvs : bool) (cnt : nat) : State :=
      match ms with
      | [] => match cnt with
              | O => s
              | _ => let (ab0, s) := abt s 0 in
                     if ab0 then s
                     else set_best mv (tins s (key p) (mkE mv alpha depth Exact best)) (Some best) (Some alpha)
              end
      | m :: t =>
        if negb (legal p m) then loop t s alpha best pvs cnt
        else
          let s := enter_node mv s 1 false in
          let (s, sc) := cscore rec s (make p m) alpha SCORE_MAX pvs in
          let (ab0, s) := abt s 0 in
          if ab0 then
            match best_score mv s with
            | Some bs => if alpha >? bs then set_best mv s (Some best) (Some alpha) else s
            | None => s
            end
          else if sc >? alpha then loop t s sc m true (S cnt)
          else loop t s alpha best pvs (S cnt)
      end.

  Definition q_rec (f : nat) (ply : nat) : State -> pos -> Z -> Z -> Z * State :=
    fun s c a b => qs f s c a b (S ply).
  Definition ab_rec (f : nat) (dm1 ply : nat) : State -> pos -> Z -> Z -> State * Z :=
    fun s c a b => let (r, s') := ab f s c a b dm1 (S ply) in (s', r).

  Lemma qs_S f s p a b ply :
    qs (S f) s p a b ply =
    let (ab0, s1) := abt s ply in
    if ab0 then (0, s1)
    else if evalf p >=? b then (b, s1)
    else q_loop (q_rec f ply) p b ply (order s1 p ply (filter is_cap (moves p))) s1
                (if evalf p >? a then evalf p else a).
  Proof. reflexivity. Qed.

  Lemma ab_S f s p a b d ply :
    ab (S f) s p a b d ply =
    let (ab0, s1) := abt s ply in
    if ab0 then (0, s1)
    else if N.leb 100 (halfmove p) then (0, s1)
    else if repeated p then (0, s1)
    else
      let s2 := set_tt mv s1 (PositiveMap.empty _) in
      match probe pos mv key s2 p d a b with
      | (Some v, _, _) => (v, s2)
      | (None, alpha0, beta) =>
        let depth := if in_check p then S d else d in
        match depth with
        | O => qs f s2 p alpha0 beta ply
        | S dm1 =>
          ab_loop (ab_rec f dm1 ply) p a beta depth ply (order s2 p ply (moves p)) s2 alpha0
                  (match moves p with m :: _ => m | [] => default_mv end) false O
        end
      end.
  Proof. reflexivity. Qed.

  Lemma start_eq s p d :
    start s p d =
    match moves p with
    | [] => s
    | m0 :: _ => root_loop (ab_rec FUEL (pred d) 0) p d (order s p 0%nat (moves p)) s SCORE_MIN m0 false O
    end.
  Proof. reflexivity. Qed.

  (* ---------------- running is preserved; results are >= -32768 ---------------- *)

  Definition keeps_q (rec : State -> pos -> Z -> Z -> Z * State) : Prop :=
    forall s c a b, run_ s = true -> run_ (snd (rec s c a b)) = true.
  Definition keeps (rec : State -> pos -> Z -> Z -> State * Z) : Prop :=
    forall s c a b, run_ s = true ->
      run_ (fst (rec s c a b)) = true /\ (-32768 <= a -> -32768 <= b -> -32768 <= snd (rec s c a b)).

  Lemma q_loop_run rec p beta ply : keeps_q rec ->
    forall ms s alpha, run_ s = true ->
      run_ (snd (q_loop rec p beta ply ms s alpha)) = true
      /\ (-32768 <= alpha -> -32768 <= beta -> -32768 <= fst (q_loop rec p beta ply ms s alpha)).
  Proof.
    intros Hrec. induction ms as [|m t IH]; intros s alpha Hs; cbn [q_loop].
    - cbn [fst snd]. split; [exact Hs|lia].
    - destruct (negb (legal p m)); [apply IH, Hs|].
      pose proof (Hrec (enter_node mv s (S ply) true) (make p m) (sneg beta) (sneg alpha) Hs) as H1.
      destruct (rec _ _ _ _) as [r s1]. cbn [snd] in H1. cbv zeta.
      destruct (sneg r >=? beta).
      + cbn [fst snd]. split; [exact H1|lia].
      + destruct (IH s1 (if sneg r >? alpha then sneg r else alpha) H1) as [I1 I2].
        split; [exact I1|]. intros Ha Hb. apply I2; [|exact Hb].
        destruct (sneg r >? alpha) eqn:E; [|exact Ha]. rewrite Z.gtb_ltb in E. apply Z.ltb_lt in E. lia.
  Qed.

  Lemma qs_run : forall f s p a b ply, run_ s = true ->
      run_ (snd (qs f s p a b ply)) = true
      /\ (-32768 <= a -> -32768 <= b -> -32768 <= fst (qs f s p a b ply)).
  Proof.
    induction f as [|f IH]; intros s p a b ply Hs.
    - cbn [quiescence fst snd]. split; [exact Hs|lia].
    - rewrite qs_S, (aborted_run _ _ Hs).
      destruct (Nat.eqb ply 255); [cbn [fst snd]; split; [exact Hs|lia]|].
      destruct (evalf p >=? b); [cbn [fst snd]; split; [exact Hs|lia]|].
      match goal with |- context [q_loop ?r0 ?p0 ?b0 ?ply0 ?ms0 ?s0 ?al0] =>
        destruct (q_loop_run r0 p0 b0 ply0 (fun s' c' a' b' H' => proj1 (IH s' c' a' b' (S ply) H')) ms0 s0 al0 Hs)
          as [I1 I2] end.
      split; [exact I1|]. intros Ha Hb. apply I2; [|exact Hb].
      destruct (evalf p >? a) eqn:E; [|exact Ha]. rewrite Z.gtb_ltb in E. apply Z.ltb_lt in E. lia.
  Qed.

  Lemma cscore_run rec s c alpha beta pvs : keeps rec -> run_ s = true ->
    run_ (fst (cscore rec s c alpha beta pvs)) = true.
  Proof.
    intros Hrec Hs. unfold child_score. destruct pvs.
    - pose proof (proj1 (Hrec s c (sneg alpha - 1) (sneg alpha) Hs)) as H1.
      destruct (rec s c (sneg alpha - 1) (sneg alpha)) as [s1 r1]. cbn [fst] in H1.
      destruct ((alpha <? sneg r1) && (sneg r1 <? beta)); [|exact H1].
      pose proof (proj1 (Hrec s1 c (sneg beta) (sneg alpha) H1)) as H2.
      destruct (rec s1 c (sneg beta) (sneg alpha)) as [s2 r2]. exact H2.
    - pose proof (proj1 (Hrec s c (sneg beta) (sneg alpha) Hs)) as H1.
      destruct (rec s c (sneg beta) (sneg alpha)) as [s1 r1]. exact H1.
  Qed.

  Lemma ab_loop_run rec p a0 beta depth ply : keeps rec -> Nat.eqb ply 255 = false ->
    forall ms s alpha best pvs cnt, run_ s = true ->
      run_ (snd (ab_loop rec p a0 beta depth ply ms s alpha best pvs cnt)) = true
      /\ (-32768 <= alpha -> -32768 <= beta ->
          -32768 <= fst (ab_loop rec p a0 beta depth ply ms s alpha best pvs cnt)).
  Proof.
    intros Hrec Hply. induction ms as [|m t IH]; intros s alpha best pvs cnt Hs; cbn [ab_loop].
    - destruct cnt; cbn [fst snd]; (split; [exact Hs|]); intros; [|lia].
      unfold SCORE_MIN. destruct (in_check p); lia.
    - destruct (negb (legal p m)); [apply IH, Hs|]. cbv zeta.
      pose proof (cscore_run rec (enter_node mv s (S ply) true) (make p m) alpha beta pvs Hrec Hs) as H1.
      destruct (cscore rec _ _ _ _ _) as [s1 sc]. cbn [fst] in H1.
      rewrite (aborted_not _ _ H1 Hply).
      destruct (sc >=? beta).
      + cbn [fst snd]. rewrite run_skill. split; [exact H1|lia].
      + destruct (sc >? alpha) eqn:E.
        * destruct (IH (tick_read mv (tick_load mv s1)) sc m true (S cnt) H1) as [I1 I2].
          split; [exact I1|]. intros Ha Hb. apply I2; [|exact Hb].
          rewrite Z.gtb_ltb in E. apply Z.ltb_lt in E. lia.
        * apply IH. exact H1.
  Qed.

  Lemma ab_run : forall f s p a b d ply, run_ s = true ->
      run_ (snd (ab f s p a b d ply)) = true
      /\ (-32768 <= a -> -32768 <= b -> -32768 <= fst (ab f s p a b d ply)).
  Proof.
    induction f as [|f IH]; intros s p a b d ply Hs.
    - cbn [alpha_beta fst snd]. split; [exact Hs|lia].
    - rewrite ab_S, (aborted_run _ _ Hs).
      destruct (Nat.eqb ply 255) eqn:Hply; [cbn [fst snd]; split; [exact Hs|lia]|].
      destruct (N.leb 100 (halfmove p)); [cbn [fst snd]; split; [exact Hs|lia]|].
      destruct (repeated p); [cbn [fst snd]; split; [exact Hs|lia]|].
      cbv zeta. rewrite probe_empty.
      destruct (if in_check p then S d else d) as [|dm1] eqn:Ed.
      + apply qs_run. exact Hs.
      + apply ab_loop_run; [|exact Hply|exact Hs].
        intros s' c a' b' Hs'. unfold ab_rec.
        pose proof (IH s' c a' b' dm1 (S ply) Hs') as H.
        destruct (ab f s' c a' b' dm1 (S ply)) as [r s'']. exact H.
  Qed.

  Lemma ab_rec_keeps f dm1 ply : keeps (ab_rec f dm1 ply).
  Proof.
    intros s c a b Hs. unfold ab_rec. pose proof (ab_run f s c a b dm1 (S ply) Hs) as H.
    destruct (ab f s c a b dm1 (S ply)) as [r s']. exact H.
  Qed.

  (* ---------------- (iv) quiescence: the value contract ---------------- *)

  Lemma q_loop_ok rec (vc : pos -> Z) p beta ply :
    keeps_q rec ->
    (forall s m a b, run_ s = true -> In m (moves p) -> legal p m = true ->
        -32767 <= a -> a < b -> b <= 32767 ->
        contract a b (fst (rec s (make p m) a b)) (vc (make p m))) ->
    (forall m, In m (moves p) -> legal p m = true -> inrange (vc (make p m))) ->
    beta <= 32767 ->
    forall ms s alpha, (forall m, In m ms -> In m (moves p)) -> run_ s = true ->
      -32767 <= alpha -> alpha < beta ->
      fst (q_loop rec p beta ply ms s alpha)
      = Z.min beta (maxl (map (fun m => - vc (make p m)) (filter (legal p) ms)) alpha).
  Proof.
    intros Hk Hc Hr Hb. induction ms as [|m t IH]; intros s alpha Hin Hs Ha Hab.
    - cbn. lia.
    - assert (Hin' : forall m', In m' t -> In m' (moves p)) by (intros m' H'; apply Hin; right; exact H').
      cbn [q_loop filter]. destruct (legal p m) eqn:L; cbn [negb]; [|apply IH; assumption].
      cbv zeta. cbn [map]. rewrite maxl_cons.
      assert (Hm : In m (moves p)) by (apply Hin; left; reflexivity).
      rewrite (sneg_in beta), (sneg_in alpha) by (unfold inrange; lia).
      pose proof (Hc (enter_node mv s (S ply) true) m (- beta) (- alpha) Hs Hm L
                     ltac:(lia) ltac:(lia) ltac:(lia)) as C.
      pose proof (Hk (enter_node mv s (S ply) true) (make p m) (- beta) (- alpha) Hs) as K.
      pose proof (Hr m Hm L) as R.
      destruct (rec _ _ _ _) as [r s1]. cbn [fst snd] in C, K.
      set (x := vc (make p m)) in *.
      assert (Rr : inrange r) by (apply (contract_range (- beta) (- alpha) r x); try lia; assumption).
      rewrite (sneg_in r Rr).
      unfold contract, inrange in *.
      destruct (- r >=? beta) eqn:E1.
      + rewrite Z.geb_leb in E1. apply Z.leb_le in E1. cbn [fst].
        pose proof (maxl_ge (map (fun m0 => - vc (make p m0)) (filter (legal p) t)) (Z.max alpha (- x))). lia.
      + rewrite Z.geb_leb in E1. apply Z.leb_gt in E1.
        destruct (- r >? alpha) eqn:E2; rewrite Z.gtb_ltb in E2;
          [apply Z.ltb_lt in E2 | apply Z.ltb_ge in E2].
        * rewrite (IH s1 (- r) Hin' K ltac:(lia) ltac:(lia)).
          replace (Z.max alpha (- x)) with (- r) by lia. reflexivity.
        * rewrite (IH s1 alpha Hin' K ltac:(lia) ltac:(lia)).
          replace (Z.max alpha (- x)) with alpha by lia. reflexivity.
  Qed.

  Lemma qs_contract : forall f s p a b ply, run_ s = true -> Inv p ->
    -32767 <= a -> a < b -> b <= 32767 ->
    contract a b (fst (qs f s p a b ply)) (Vqn f p ply).
  Proof.
    induction f as [|f IH]; intros s p a b ply Hs HI Ha Hab Hb.
    - cbn [quiescence Vq fst]. apply contract_eq.
    - rewrite qs_S, (aborted_run _ _ Hs). cbn [Vq]. unfold PLY_MAX.
      destruct (Nat.eqb ply 255); [cbn [fst]; apply contract_eq|].
      set (g := fun m => - Vqn f (make p m) (S ply)).
      set (L := filter (legal p) (filter is_cap (moves p))).
      pose proof (Inv_eval p HI) as He.
      destruct (evalf p >=? b) eqn:E1; rewrite Z.geb_leb in E1;
        [apply Z.leb_le in E1 | apply Z.leb_gt in E1].
      + cbn [fst]. pose proof (maxl_ge (map g L) (evalf p)). unfold contract. lia.
      + rewrite (q_loop_ok (q_rec f ply) (fun c => Vqn f c (S ply)) p b ply).
        * rewrite (maxl_perm _ _ (Permutation_map _ (order_legal_perm _ p ply (filter is_cap (moves p))))).
          fold g. fold L.
          replace (if evalf p >? a then evalf p else a) with (Z.max a (evalf p)).
          2:{ destruct (evalf p >? a) eqn:E2; rewrite Z.gtb_ltb in E2;
                [apply Z.ltb_lt in E2 | apply Z.ltb_ge in E2]; lia. }
          rewrite maxl_max. apply contract_minmax. exact Hab.
        * intros s' c a' b' Hs'. unfold q_rec. apply (qs_run f s' c a' b' (S ply) Hs').
        * intros s' m a' b' Hs' Hm Hl Ha' Hab' Hb'. unfold q_rec.
          apply IH; try assumption. apply Inv_make; assumption.
        * intros m Hm Hl. apply Vq_range. apply Inv_make; assumption.
        * exact Hb.
        * intros m Hm. apply order_incl in Hm. apply filter_In in Hm. apply Hm.
        * exact Hs.
        * destruct (evalf p >? a); lia.
        * destruct (evalf p >? a); lia.
  Qed.

  (* ---------------- (iii) the PVS child score ---------------- *)

  Lemma cscore_ok rec s c x alpha beta pvs :
    keeps rec ->
    (forall s a b, run_ s = true -> -32767 <= a -> a < b -> b <= 32767 ->
        contract a b (snd (rec s c a b)) x) ->
    inrange x -> run_ s = true -> -32767 <= alpha -> alpha < beta -> beta <= 32767 ->
    contract alpha beta (snd (cscore rec s c alpha beta pvs)) (- x).
  Proof.
    intros Hk Hc Rx Hs Ha Hab Hb. unfold child_score.
    rewrite (sneg_in beta), (sneg_in alpha) by (unfold inrange; lia).
    destruct pvs.
    - pose proof (Hc s (- alpha - 1) (- alpha) Hs ltac:(lia) ltac:(lia) ltac:(lia)) as C1.
      pose proof (proj1 (Hk s c (- alpha - 1) (- alpha) Hs)) as K1.
      destruct (rec s c (- alpha - 1) (- alpha)) as [s1 r1]. cbn [fst snd] in C1, K1.
      assert (R1 : inrange r1) by (apply (contract_range (- alpha - 1) (- alpha) r1 x); try lia; assumption).
      rewrite (sneg_in r1 R1).
      destruct ((alpha <? - r1) && (- r1 <? beta)) eqn:E.
      + pose proof (Hc s1 (- beta) (- alpha) K1 ltac:(lia) ltac:(lia) ltac:(lia)) as C2.
        destruct (rec s1 c (- beta) (- alpha)) as [s2 r2]. cbn [fst snd] in C2 |- *.
        assert (R2 : inrange r2) by (apply (contract_range (- beta) (- alpha) r2 x); try lia; assumption).
        rewrite (sneg_in r2 R2). unfold contract, inrange in *. lia.
      + cbn [snd]. apply andb_false_iff in E. unfold contract, inrange in *.
        destruct E as [E|E]; apply Z.ltb_ge in E; lia.
    - pose proof (Hc s (- beta) (- alpha) Hs ltac:(lia) ltac:(lia) ltac:(lia)) as C2.
      destruct (rec s c (- beta) (- alpha)) as [s2 r2]. cbn [fst snd] in C2 |- *.
      assert (R2 : inrange r2) by (apply (contract_range (- beta) (- alpha) r2 x); try lia; assumption).
      rewrite (sneg_in r2 R2). unfold contract, inrange in *. lia.
  Qed.

  (* ---------------- (v) alpha_beta: the value contract ---------------- *)

  Lemma ab_loop_ok rec (vc : pos -> Z) p a0 beta depth ply :
    keeps rec -> Nat.eqb ply 255 = false ->
    (forall s m a b, run_ s = true -> In m (moves p) -> legal p m = true ->
        -32767 <= a -> a < b -> b <= 32767 ->
        contract a b (snd (rec s (make p m) a b)) (vc (make p m))) ->
    (forall m, In m (moves p) -> legal p m = true -> inrange (vc (make p m))) ->
    beta <= 32767 ->
    forall ms s alpha best pvs cnt, (forall m, In m ms -> In m (moves p)) -> run_ s = true ->
      -32767 <= alpha -> alpha < beta ->
      fst (ab_loop rec p a0 beta depth ply ms s alpha best pvs cnt)
      = match (cnt + length (filter (legal p) ms))%nat with
        | O => if in_check p then SCORE_MIN + Z.of_nat ply else 0
        | S _ => Z.min beta (maxl (map (fun m => - vc (make p m)) (filter (legal p) ms)) alpha)
        end.
  Proof.
    intros Hk Hply Hc Hr Hb. induction ms as [|m t IH]; intros s alpha best pvs cnt Hin Hs Ha Hab.
    - cbn [ab_loop filter length map]. rewrite Nat.add_0_r. destruct cnt; cbn [fst]; [reflexivity|].
      cbn. lia.
    - assert (Hin' : forall m', In m' t -> In m' (moves p)) by (intros m' H'; apply Hin; right; exact H').
      cbn [ab_loop filter]. destruct (legal p m) eqn:L; cbn [negb]; [|apply IH; assumption].
      cbv zeta. cbn [map length]. rewrite Nat.add_succ_r. rewrite maxl_cons.
      assert (Hm : In m (moves p)) by (apply Hin; left; reflexivity).
      pose proof (Hr m Hm L) as R.
      pose proof (cscore_ok rec (enter_node mv s (S ply) true) (make p m) (vc (make p m)) alpha beta pvs Hk
                    (fun s' a' b' Hs' => Hc s' m a' b' Hs' Hm L) R Hs Ha Hab Hb) as C.
      pose proof (cscore_run rec (enter_node mv s (S ply) true) (make p m) alpha beta pvs Hk Hs) as K.
      destruct (cscore rec _ _ _ _ _) as [s1 sc]. cbn [fst snd] in C, K.
      rewrite (aborted_not _ _ K Hply). cbv beta iota.
      set (x := vc (make p m)) in *.
      set (rest := map (fun m0 => - vc (make p m0)) (filter (legal p) t)).
      unfold contract, inrange in *.
      destruct (sc >=? beta) eqn:E1; rewrite Z.geb_leb in E1;
        [apply Z.leb_le in E1 | apply Z.leb_gt in E1].
      + cbn [fst]. pose proof (maxl_ge rest (Z.max alpha (- x))). lia.
      + destruct (sc >? alpha) eqn:E2; rewrite Z.gtb_ltb in E2;
          [apply Z.ltb_lt in E2 | apply Z.ltb_ge in E2].
        * rewrite (IH (tick_read mv (tick_load mv s1)) sc m true (S cnt) Hin' K ltac:(lia) ltac:(lia)). cbn [Nat.add]. fold rest.
          replace (Z.max alpha (- x)) with sc by lia. reflexivity.
        * rewrite (IH (tick_read mv (tick_load mv s1)) alpha best pvs (S cnt) Hin' K ltac:(lia) ltac:(lia)). cbn [Nat.add]. fold rest.
          replace (Z.max alpha (- x)) with alpha by lia. reflexivity.
  Qed.

  Lemma ab_value : forall f s p a b d ply, run_ s = true -> Inv p -> (1 <= ply <= 255)%nat ->
    -32767 <= a -> a < b -> b <= 32767 ->
    contract a b (fst (ab f s p a b d ply)) (Vn f d p ply).
  Proof.
    induction f as [|f IH]; intros s p a b d ply Hs HI Hp Ha Hab Hb.
    - cbn [alpha_beta V fst]. apply contract_eq.
    - rewrite ab_S, (aborted_run _ _ Hs). cbn [V]. unfold PLY_MAX.
      destruct (Nat.eqb ply 255) eqn:Hply; [cbn [fst]; apply contract_eq|].
      destruct (N.leb 100 (halfmove p)); [cbn [fst]; apply contract_eq|].
      destruct (repeated p); [cbn [fst]; apply contract_eq|].
      cbv zeta. rewrite probe_empty.
      apply Nat.eqb_neq in Hply.
      destruct (if in_check p then S d else d) as [|dm1] eqn:Ed.
      + apply qs_contract; assumption.
      + set (g := fun m => - Vn f dm1 (make p m) (S ply)).
        set (s2 := set_tt mv (tick_read mv (tick_load mv s)) (PositiveMap.empty _)).
        rewrite (ab_loop_ok (ab_rec f dm1 ply) (fun c => Vn f dm1 c (S ply)) p a b (S dm1) ply).
        * pose proof (order_legal_perm s2 p ply (moves p)) as HP.
          rewrite (maxl_perm _ _ (Permutation_map _ HP)), (Permutation_length HP).
          fold g. cbn [Nat.add].
          destruct (filter (legal p) (moves p)) as [|m0 t0]; cbn [length map].
          -- apply contract_eq.
          -- rewrite maxl_cons, maxl_max. apply contract_minmax. exact Hab.
        * apply ab_rec_keeps.
        * apply Nat.eqb_neq. exact Hply.
        * intros s' m a' b' Hs' Hm Hl Ha' Hab' Hb'. unfold ab_rec.
          pose proof (IH s' (make p m) a' b' dm1 (S ply) Hs' (Inv_make p m HI Hm Hl) ltac:(lia) Ha' Hab' Hb') as C.
          destruct (ab f s' (make p m) a' b' dm1 (S ply)) as [r s'']. exact C.
        * intros m Hm Hl. apply V_range; [apply Inv_make; assumption | lia].
        * exact Hb.
        * intros m Hm. apply order_incl in Hm. exact Hm.
        * exact Hs.
        * exact Ha.
        * exact Hab.
  Qed.

  Theorem ab_contract : forall fuel (s : State) p a b d ply,
    run_ s = true -> Inv p -> (1 <= ply <= 255)%nat -> (255 < fuel + ply)%nat ->
    -32767 <= a -> a < b -> b <= 32767 ->
    contract a b (fst (ab fuel s p a b d ply)) (Vn fuel d p ply)
    /\ run_ (snd (ab fuel s p a b d ply)) = true.
  Proof.
    intros fuel s p a b d ply Hs HI Hp _ Ha Hab Hb. split.
    - apply ab_value; assumption.
    - apply ab_run. exact Hs.
  Qed.

  (* ---------------- (vi) the root ---------------- *)

  (* the corner alpha = beta = SCORE_MAX: whatever the collapsed-window searches return, the
     score cannot exceed alpha *)
  Lemma cscore_top rec s c pvs : keeps rec -> run_ s = true ->
    snd (cscore rec s c 32767 32767 pvs) <= 32767.
  Proof.
    intros Hk Hs. unfold child_score. change (sneg 32767) with (-32767).
    destruct pvs.
    - pose proof (Hk s c (-32767 - 1) (-32767) Hs) as [K1 B1].
      destruct (rec s c (-32767 - 1) (-32767)) as [s1 r1]. cbn [fst snd] in K1, B1.
      specialize (B1 ltac:(lia) ltac:(lia)). pose proof (sneg_ge r1 B1) as G.
      destruct ((32767 <? sneg r1) && (sneg r1 <? 32767)) eqn:E.
      + apply andb_true_iff in E. destruct E as [E _]. apply Z.ltb_lt in E. lia.
      + exact G.
    - pose proof (Hk s c (-32767) (-32767) Hs) as [K1 B1].
      destruct (rec s c (-32767) (-32767)) as [s1 r1]. cbn [fst snd] in K1, B1 |- *.
      apply sneg_ge. apply B1; lia.
  Qed.

  (* the first legal root move is searched with the full window: its score is exact *)
  Lemma cscore_first rec s c x :
    (forall s a b, run_ s = true -> -32767 <= a -> a < b -> b <= 32767 ->
        contract a b (snd (rec s c a b)) x) ->
    inrange x -> run_ s = true ->
    snd (cscore rec s c (-32768) 32767 false) = - x.
  Proof.
    intros Hc Rx Hs. unfold child_score.
    change (sneg 32767) with (-32767). change (sneg (-32768)) with 32767.
    pose proof (Hc s (-32767) 32767 Hs ltac:(lia) ltac:(lia) ltac:(lia)) as C.
    destruct (rec s c (-32767) 32767) as [s1 r1]. cbn [fst snd] in C |- *.
    assert (r1 = x) by (unfold contract, inrange in *; lia). subst r1.
    apply sneg_in, Rx.
  Qed.

  Definition root_res (vc : pos -> Z) (p : pos) (s' : State) (M : Z) : Prop :=
    exists m, best_move mv s' = Some m /\ In m (moves p) /\ legal p m = true
              /\ best_score mv s' = Some (- vc (make p m))
              /\ - vc (make p m) = M
              /\ run_ s' = true.

  Lemma root_loop_ok rec (vc : pos -> Z) p depth :
    keeps rec ->
    (forall s m a b, run_ s = true -> In m (moves p) -> legal p m = true ->
        -32767 <= a -> a < b -> b <= 32767 ->
        contract a b (snd (rec s (make p m) a b)) (vc (make p m))) ->
    (forall m, In m (moves p) -> legal p m = true -> inrange (vc (make p m))) ->
    forall ms s alpha best pvs cnt, (forall m, In m ms -> In m (moves p)) -> run_ s = true ->
      ((cnt = 0%nat /\ alpha = -32768 /\ pvs = false)
       \/ (cnt <> 0%nat /\ In best (moves p) /\ legal p best = true /\ - vc (make p best) = alpha)) ->
      (cnt + length (filter (legal p) ms) <> 0)%nat ->
      root_res vc p (root_loop rec p depth ms s alpha best pvs cnt)
               (maxl (map (fun m => - vc (make p m)) (filter (legal p) ms)) alpha).
  Proof.
    intros Hk Hc Hr. induction ms as [|m t IH]; intros s alpha best pvs cnt Hin Hs HI Hn.
    - cbn [filter length] in Hn. rewrite Nat.add_0_r in Hn.
      destruct HI as [[H0 _]|[_ [Hb [Hl Hv]]]]; [contradiction|].
      cbn [root_loop]. destruct cnt; [contradiction|].
      rewrite (aborted_not _ _ Hs) by reflexivity. cbv beta iota.
      exists best. cbn [filter map]. unfold maxl. cbn [fold_left best_move best_score set_best].
      repeat split; try assumption. congruence.
    - assert (Hin' : forall m', In m' t -> In m' (moves p)) by (intros m' H'; apply Hin; right; exact H').
      cbn [root_loop filter]. cbn [filter length] in Hn.
      destruct (legal p m) eqn:L; cbn [negb]; [|apply IH; assumption].
      cbv zeta. cbn [map]. rewrite maxl_cons.
      assert (Hm : In m (moves p)) by (apply Hin; left; reflexivity).
      pose proof (Hr m Hm L) as R.
      set (x := vc (make p m)) in *.
      set (s0 := enter_node mv s 1 false).
      assert (Hs0 : run_ s0 = true) by exact Hs.
      unfold SCORE_MAX.
      pose proof (cscore_run rec s0 (make p m) alpha 32767 pvs Hk Hs0) as K.
      assert (F : (snd (cscore rec s0 (make p m) alpha 32767 pvs) > alpha ->
                   snd (cscore rec s0 (make p m) alpha 32767 pvs) = - x)
                  /\ (snd (cscore rec s0 (make p m) alpha 32767 pvs) <= alpha -> - x <= alpha)).
      { destruct HI as [[H0 [Ha Hp]]|[Hc0 [Hb [Hl Hv]]]].
        - subst alpha pvs.
          rewrite (cscore_first rec s0 (make p m) x (fun s' a' b' Hs' => Hc s' m a' b' Hs' Hm L) R Hs0).
          split; intros; [reflexivity|assumption].
        - pose proof (Hr best Hb Hl) as Rb. unfold inrange in Rb, R.
          destruct (Z.eq_dec alpha 32767) as [Et|Et].
          + subst alpha. rewrite Et.
            pose proof (cscore_top rec s0 (make p m) pvs Hk Hs0). split; intros; lia.
          + pose proof (cscore_ok rec s0 (make p m) x alpha 32767 pvs Hk
                          (fun s' a' b' Hs' => Hc s' m a' b' Hs' Hm L) R Hs0
                          ltac:(lia) ltac:(lia) ltac:(lia)) as C.
            unfold contract in C. split; intros; lia. }
      destruct (cscore rec s0 (make p m) alpha 32767 pvs) as [s1 sc]. cbn [fst snd] in K, F.
      rewrite (aborted_not _ _ K) by reflexivity. cbv beta iota.
      destruct F as [F1 F2]. unfold inrange in R.
      destruct (sc >? alpha) eqn:E2; rewrite Z.gtb_ltb in E2;
        [apply Z.ltb_lt in E2 | apply Z.ltb_ge in E2].
      + specialize (F1 ltac:(lia)).
        replace (Z.max alpha (- x)) with sc by lia.
        apply IH; try assumption.
        * right. repeat split; try assumption; [lia | subst x; lia].
        * lia.
      + specialize (F2 ltac:(lia)).
        replace (Z.max alpha (- x)) with alpha by lia.
        apply IH; try assumption.
        * right. destruct HI as [[H0 [Ha Hp]]|[Hc0 Hrest]]; [lia|]. split; [lia|exact Hrest].
        * lia.
  Qed.

  Lemma start_eq2 s p d : (exists m, In m (moves p) /\ legal p m = true) ->
    start s p d = root_loop (ab_rec FUEL (pred d) 0) p d (order s p 0%nat (moves p)) s SCORE_MIN
                            (hd default_mv (moves p)) false O.
  Proof.
    intros [m [Hm _]]. rewrite start_eq. destruct (moves p); [contradiction|reflexivity].
  Qed.

  Lemma Vr_eq d p : Inv p -> (exists m, In m (moves p) /\ legal p m = true) ->
    Vr d p = Some (maxl (map (mval d p) (filter (legal p) (moves p))) (-32768)).
  Proof.
    intros HI [m [Hm Hl]]. unfold Vroot.
    assert (Hall : forall m', In m' (filter (legal p) (moves p)) -> inrange (mval d p m')).
    { intros m' H'. apply filter_In in H'. destruct H' as [H1 H2]. unfold move_value.
      pose proof (V_range FUEL (pred d) (make p m') 1 (Inv_make p m' HI H1 H2) ltac:(lia)).
      unfold inrange in *. lia. }
    assert (Hne : In m (filter (legal p) (moves p))) by (apply filter_In; split; assumption).
    destruct (filter (legal p) (moves p)) as [|m0 t0]; [contradiction|].
    cbn [map]. rewrite maxl_head; [reflexivity|].
    specialize (Hall m0 ltac:(left; reflexivity)). unfold inrange in Hall. lia.
  Qed.

  Theorem root_exact : forall (s : State) p d,
    run_ s = true -> Inv p -> (1 <= d)%nat ->
    (exists m, In m (moves p) /\ legal p m = true) ->
    exists m, best_move mv (start s p d) = Some m
              /\ In m (moves p) /\ legal p m = true
              /\ best_score mv (start s p d) = Vr d p
              /\ Some (mval d p m) = Vr d p
              /\ run_ (start s p d) = true.
  Proof.
    intros s p d Hs HI _ Hex. rewrite (start_eq2 s p d Hex), (Vr_eq d p HI Hex).
    pose proof (order_legal_perm s p 0%nat (moves p)) as HP.
    destruct (root_loop_ok (ab_rec FUEL (pred d) 0) (fun c => Vn FUEL (pred d) c 1) p d
                (ab_rec_keeps FUEL (pred d) 0%nat)) with
        (ms := order s p 0%nat (moves p)) (s := s) (alpha := -32768) (best := hd default_mv (moves p))
        (pvs := false) (cnt := 0%nat) as [m [H1 [H2 [H3 [H4 [H5 H6]]]]]].
    - intros s' m a' b' Hs' Hm Hl Ha' Hab' Hb'. unfold ab_rec.
      pose proof (ab_value FUEL s' (make p m) a' b' (pred d) 1 Hs' (Inv_make p m HI Hm Hl)
                           ltac:(lia) Ha' Hab' Hb') as C.
      destruct (ab FUEL s' (make p m) a' b' (pred d) 1) as [r s'']. exact C.
    - intros m Hm Hl. apply V_range; [apply Inv_make; assumption | lia].
    - intros m Hm. apply order_incl in Hm. exact Hm.
    - exact Hs.
    - left. repeat split.
    - rewrite (Permutation_length HP). destruct Hex as [m [Hm Hl]].
      assert (Hne : In m (filter (legal p) (moves p))) by (apply filter_In; split; assumption).
      destruct (filter (legal p) (moves p)); [contradiction|]. cbn [length]. lia.
    - rewrite (maxl_perm _ _ (Permutation_map _ HP)) in H5.
      exists m. unfold SCORE_MIN. repeat split; try assumption.
      + rewrite H4. f_equal. exact H5.
      + f_equal. exact H5.
  Qed.

  (* ---------------- (vii) iterative deepening ---------------- *)

  Lemma iter_ok p : Inv p -> (exists m, In m (moves p) /\ legal p m = true) ->
    forall n d (s : State) out, run_ s = true -> (1 <= d)%nat -> n <> 0%nat ->
    exists m, best_move mv (fst (iter n d s p out)) = Some m
              /\ In m (moves p) /\ legal p m = true
              /\ best_score mv (fst (iter n d s p out)) = Vr (d + n - 1) p
              /\ Some (mval (d + n - 1) p m) = Vr (d + n - 1) p
              /\ run_ (fst (iter n d s p out)) = true.
  Proof.
    intros HI Hex. induction n as [|n IH]; intros d s out Hs Hd Hn; [contradiction|].
    cbn [iter_loop].
    destruct (root_exact s p d Hs HI Hd Hex) as [m [H1 [H2 [H3 [H4 [H5 H6]]]]]].
    rewrite (aborted_not _ _ H6) by reflexivity. cbv beta iota.
    destruct n as [|n'].
    - cbn [iter_loop fst]. replace (d + 1 - 1)%nat with d by lia.
      exists m. repeat split; assumption.
    - replace (d + S (S n') - 1)%nat with (S d + S n' - 1)%nat by lia.
      apply IH; [exact H6 | lia | discriminate].
  Qed.

  Theorem search_exact : forall (s0 : State) p D,
    run_ s0 = true -> Inv p -> (1 <= D <= 255)%nat ->
    (exists m, In m (moves p) /\ legal p m = true) ->
    exists m, last (snd (srch s0 p (Some D))) (Bestmove mv default_mv) = Bestmove mv m
              /\ In m (moves p) /\ legal p m = true
              /\ best_score mv (fst (srch s0 p (Some D))) = Vr D p
              /\ Some (mval D p m) = Vr D p.
  Proof.
    intros s0 p D Hs HI HD Hex. unfold search.
    destruct (iter_ok p HI Hex D 1%nat s0 [] Hs ltac:(lia) ltac:(lia)) as [m [H1 [H2 [H3 [H4 [H5 H6]]]]]].
    replace (1 + D - 1)%nat with D in * by lia.
    destruct (iter D 1%nat s0 p []) as [s out]. cbn [fst snd] in *.
    exists m. cbn [rev]. rewrite last_last. unfold announced. rewrite H1.
    repeat split; assumption.
  Qed.
End SearchProofs.
