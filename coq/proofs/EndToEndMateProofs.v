(* EndToEndMateProofs.v — proofs for props/EndToEndMate.v: props/EndToEnd.v (the session board after `position ... moves ...` IS the
   rules position after those moves) composed with props/C12rules.v (a final mate score means that the announced move forces mate under
   the rules of chess). *)
From Coq Require Import NArith ZArith List Lia Bool Ascii String FMapPositive Arith.
Import ListNotations.
From RCE Require Import lib.Bits lib.Geometry model.Board model.Movegen model.Fen model.Wf model.WfFull model.Abs
  model.Play model.Eval model.Search model.ChessSearch model.Uci spec.Rules spec.Notation spec.Mate spec.ValidPos
  proofs.UciProofs proofs.RulesProofs proofs.ChessSearchProofs proofs.SearchAbortProofs proofs.SearchMateSoundProofs
  proofs.EndToEndProofs proofs.ValidPosProofs proofs.MateRulesProofs.
From RCE Require props.C12rules.
Local Open Scope list_scope.

(* no mate in one, over the rules: no legal move leads to a position that has no legal move and is in check *)
Definition rules_no_mate1 (p : Rules.Pos) : Prop :=
  forall mv, In mv (Rules.legal_moves p) ->
    ~ (Rules.legal_moves (Rules.apply p mv) = [] /\ Rules.in_check (cells (Rules.apply p mv)) (side (Rules.apply p mv)) = true).

Local Notation c_no_mate1 := (no_mate1 Board Ply get_all_moves is_legal_move make_move c_in_check).
Local Notation c_tt_sound := (tt_sound Board Ply get_all_moves is_legal_move make_move c_in_check zkey).
Local Notation is_bm := (fun o : Output Ply => match o with Bestmove _ _ => true | _ => false end).

(* the model-level hypothesis of C12sound follows from the rules-level one *)
Lemma rules_no_mate1_model : forall b, wf_rules b = true -> rules_no_mate1 (abs b) -> c_no_mate1 b.
Proof.
  intros b WR H m Hm [Hn Hc]. rewrite c_lmoves in Hm, Hn.
  pose proof (wf_rules_step b m WR Hm) as WR'.
  pose proof (step_core b m WR Hm) as E.
  apply (H (move_of m)).
  - apply (legal_spec_core b WR). apply in_map. exact Hm.
  - split.
    + rewrite <- (legal_moves_ceq _ _ E). apply (legal_nil_core _ WR'). exact Hn.
    + rewrite (check_core _ WR') in Hc.
      assert (Ec : cells (Rules.apply (abs b) (move_of m)) = cells (abs (make_move b m))
                   /\ side (Rules.apply (abs b) (move_of m)) = side (abs (make_move b m)))
        by (unfold ceq, pcore in E; split; congruence).
      destruct Ec as [-> ->]. exact Hc.
Qed.

(* the shape of the output of a search: info lines, then the one bestmove naming the announced move *)
Section Output.
  Variables pos mv : Type.
  Variable moves : pos -> list mv.
  Variable legal : pos -> mv -> bool.
  Variable make : pos -> mv -> pos.
  Variable in_check : pos -> bool.
  Variable evalf : pos -> Z.
  Variable is_cap is_promo : mv -> bool.
  Variable cap_score : mv -> N.
  Variable mv_eqb : mv -> mv -> bool.
  Variable key : pos -> N.
  Variable halfmove : pos -> N.
  Variable repeated : pos -> bool.
  Variable default_mv : mv.
  Variable lim : Limits.
  Variable clock : nat -> N.
  Variable ext_stop : nat -> bool.
  Variable tt_on : bool.
  Local Notation iter := (iter_loop pos mv moves legal make in_check evalf is_cap is_promo cap_score mv_eqb key
                                   halfmove repeated default_mv lim clock ext_stop tt_on).
  Local Notation srch := (search pos mv moves legal make in_check evalf is_cap is_promo cap_score mv_eqb key
                                   halfmove repeated default_mv lim clock ext_stop tt_on).
  Local Notation isbm := (fun o : Output mv => match o with Bestmove _ _ => true | _ => false end).

  Lemma iter_out_infos p : forall n d s out, (forall o, In o out -> isbm o = false) ->
    forall o, In o (snd (iter n d s p out)) -> isbm o = false.
  Proof.
    induction n as [|n IH]; intros d s out Ho; cbn [iter_loop]; [exact Ho|].
    destruct (aborted mv lim clock ext_stop _ 0) as [ab s2]. destruct ab; [exact Ho|].
    apply IH. intros o [<-|H]; [apply info_not_bm | apply Ho, H].
  Qed.

  Lemma search_output : forall s0 p md,
    exists infos, snd (srch s0 p md) = infos ++ [Bestmove mv (announced pos mv moves legal default_mv (fst (srch s0 p md)) p)]
                  /\ forall o, In o infos -> isbm o = false.
  Proof.
    intros s0 p md. unfold search.
    pose proof (iter_out_infos p (match md with Some d => d | None => 255%nat end) 1%nat s0 [] (fun o (H : In o []) => match H with end)) as H.
    destruct (iter _ 1%nat s0 p []) as [s out]. cbn [fst snd] in H |- *.
    exists (rev out). split; [reflexivity|]. intros o Ho. apply H. apply in_rev. exact Ho.
  Qed.
End Output.

Section E2EMate.
  Local Notation RWon := (Won Rules.Pos Rules.Move Rules.legal_moves r_legal Rules.apply r_in_check).
  Local Notation RLost := (Lost Rules.Pos Rules.Move Rules.legal_moves r_legal Rules.apply r_in_check).
  Local Notation CWon := (Won Board Ply get_all_moves is_legal_move make_move c_in_check).
  Local Notation CLost := (Lost Board Ply get_all_moves is_legal_move make_move c_in_check).
  Hypothesis key_sem : forall p q : Board, zkey p = zkey q -> (CWon p -> CWon q) /\ (CLost p -> CLost q).

  (* what a `go` on a board satisfying chess_inv concludes, over the rules position it abstracts to *)
  Definition GoMate (b : Board) (q : Rules.Pos) (lim : Limits) (clock : nat -> N) (ext_stop : nat -> bool)
             (s0 : CSt) (D : option nat) : Prop :=
    let r := c_search lim clock ext_stop true s0 b D in
    exists infos m,
      snd r = infos ++ [Bestmove Ply m]
      /\ (forall o, In o infos -> is_bm o = false)
      /\ c_tt_sound (fst r)
      /\ forall sc, best_score Ply (fst r) = Some sc ->
           ((32000 <= sc)%Z -> In (move_of m) (Rules.legal_moves q) /\ RLost (Rules.apply q (move_of m)))
           /\ ((sc <= -32000)%Z -> RLost q).

  Lemma go_mate : forall b q, chess_inv b -> abs b = q -> rules_no_mate1 q ->
    forall lim clock ext_stop s0 D, c_tt_sound s0 -> best_move Ply s0 = None -> best_score Ply s0 = None ->
      GoMate b q lim clock ext_stop s0 D.
  Proof.
    intros b q Hinv Habs Hnm lim clock ext_stop s0 D Htt Hbm Hbs. subst q.
    pose proof Hinv as [WR _].
    pose proof (rules_no_mate1_model b WR Hnm) as Hn1.
    pose proof (C12rules.C12_mate_scores_sound_rules key_sem lim clock ext_stop s0 b D Hinv Hn1 Htt Hbm Hbs) as H.
    cbv zeta in H. destruct H as [T1 T2].
    unfold GoMate. cbv zeta.
    destruct (search_output Board Ply get_all_moves is_legal_move make_move c_in_check evaluate is_capture is_promotion
                cap_score ply_eqb zkey halfmove_clock c_repeated ply_default lim clock ext_stop true s0 b D) as [infos [E1 E2]].
    exists infos, (announced Board Ply get_all_moves is_legal_move ply_default (fst (c_search lim clock ext_stop true s0 b D)) b).
    split; [exact E1|]. split; [exact E2|]. split; [exact T1 | exact T2].
  Qed.

  Theorem e2e_mate_announced_is_mate :
    forall (sess : Session) (ms : list string) (q : Rules.Pos),
      (List.length ms < 60000)%nat ->
      rules_play_p (abs start_board) ms = Some q ->
      rules_no_mate1 q ->
      exists sess',
        execute sess (CPosition StartPos (Some ms)) = Ok sess'
        /\ abs (s_board sess') = q
        /\ forall (l : GoLimits) (lim : Limits) (clock : nat -> N) (ext_stop : nat -> bool) (s0 : CSt) (D : option nat),
             c_tt_sound s0 -> best_move Ply s0 = None -> best_score Ply s0 = None ->
             exists sess'',
               execute sess' (CGo l) = Ok sess''
               /\ s_events sess'' = EGo (s_board sess') l :: s_events sess'
               /\ GoMate (s_board sess') q lim clock ext_stop s0 D.
  Proof.
    intros sess ms q Hlen HR Hnm.
    assert (Lf : (Board.fullmove start_board + N.of_nat (List.length ms) < 65535)%N).
    { rewrite start_fullmove. pose proof (len_bound _ Hlen) as Hl. lia. }
    assert (Lh : (halfmove_clock start_board + N.of_nat (List.length ms) < 65535)%N).
    { rewrite start_halfmove. pose proof (len_bound _ Hlen) as Hl. lia. }
    destruct (game_simulates ms start_board q start_chess_inv Lf Lh HR) as (b' & Hplay & Habs & Inv' & _ & _).
    destruct (position_accept sess StartPos (Some ms) start_board b' eq_refl Hplay) as (sess' & Hexec & Hboard & Hev).
    exists sess'. split; [exact Hexec|]. rewrite Hboard. split; [exact Habs|].
    intros l lim clock ext_stop s0 D Htt Hbm Hbs.
    exists (emit sess' (EGo (s_board sess') l)).
    split; [reflexivity|]. split; [rewrite Hboard; reflexivity|].
    apply go_mate; assumption.
  Qed.

  Theorem e2e_fen_mate_announced_is_mate :
    forall (sess : Session) (fen : string) (p0 : Rules.Pos) (ms : list string) (q : Rules.Pos),
      SpecFen.parse fen = Some p0 -> valid_pos p0 = true ->
      (Rules.halfmove p0 + N.of_nat (List.length ms) < 65535)%N ->
      (Rules.fullmove p0 + N.of_nat (List.length ms) < 65535)%N ->
      rules_play_p p0 ms = Some q ->
      rules_no_mate1 q ->
      exists sess',
        execute sess (CPosition (FenPos fen) (Some ms)) = Ok sess'
        /\ abs (s_board sess') = q
        /\ forall (lim : Limits) (clock : nat -> N) (ext_stop : nat -> bool) (s0 : CSt) (D : option nat),
             c_tt_sound s0 -> best_move Ply s0 = None -> best_score Ply s0 = None ->
             GoMate (s_board sess') q lim clock ext_stop s0 D.
  Proof.
    intros sess fen p0 ms q HP HV Lh Lf HR Hnm.
    destruct (valid_fen_loads fen p0 HP HV) as (b0 & F & A & Inv). subst p0.
    rewrite abs_fullmove in Lf. rewrite abs_halfmove in Lh.
    destruct (game_simulates ms b0 q Inv Lf Lh HR) as (b' & Hplay & Habs & Inv' & _ & _).
    destruct (position_accept sess (FenPos fen) (Some ms) b0 b' F Hplay) as (sess' & Hexec & Hboard & _).
    exists sess'. split; [exact Hexec|]. rewrite Hboard. split; [exact Habs|].
    intros lim clock ext_stop s0 D Htt Hbm Hbs. apply go_mate; assumption.
  Qed.
End E2EMate.
